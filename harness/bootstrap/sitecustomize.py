# Loaded automatically by every Python child process started by the harness (the harness
# puts this directory first on PYTHONPATH), so that `spawn`ed workers get the stubs too.
import os

if os.environ.get("NELHAGE_TAKTICIAN_PYTHON_VERIF") == "1":
    try:
        import takverif_stubs

        takverif_stubs.install()
    except Exception:  # never break an interpreter start
        pass

# Optional: measure which lines of /repo/python the correspondence executes (tools/tie_coverage.py).
if os.environ.get("COVERAGE_PROCESS_START"):
    try:
        import coverage

        coverage.process_startup()
    except Exception:
        pass

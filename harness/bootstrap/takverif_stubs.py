"""Minimal stand-ins for third-party modules that are absent from the sandbox and cannot
be fetched: grpc, tqdm, google.protobuf-generated tak.proto.analysis_pb2(_grpc).
They provide names and plain-data request/response classes only; the real gRPC transport
and protobuf wire format are therefore outside everything the checks claim (DESIGN.md 2)."""
import importlib.abc
import importlib.machinery
import sys
import types


def _mod(name, **attrs):
    m = types.ModuleType(name)
    m.__dict__.update(attrs)
    m.__takverif_stub__ = True
    return m


class _Tqdm:
    def __init__(self, iterable=None, total=None, disable=False, **kw):
        self.iterable = iterable
        self.total = total
        self.n = 0

    def __enter__(self):
        return self

    def __exit__(self, *a):
        return False

    def __iter__(self):
        return iter(self.iterable if self.iterable is not None else [])

    def update(self, n=1):
        self.n += n

    def close(self):
        pass


class EvaluateRequest:
    def __init__(self, position=None):
        self.position = list(position) if position is not None else []


class EvaluateResponse:
    def __init__(self, move_probs=None, value=0.0, move_probs_bytes=b""):
        self.move_probs = list(move_probs) if move_probs is not None else []
        self.value = value
        self.move_probs_bytes = move_probs_bytes


class AnalysisServicer(object):
    pass


class AnalysisStub(object):
    """The harness replaces `Evaluate` / sets `channel.evaluate` to route calls in-process."""

    def __init__(self, channel):
        self.channel = channel

    def Evaluate(self, request):
        return self.channel.evaluate(request)


class _Channel:
    def __init__(self, target):
        self.target = target
        self.evaluate = None


_STUBS = None


def _build():
    grpc = _mod("grpc", insecure_channel=lambda target, *a, **k: _Channel(target))
    class _AioServer:
        def add_insecure_port(self, addr):
            return 0

        async def start(self):
            pass

        async def stop(self, grace=None):
            pass

        async def wait_for_termination(self, timeout=None):
            import asyncio

            await asyncio.Event().wait()

    grpc.aio = _mod("grpc.aio", Server=_AioServer, server=lambda *a, **k: _AioServer())
    wandb = _mod("wandb", init=lambda *a, **k: None, log=lambda *a, **k: None, finish=lambda *a, **k: None)
    tqdm = _mod("tqdm", tqdm=_Tqdm)
    tqdm.auto = _mod("tqdm.auto", tqdm=_Tqdm)
    pb2 = _mod("tak.proto.analysis_pb2", EvaluateRequest=EvaluateRequest, EvaluateResponse=EvaluateResponse)
    pb2g = _mod(
        "tak.proto.analysis_pb2_grpc",
        AnalysisServicer=AnalysisServicer,
        AnalysisStub=AnalysisStub,
        add_AnalysisServicer_to_server=lambda servicer, server: None,
    )
    return {
        "grpc": grpc,
        "grpc.aio": grpc.aio,
        "tqdm": tqdm,
        "wandb": wandb,
        "tqdm.auto": tqdm.auto,
        "tak.proto.analysis_pb2": pb2,
        "tak.proto.analysis_pb2_grpc": pb2g,
    }


class _Finder(importlib.abc.MetaPathFinder, importlib.abc.Loader):
    """Serves the stubs only when the real module cannot be found."""

    def find_spec(self, name, path=None, target=None):
        if name in _STUBS:
            if name in ("grpc", "tqdm", "grpc.aio", "tqdm.auto", "wandb"):
                # prefer a real installation if there is one
                for f in sys.meta_path:
                    if f is self:
                        continue
                    try:
                        spec = f.find_spec(name, path, target)
                    except Exception:
                        spec = None
                    if spec is not None:
                        return None
            return importlib.machinery.ModuleSpec(name, self)
        return None

    def create_module(self, spec):
        return _STUBS[spec.name]

    def exec_module(self, module):
        pass


def install():
    global _STUBS
    if _STUBS is not None:
        return
    _STUBS = _build()
    sys.meta_path.insert(0, _Finder())

"""C18: picklable engine factories for the REAL `tak.self_play.MultiprocessSelfPlayEngine`.

Lives in harness/bootstrap (first entry of PYTHONPATH for every child the harness starts), so that the
`spawn`ed workers can unpickle `SelfPlayConfig.engine_factory` and the parent can unpickle the tags that
come back inside `Transcript.stats`.

The engine is a tiny scripted stand-in for `mcts.MCTS` with exactly the surface `play_one_game` uses:
`analyze(position) -> tree` (`children[i].move/.position`, `value`, `simulations`, `v_zero`),
`tree_probs(tree) -> 1-D tensor`, and the `stats` attribute (which `play_one_game` copies into the
transcript: it carries the tag worker/pid/sequence/start time, so the harness can detect duplicated and
carried-over transcripts).  Games are 1-3 plies on legal positions and end by resignation.

Faults are scripted per worker (index taken from the process name `selfplay-worker-<j>` that
`MultiprocessSelfPlayEngine` assigns):
  factory   : [j, ...]      the factory raises in worker j
  game      : {j: k}        the k-th game of worker j raises in `analyze`
  killplay  : {j: k}        the k-th game of worker j announces a window and sleeps (the runner SIGKILLs it)
  killinit  : [j, ...]      the factory of worker j announces a window and sleeps (the runner SIGKILLs it
                            while the worker is still starting up)
Every event is announced by an atomically created marker file `<dir>/<name>` holding {"t":…, "pid":…}.
"""
import json
import os
import time


def _marker(d, name, **kw):
    kw.setdefault("t", time.time())
    kw.setdefault("pid", os.getpid())
    tmp = os.path.join(d, ".%s.%d.tmp" % (name, os.getpid()))
    with open(tmp, "w") as f:
        json.dump(kw, f)
    os.replace(tmp, os.path.join(d, name))


def worker_index():
    import multiprocessing

    name = multiprocessing.current_process().name
    try:
        return int(name.rsplit("-", 1)[1])
    except (IndexError, ValueError):
        return -1


class Tag(object):
    """what a transcript says about where it was made (travels in Transcript.stats)"""

    def __init__(self, worker, pid, seq, t_start, nonce):
        self.worker = worker
        self.pid = pid
        self.seq = seq
        self.t_start = t_start
        self.nonce = nonce

    def key(self):
        return "%d/%d/%d/%s" % (self.worker, self.pid, self.seq, self.nonce)


class FakeChild(object):
    def __init__(self, move, position):
        self.move = move
        self.position = position


class FakeTree(object):
    def __init__(self, children, v_zero):
        self.children = children
        self.value = 0.5
        self.simulations = 1
        self.v_zero = v_zero


class ScriptedFaultError(RuntimeError):
    pass


def _scripted_error(spec, text):
    """what the scripted fault raises: ScriptedFaultError, or an exception class an evaluator that
    talks to a server raises for real (spec["exc"]: ConnectionResetError, BrokenPipeError, EOFError,
    OSError, TimeoutError, KeyError)"""
    name = spec.get("exc")
    if not name:
        return ScriptedFaultError(text)
    import builtins

    return getattr(builtins, name)(text)


class ScriptedEngine(object):
    def __init__(self, worker, spec, d):
        self.worker = worker
        self.spec = spec
        self.dir = d
        self.seq = 0
        self.t_start = 0.0
        self.stats = None

    def analyze(self, position):
        import tak

        if position.ply == 0:
            self.seq += 1
            self.t_start = time.time()
            if self.seq <= 64:  # (nobody reads these beyond the first games; thousands of files slow the monitor)
                _marker(self.dir, "took-%d-%d" % (self.worker, self.seq))
            if self.spec.get("killplay", {}).get(str(self.worker)) == self.seq:
                _marker(self.dir, "window-%d" % self.worker)
                time.sleep(120)
        length = 1 + (self.seq + self.worker) % 3
        if self.spec.get("game", {}).get(str(self.worker)) == self.seq and position.ply == length - 1:
            _marker(self.dir, "fault-game-%d" % self.worker)
            raise _scripted_error(self.spec, "scripted evaluator failure in worker %d game %d" % (self.worker, self.seq))
        slow = self.spec.get("slow", 0.0)
        if slow:
            time.sleep(slow)
        children = []
        for m in position.all_moves():
            try:
                children.append(FakeChild(m, position.move(m)))
            except tak.IllegalMove:
                continue
            if len(children) >= 3:
                break
        self.stats = Tag(self.worker, os.getpid(), self.seq, self.t_start, self.spec.get("nonce", ""))
        return FakeTree(children, 1.0 if position.ply >= length - 1 else 0.0)

    def tree_probs(self, tree):
        import torch

        n = len(tree.children)
        return torch.full((n,), 1.0 / n)


def compress_waits(factor):
    """Inside THIS (worker) process, every timed wait lasts `factor` times shorter than asked for:
    `Queue.get(timeout=)`, `Event.wait(timeout)`, `Condition.wait(timeout)`, `time.sleep` - so that
    a pause of a few seconds between two requests is, for the worker, minutes spent idle.
    Untimed waits (the unchanged worker blocks in `cmd.get()` for ever) are not touched."""
    import multiprocessing.queues
    import multiprocessing.synchronize
    import threading

    f = float(factor)

    def scaled(orig, pos):
        def wrapper(self, *a, **k):
            if "timeout" in k and k["timeout"] is not None:
                k["timeout"] = k["timeout"] / f
            elif len(a) > pos and a[pos] is not None:
                a = a[:pos] + (a[pos] / f,) + a[pos + 1:]
            return orig(self, *a, **k)

        return wrapper

    Q = multiprocessing.queues.Queue
    Q.get = scaled(Q.get, 1)  # get(block=True, timeout=None)
    for cls in (multiprocessing.synchronize.Event, threading.Event, multiprocessing.synchronize.Condition, threading.Condition):
        cls.wait = scaled(cls.wait, 0)
    orig_sleep = time.sleep
    time.sleep = lambda s: orig_sleep(s / f)


class ScriptedFactory(object):
    """`SelfPlayConfig.engine_factory`: called once in every worker process."""

    def __init__(self, spec, d):
        self.spec = dict(spec)
        self.dir = d

    def __call__(self):
        j = worker_index()
        if self.spec.get("compress"):
            compress_waits(self.spec["compress"])
        if j in self.spec.get("factory", []):
            _marker(self.dir, "fault-factory-%d" % j)
            raise _scripted_error(self.spec, "scripted engine-factory failure in worker %d" % j)
        if j in self.spec.get("killinit", []):
            _marker(self.dir, "window-init-%d" % j)
            time.sleep(120)
        eng = ScriptedEngine(j, self.spec, self.dir)
        _marker(self.dir, "ready-%d" % j)
        return eng

"""C10 — the regularised-policy solver returns the distribution it is specified to.

Both solvers (`tak_ext.solve_policy`, built from the current tak.cpp, and
`tak.mcts.solve_policy_python`) are run on generated float32 inputs; inputs and outputs go
to the Lean driver as exact IEEE bit patterns.  The driver (component `solver`)

  * `corr`      compares the observed output with the exact-arithmetic model of the same
                solver (the implementation's alpha must be the model's iterate at the model's
                exit round; `skip` where one float32 ulp of alpha can flip a decision),
  * `contract`  evaluates the property's contract predicate on the observed output
                (finite, >= 0, one alpha above every q, total within the stated tolerance),
  * `agree`     compares the two implementations where the problem is well conditioned.

This module contains no solver and no formula: it generates, runs, serialises, classifies."""
import math
import struct
import threading

from ..check import Divergence, Violation
from ..lib import driver

ID = "C10"
LEAN_MODULES = ["TakVerif.Props.C10"]
NEEDS_EXT = True
NEEDS_STUBS = True
RULE = (
    "inputs: K in {1,2,3,9,30,135,496,1575,4572} x prior shape {uniform, dirichlet(a), one-hot+floor, two-heavy+floor, "
    "power-law, floor-heavy} with every prior >= 1e-6 after float32 renormalisation x q = one common unvisited value "
    "with 0..5 visited entries (values +-1, ties with the unvisited value, ties at the maximum, -v/n ratios, all-negative "
    "with alpha near 0) placed on heavy or floor priors x lambda = float32(C*sqrt(N)/(N+K)), C in [0.5,8], N in [1,1e5] "
    "(grid corners + log-uniform). One evaluation = one input run through BOTH solvers, each output checked by the driver "
    "for correspondence with the exact model, for the contract, and against each other. Non-trivial = a solver needed more "
    "than one round; distinct by the exact input bit patterns."
)
TRUSTED = [
    "IEEE-754 arithmetic of the C++ compiler / torch kernels is observed, not modelled: the model is exact arithmetic, "
    "the tie skips (and counts) inputs where one float32 ulp of alpha can flip a bisection decision",
    "conversion of float bit patterns to rationals in the driver (ofBits32/ofBits64)",
]
ASSUMPTIONS = [
    "priors are >= the search cutoff 1e-6 (up to float32 rounding: float32(1e-6) itself occurs) and sum to one up to "
    "float32 rounding; q in [-1,1]; lambda > 0 float32",
    "pi_theta and q are 1-d float32 tensors of equal length K >= 1",
]

KS = [1, 2, 3, 9, 30, 135, 496, 1575, 4572]
CUTOFF = 1e-6
PAR = 8


# ------------------------------------------------------------------ bits


def f32(x):
    return struct.unpack(">f", struct.pack(">f", x))[0]


def f32hex(x):
    return struct.pack(">f", x).hex()


def hex_f32(h):
    return struct.unpack(">f", bytes.fromhex(h))[0]


def tensor_hex(t):
    import numpy as np
    import torch

    t = t.detach().cpu().contiguous()
    if t.dtype == torch.float64:
        return ["%016x" % v for v in t.numpy().view(np.uint64).tolist()]
    t = t.to(torch.float32)
    return ["%08x" % v for v in t.numpy().view(np.uint32).tolist()]


def hex_tensor(hs):
    import numpy as np
    import torch

    a = np.array([int(h, 16) for h in hs], dtype=np.uint32).view(np.float32)
    return torch.from_numpy(a.copy())


# ------------------------------------------------------------------ generation


def _priors(rng, K, shape):
    """float64 list, every entry >= 1.0001e-6, sum 1 (the float32 renormalisation is done as
    the search does it, by the caller)"""
    if shape == "uniform":
        x = [1.0] * K
    elif shape.startswith("dirichlet"):
        a = float(shape.split(":")[1])
        x = [rng.gammavariate(a, 1.0) + 1e-300 for _ in range(K)]
    elif shape == "onehot":
        x = [0.0] * K
        x[rng.randrange(K)] = 1.0
    elif shape == "twoheavy":
        x = [0.0] * K
        for _ in range(2):
            x[rng.randrange(K)] += rng.choice([0.5, 0.3, 0.05, 0.9])
    elif shape == "powerlaw":
        s = rng.choice([0.5, 1.0, 2.0, 4.0])
        x = [1.0 / (i + 1) ** s for i in range(K)]
        rng.shuffle(x)
    elif shape == "floorheavy":
        # a block at the floor, the rest uniform
        nfl = rng.randrange(0, K + 1)
        x = [0.0] * nfl + [1.0] * (K - nfl)
        rng.shuffle(x)
    else:
        raise ValueError(shape)
    tot = sum(x)
    if tot <= 0:
        x = [1.0] * K
        tot = float(K)
    p = [v / tot for v in x]
    # the floor: just above the cutoff, or the cutoff itself (float32(1e-6), which the search's
    # `raw_probs >= cutoff_prob` keeps)
    floor = CUTOFF * 1.0001 if rng.random() < 0.5 else CUTOFF
    low = [i for i, v in enumerate(p) if v < floor]
    if len(low) == K:
        return [1.0 / K] * K
    rest = 1.0 - len(low) * floor
    tot_hi = sum(v for v in p if v >= floor)
    p = [floor if v < floor else v * rest / tot_hi for v in p]
    # rescaling may push an entry just below the floor: repeat once more
    for _ in range(3):
        low = [i for i, v in enumerate(p) if v < floor]
        if not low:
            break
        tot_hi = sum(v for v in p if v > floor)
        rest = 1.0 - sum(1 for v in p if v <= floor) * floor
        p = [floor if v <= floor else v * rest / tot_hi for v in p]
    return p


SHAPES = ["uniform", "dirichlet:0.03", "dirichlet:0.3", "dirichlet:1", "dirichlet:3", "onehot", "twoheavy", "powerlaw", "floorheavy"]
CS = [0.5, 1.0, 2.0, 4.0, 8.0]
NS = [1, 2, 3, 10, 100, 1000, 10000, 100000]


def _lambda(rng, K, mode):
    if mode == "grid":
        C, N = rng.choice(CS), rng.choice(NS)
    else:
        C = math.exp(rng.uniform(math.log(0.5), math.log(8.0)))
        N = int(round(math.exp(rng.uniform(0.0, math.log(1e5)))))
        N = min(max(N, 1), 100000)
    return f32(C * math.sqrt(N) / (N + K)), C, N


def _qvalue(rng, v0):
    r = rng.random()
    if r < 0.2:
        return 1.0
    if r < 0.35:
        return -1.0
    if r < 0.45:
        return v0
    if r < 0.7:
        n = rng.choice([1, 2, 3, 5, 7, 20, 100])
        return max(-1.0, min(1.0, rng.randint(-n, n) / n))
    return rng.uniform(-1.0, 1.0)


def gen_case(rng, K, regime=None):
    """returns dict(label, lam(float, float32-representable), pi(list of hex), q(list of hex))"""
    import torch

    shape = rng.choice(SHAPES)
    if regime in ("collapse", "nearzero") and rng.random() < 0.7:
        shape = rng.choice(["onehot", "twoheavy", "floorheavy", "dirichlet:0.03"])
    p = _priors(rng, K, shape)
    pi = torch.tensor(p, dtype=torch.float64).to(torch.float32)
    pi /= pi.sum()  # what populate() does after the cutoff
    lam, C, N = _lambda(rng, K, "grid" if rng.random() < 0.6 else "log")
    if regime == "bigK-smallN":
        lam, C, N = f32(rng.choice(CS) * math.sqrt(rng.choice([1, 2, 3])) / (rng.choice([1, 2, 3]) + K)), 0, 0
    v0 = rng.choice([0.0, 0.0, 1.0, -1.0, 0.5, -0.5, rng.uniform(-1, 1), rng.uniform(-1, 1)])
    nvis = min(K, rng.choice([0, 1, 1, 2, 3, 4, 5]))
    order = sorted(range(K), key=lambda i: p[i])
    idx = set()
    while len(idx) < nvis:
        r = rng.random()
        if r < 0.4:
            idx.add(order[min(K - 1, rng.randrange(0, max(1, min(K, 4))))])  # a floor / lightest prior
        elif r < 0.7:
            idx.add(order[K - 1 - rng.randrange(0, min(K, 3))])  # a heaviest prior
        else:
            idx.add(rng.randrange(K))
    qv = [v0] * K
    vals = [_qvalue(rng, v0) for _ in idx]
    if regime == "ties" and vals:
        m = max(vals + [v0]) if rng.random() < 0.5 else rng.choice([1.0, 0.5, v0])
        vals = [m if rng.random() < 0.7 else v for v in vals]
    if regime == "collapse" and vals:
        # a visited floor prior owns the maximum of q by a wide margin
        vals[0] = rng.choice([1.0, 1.0, 0.75, 0.9999, rng.uniform(0.3, 1.0)])
        idx = list(idx)
        idx[0] = order[0]
        idx = list(dict.fromkeys(idx))
        vals = vals[: len(idx)]
        v0 = rng.choice([-1.0, 0.0, -0.5, v0]) if v0 >= vals[0] else v0
        qv = [v0] * K
    if regime == "nearzero":
        # every q negative, the top of the bracket near zero
        v0 = -abs(v0) - rng.choice([0.0, 1e-3, 0.3])
        v0 = max(v0, -1.0)
        qv = [v0] * K
        vals = [-abs(v) if rng.random() < 0.5 else -lam * rng.choice([1.0, 0.5, 1e-3, 1e-6, p[order[0]]]) for v in vals]
    for i, v in zip(idx, vals):
        qv[i] = max(-1.0, min(1.0, v))
    if regime == "manyq" and K >= 9:
        # a well-searched node: dozens of visited children, every one with its own mean value, the
        # best of them anywhere in move-id order (often late)
        nd = min(K, rng.choice([9, 33, 34, 40, 64, 101]))
        where = rng.sample(range(K), nd)
        for i in where:
            qv[i] = max(-1.0, min(1.0, rng.uniform(-1.0, 0.6)))
        qv[max(where) if rng.random() < 0.7 else rng.choice(where)] = rng.choice([0.9, 1.0, 0.75])
    q = torch.tensor(qv)  # default dtype float32, as policy_probs builds it
    label = "%s|nvis%d|%s" % (shape.split(":")[0], len(set(idx)), regime or "plain")
    return {"label": label, "lam": lam, "pi": tensor_hex(pi), "q": tensor_hex(q), "K": K, "C": C, "N": N}


def gen_evolution(rng, K, steps):
    """consecutive, closely related problems, as one node of a growing tree poses them: the priors
    stay, N rises by one per call (so the multiplier barely moves), and each time one child's q
    changes - an unvisited child receives its first value (possibly above everything seen so far),
    a visited one moves a little.  The solver is a function of its arguments: what it was asked
    before must not matter.  Each case carries the chain that preceded it (`history`)."""
    import torch

    c = gen_case(rng, K, rng.choice([None, None, "collapse", "ties"]))
    C = rng.choice(CS)
    N = rng.choice([1, 2, 5, 30, 200, 2000, 20000])
    q = [float(hex_f32(h)) for h in c["q"]]
    out, hist = [], []
    for j in range(steps):
        lam = f32(C * math.sqrt(N + j) / (N + j + K))
        cj = {"label": c["label"].rsplit("|", 1)[0] + "|evolution", "lam": lam, "pi": list(c["pi"]), "q": tensor_hex(torch.tensor(q)), "K": K, "C": C, "N": N + j, "history": list(hist)}
        out.append(cj)
        hist.append({"lam": f32hex(lam), "pi": cj["pi"], "q": cj["q"]})
        hist = hist[-6:]
        i = rng.randrange(K)
        r = rng.random()
        if r < 0.45:
            q[i] = rng.choice([1.0, 1.0, 0.75, rng.uniform(max(q), 1.0) if max(q) < 1.0 else 1.0])
        elif r < 0.75:
            q[i] = max(-1.0, min(1.0, q[i] + rng.uniform(-0.05, 0.05)))
        else:
            q[i] = _qvalue(rng, q[i])
    return out


def cases(ctx, scale):
    """scale: multiplier of the per-K plan"""
    rng = ctx.rng
    for K, n in {2: 10, 3: 10, 12: 16, 30: 12, 135: 6}.items():
        for j in range(max(1, int(n * scale))):
            yield from gen_evolution(rng, K, rng.choice([3, 5, 8]))
    plan = {1: 30, 2: 120, 3: 120, 9: 160, 30: 220, 135: 120, 496: 40, 1575: 10, 4572: 4}
    regimes = [None, None, None, "collapse", "collapse", "nearzero", "bigK-smallN", "ties", "manyq"]
    for K, n in plan.items():
        for j in range(max(1, int(n * scale))):
            yield gen_case(rng, K, regimes[j % len(regimes)])
    yield from grid_cases(int(6 * scale))
    yield from wide_dominant_cases(rng, max(6, int(8 * scale)))


def wide_dominant_cases(rng, n):
    """a very wide node after a few thousand visits: one move holds most of the prior and the best
    value, thousands of others share the rest (a long tail of tiny weights whose float32 sum carries
    the largest rounding error the solver ever sees)"""
    import torch

    for j in range(n):
        K = rng.choice([2000, 2000, 3000, 4572])
        top = rng.choice([0.9, 0.9, 0.8, 0.95])
        tail = torch.rand(K - 1, dtype=torch.float64, generator=torch.Generator().manual_seed(rng.randrange(1 << 30))) + 0.05
        tail = tail / tail.sum() * (1 - top)
        best = rng.randrange(K)
        pi64 = torch.cat([tail[:best], torch.tensor([top], dtype=torch.float64), tail[best:]])
        pi = pi64.to(torch.float32)
        pi /= pi.sum()
        qv = [-0.6] * K
        qv[best] = rng.choice([0.8, 0.8, 0.5, 1.0])
        C, N = rng.choice([1.0, 1.0, 4.0]), rng.randrange(3000, 4100)
        lam = f32(C * math.sqrt(N) / (N + K))
        yield {"label": "widedominant|nvis1|wide-dominant", "lam": lam, "pi": tensor_hex(pi), "q": tensor_hex(torch.tensor(qv)), "K": K, "C": C, "N": N}
    # the same node as its visit count grows (a sweep over N: whatever happens only for some multipliers)
    K = 2000
    pi = torch.full((K,), 0.1 / (K - 1))
    pi[0] = 0.9
    q = torch.full((K,), -0.6)
    q[0] = 0.8
    n0 = rng.randrange(3000, 3025)
    for N in range(n0, 4000, 25 if n >= 10 else 50):
        yield {"label": "widedominant|nvis1|wide-dominant-sweep", "lam": f32(math.sqrt(N) / (N + K)), "pi": tensor_hex(pi), "q": tensor_hex(q), "K": K, "C": 1.0, "N": N}


def grid_cases(nlam):
    """deterministic worst conditioning: K = 2, the prior at the cutoff owns the maximum of q,
    lambda on a log grid over its whole range"""
    import torch

    for f in (CUTOFF, CUTOFF * 1.0001):
        for qa, qb in ((-1.0, 1.0), (0.0, 1.0), (0.5, 1.0), (0.999, 1.0), (-1.0, -0.5), (-0.3, -0.29)):
            for i in range(nlam):
                lam = f32(math.exp(math.log(1e-4) + math.log(4.0 / 1e-4) * i / max(1, nlam - 1)))
                pi = torch.tensor([1 - f, f], dtype=torch.float64).to(torch.float32)
                pi /= pi.sum()
                yield {"label": "grid|nvis1|grid", "lam": lam, "pi": tensor_hex(pi), "q": tensor_hex(torch.tensor([qa, qb])), "K": 2, "C": 0, "N": 0}


# ------------------------------------------------------------------ running the implementations


_HELD = {"n": 0, "prev": None}


def _strided(t, how):
    """the same values as a NON-contiguous 1-d view (a column of a table, every other element of a
    buffer): the solver takes tensors, not memory layouts"""
    import torch

    if how == 1:
        tab = torch.empty((t.shape[0], 2), dtype=t.dtype)
        tab[:, 0] = t
        tab[:, 1] = 7.0
        return tab[:, 0]
    buf = torch.full((2 * t.shape[0],), -3.0, dtype=t.dtype)
    buf[0::2] = t
    return buf[0::2]


def run_native(pi, q, lam, layout=None):
    import tak_ext

    _HELD["n"] += 1
    k = _HELD["n"] % 5 if layout is None else layout
    if k == 1:
        pi, q = _strided(pi, 1), _strided(q, 1)
    elif k == 3:
        pi, q = _strided(pi, 2), q
    try:
        out = tak_ext.solve_policy(pi, q, lam)
    except RuntimeError:
        return "raised"
    except Exception as e:  # noqa
        return "crash " + type(e).__name__
    res = tensor_hex(out)
    # the answer to the PREVIOUS call is still what it was (a result is a value, not a view of a
    # buffer the next call reuses)
    prev = _HELD["prev"]
    if prev is not None:
        try:
            now = tensor_hex(prev[0])
        except Exception:  # noqa
            now = None
        if now != prev[1]:
            _HELD["prev"] = (out, res)
            return "result-of-previous-call-changed"
    _HELD["prev"] = (out, res)
    return res


def run_python(pi, q, lam):
    from tak import mcts

    try:
        out = mcts.solve_policy_python(pi, q, lam)
    except AssertionError:
        return "raised"
    except Exception as e:  # noqa
        return "crash " + type(e).__name__
    return tensor_hex(out)


def run_case(c):
    pi, q = hex_tensor(c["pi"]), hex_tensor(c["q"])
    if "layout" not in c:
        _HELD["n"] += 1
        c["layout"] = _HELD["n"] % 5  # 1, 3: non-contiguous views of the same values
    c["native"] = run_native(pi.clone(), q.clone(), c["lam"], c["layout"])
    c["python"] = run_python(pi.clone(), q.clone(), c["lam"])
    return c


# ------------------------------------------------------------------ the driver side


def _in(c):
    return "%s %s | %s" % (f32hex(c["lam"]), " ".join(c["pi"]), " ".join(c["q"]))


def _lines(c):
    """the driver operations for one executed case: list of (tag, line)"""
    base = _in(c)
    out = []
    for kind in ("native", "python"):
        o = c[kind]
        if isinstance(o, list):
            w = " ".join(o)
            out.append(("contract-" + kind, "solver contract %s %s | %s" % (kind, base, w)))
            out.append(("corr-" + kind, "solver corr %s %s | %s" % (kind, base, w)))
        elif o == "raised":
            out.append(("corr-" + kind, "solver corr %s %s | raised" % (kind, base)))
    if isinstance(c["native"], list):
        out.append(("strict-native", "solver contract strict %s | %s" % (base, " ".join(c["native"]))))
    for kind in ("native", "python"):
        if isinstance(c[kind], list):
            out.append(("tol-" + kind, "solver tol %s %s | %s" % (kind, base, " ".join(c[kind]))))
    if isinstance(c["native"], list) and isinstance(c["python"], list):
        out.append(("agree", "solver agree %s | %s | %s" % (base, " ".join(c["native"]), " ".join(c["python"]))))
    return out


def run_driver_parallel(lines):
    """same contract as driver.run_lines, spread over PAR driver processes"""
    n = len(lines)
    if n < 2 * PAR:
        return driver.run_lines(lines)
    chunks = [list(range(i, n, PAR)) for i in range(PAR)]
    res = [None] * n
    errs = []

    def work(ix):
        try:
            out = driver.run_lines([lines[i] for i in ix])
            for i, o in zip(ix, out):
                res[i] = o
        except BaseException as e:  # noqa
            errs.append(e)

    ts = [threading.Thread(target=work, args=(ix,)) for ix in chunks]
    for t in ts:
        t.start()
    for t in ts:
        t.join()
    if errs:
        raise errs[0]
    return res


def judge(cs):
    """attach c['drv'] = {tag: answer} to every executed case"""
    lines, owner = [], []
    for i, c in enumerate(cs):
        for tag, line in _lines(c):
            lines.append(line)
            owner.append((i, tag))
    outs = run_driver_parallel(lines)
    for c in cs:
        c["drv"] = {}
    for (i, tag), o in zip(owner, outs):
        cs[i]["drv"][tag] = o
    return cs


def problems(c):
    """[(key, what)] — failures of the PROPERTY on this case, as decided by the driver"""
    out = []
    for kind in ("native", "python"):
        o = c[kind]
        if o == "raised":
            out.append((kind + "-noconverge", "%s solver raised non-convergence" % kind))
        elif isinstance(o, str):
            out.append((kind + "-crash", "%s solver: %s" % (kind, o)))
        else:
            r = c["drv"].get("contract-" + kind, "bad-op")
            if r.startswith("fail:domain"):
                continue  # generator bug, not a finding: surfaces as an unexplained divergence
            if r.startswith("fail:finite"):
                out.append((kind + "-inf", "%s solver returned a non-finite weight" % kind))
            elif not r.startswith("ok"):
                out.append((kind + "-contract", "%s solver output violates the contract clause [%s]" % (kind, r)))
    a = c["drv"].get("agree")
    if a is not None and a.startswith("fail"):
        out.append(("disagree", "the two solvers differ by more than 1e-2 on a well-conditioned input [%s]" % a))
    return out


def mismatches(c):
    """[(component, impl, model)] — places where impl and exact model do not correspond"""
    out = []
    for kind in ("native", "python"):
        r = c["drv"].get("corr-" + kind)
        if r is None:
            out.append(("corr.solver." + kind, str(c[kind])[:60], "no-answer"))
        elif not (r.startswith("ok") or r.startswith("skip")):  # ok / ok32 / skip
            o = c[kind]
            out.append(("corr.solver." + kind, "raised" if o == "raised" else "returned", r))
        cr = c["drv"].get("contract-" + kind)
        if cr is not None and cr.startswith("fail:domain"):
            out.append(("gen.solver", "input outside the domain", cr))
    return out


def replay_of(c):
    r = {"lam": f32hex(c["lam"]), "pi": c["pi"], "q": c["q"]}
    if c.get("layout") in (1, 3):
        r["layout"] = c["layout"]
    if c.get("history"):
        r["history"] = c["history"]  # the calls made just before this one, oldest first
    return r


def case_of(r):
    return {"label": "replay", "lam": hex_f32(r["lam"]), "pi": list(r["pi"]), "q": list(r["q"]), "K": len(r["pi"]), "layout": r.get("layout", 0)}


# ------------------------------------------------------------------ protocol entry points

_RUN = {"cases": []}


import sys as _sys

_sys.set_int_max_str_digits(0)  # exact rationals over dozens of distinct q values have long numerators


def _account(ctx, c):
    ctx.evaluated()
    ctx.count("K=%d" % c["K"])
    ctx.count("shape:" + c["label"].split("|")[0])
    ctx.count("regime:" + c["label"].split("|")[2])
    ctx.count(c["label"].split("|")[1])
    nontriv = False
    for kind in ("native", "python"):
        o = c[kind]
        ctx.count("%s:%s" % (kind, "returned" if isinstance(o, list) else o))
        r = c["drv"].get("corr-" + kind, "")
        head = r.split(" ")[0].split(":")[0]
        ctx.count("corr-%s:%s" % (kind, head))
        if head in ("ok", "ok32", "skip"):
            rounds = int(r.split(" ")[1])
            ctx.count("rounds-%s:%s" % (kind, "1" if rounds == 1 else "2-8" if rounds <= 8 else "9-20" if rounds <= 20 else "21-32"))
            nontriv = nontriv or rounds > 1
    s = c["drv"].get("strict-native")
    if s is not None:
        ctx.count("native-strict(no-ulp-term):" + s.split(" ")[0])
    a = c["drv"].get("agree")
    if a is not None:
        ctx.count("agree:" + a.split(" ")[0])
    for kind in ("native", "python"):
        t = c["drv"].get("tol-" + kind)
        if t is not None and "/" in t:
            n, d = t.split("/")
            v = int(n) / int(d)
            ctx.count(
                "tolerance-used-%s:%s"
                % (kind, "<=1.1e-3" if v <= 1.1e-3 else "<=1e-2" if v <= 1e-2 else "<1" if v < 1 else ">=1(total-unconstrained)")
            )
    if nontriv:
        ctx.nontrivial(_in(c))


def _evaluate(ctx, gen):
    cs = [run_case(c) for c in gen]
    judge(cs)
    for c in cs:
        _account(ctx, c)
    return cs


def tie(ctx):
    cs = _evaluate(ctx, cases(ctx, 16.0 if ctx.thorough else 2.0))
    _RUN["cases"] = cs
    divs = []
    for c in cs:
        for comp, impl, model in mismatches(c):
            divs.append(Divergence(comp, replay_of(c), impl, model))
        if not mismatches(c):
            for key, what in problems(c):
                divs.append(Divergence("contract.solver", replay_of(c), key, "contract holds in the model (C10_contract)"))
    for c in cs[:: max(1, len(cs) // 5)]:
        ctx.sample({"K": c["K"], "label": c["label"], "lam": c["lam"], "drv": c["drv"]})
    return divs


def _shrink(c, key):
    """drop entries (renormalising as the search does) while the same failure class persists"""
    import torch

    best = c
    tries = 0
    while best["K"] > 1 and tries < 40:
        K = best["K"]
        pi, q = hex_tensor(best["pi"]), hex_tensor(best["q"])
        improved = False
        for keep in (list(range(0, K // 2)), list(range(K // 2, K)), list(range(0, K, 2)), list(range(1, K, 2))) + [
            [j for j in range(K) if j != i] for i in (range(K) if K <= 8 else [])
        ]:
            tries += 1
            if not keep or len(keep) == K:
                continue
            p2 = pi[keep].clone()
            p2 /= p2.sum()
            if float(p2.min()) < CUTOFF * (1 - 1e-6):
                continue
            c2 = {"label": best["label"], "lam": best["lam"], "pi": tensor_hex(p2), "q": tensor_hex(q[keep]), "K": len(keep), "layout": best.get("layout", 0)}
            judge([run_case(c2)])
            if any(k == key for k, _ in problems(c2)):
                best = c2
                improved = True
                break
        if not improved:
            break
    return best


def _violations(cs):
    seen = {}
    for c in cs:
        for key, what in problems(c):
            seen.setdefault(key, []).append((c, what))
    vs = []
    for key, lst in seen.items():
        lst.sort(key=lambda cw: cw[0]["K"])
        c, what = lst[0]
        note = ""
        try:
            alone = run_case(case_of(replay_of({k_: v_ for k_, v_ in c.items() if k_ != "history"})))
            judge([alone])
            if c.get("history") and not any(k == key for k, _ in problems(alone)):
                note = "; the same input asked on its own is answered correctly - the answer depends on the %d calls made before it (kept in the replay as history)" % len(c["history"])
            else:
                c = _shrink(c, key)
                what = [w for k, w in problems(c) if k == key][0]
        except Exception:  # noqa
            pass
        what += note
        lam = c["lam"]
        desc = "%s; K=%d lambda=%r pi=[%s%s] q=[%s%s] (%d such inputs in this run)" % (
            what,
            c["K"],
            lam,
            ", ".join("%.9g" % hex_f32(h) for h in c["pi"][:6]),
            ", ..." if c["K"] > 6 else "",
            ", ".join("%.9g" % hex_f32(h) for h in c["q"][:6]),
            ", ..." if c["K"] > 6 else "",
            len(lst),
        )
        vs.append(Violation(key, desc, replay_of(c)))
    return vs


def search(ctx, divergences, broken):
    cs = list(_RUN["cases"])
    if broken and not any(problems(c) for c in cs):
        # the proof side broke: look harder for an input on which the contract itself fails
        cs += _evaluate(ctx, cases(ctx, 2.0))
    bad = {}
    for c in cs:
        if problems(c):
            bad[_in(c)] = True
    for d in divergences:
        key = "%s %s | %s" % (d.input["lam"], " ".join(d.input["pi"]), " ".join(d.input["q"]))
        if key in bad:
            d.explained = True
    return _violations(cs)


def replay(ctx, data):
    r = data.get("replay", data)
    for h in r.get("history", []):
        run_case(case_of(h))  # same interpreter, same thread: the calls that preceded the failing one
    c = run_case(case_of(r))
    judge([c])
    ctx.evaluated()
    return [Violation(key, what + " (replayed input, K=%d)" % c["K"], r) for key, what in problems(c)]

"""C05 — positions are immutable values.

The tie is a MONITOR over game trees played with the real code: every position ever
created is retained; legal, illegal, ill-formed and deliberately part-way-refused moves are
applied to randomly chosen retained positions in random order, interleaved with other
producers of positions (parse_tps — whose empty squares alias one list —, from_squares on
caller lists shared with live positions, transform_position, decode(encode(.))).  Every list
object reachable from a retained position (the outer `board` list and every stack list, keyed
by `id`, kept alive) must keep the content it had when first seen; attrs fields must keep
their values.  Values are tied to the Lean model three ways: each move result against
`move apply` (Impl.move) and `heap hmove` (hMove, with the observed aliasing of the board);
each whole history against `heap run` (the heap-level history of Model/Heap.lean: what every
retained position denotes at the END); the other producers against `heap parse|decode|transform`.
Sharing structure is an INPUT to the model (observed), never compared.
"""
import json

from ..check import Divergence, Violation
from ..lib import driver, gen, implrun, ser

ID = "C05"
LEAN_MODULES = ["TakVerif.Props.C05"]
# cross-operation sessions (lib/session.py): which operations this property judges
SESSION = {"kinds": {"retained", "copy"}}
RULE = (
    "game TREES on sizes 3..8: all positions ever created stay retained (hundreds per tree; thorough: thousands); ops "
    "are drawn at random against random retained positions: legal moves (biased to slides), every-kind well-formed "
    "moves, ill-formed moves, slides CONSTRUCTED to be refused at step 2+ of their path (wall/capstone/edge after "
    "earlier drops were assigned), plus sources parse_tps (aliased empties), from_config, from_squares on lists shared "
    "with live positions, transform_position, decode(encode(.)). One evaluation = one operation followed by the "
    "monitor check (all lists reachable from the operated position after every op; every object and every position's "
    "attrs fields in a full sweep every k ops and at the end). Non-trivial = an accepted move, or a slide refused after "
    "at least one drop had been assigned; distinct by (position, move) text."
)
TRUSTED = [
    "modelled, not verified: CPython list identity/aliasing semantics (list(x) copies the outer list only, [[]]*n "
    "aliases, slicing and + allocate), attrs.evolve builds a new frozen object",
    "the monitor sees list objects reachable from retained Position objects and their attrs fields; Piece objects are "
    "compared by value (colour, kind)",
]
ASSUMPTIONS = [
    "mutation through C extensions or by callers reaching into position.board themselves is out of scope",
]

_L = "abcdef"
SWEEP_QUICK = 150
SWEEP_THOROUGH = 400


# ----------------------------------------------------------------------------- monitor


def _skey(lst):
    try:
        return "".join(_L[pc.color.value * 3 + pc.kind.value] for pc in lst)
    except Exception:
        return "?" + repr(lst)


def _okey(lst):
    try:
        return tuple(_skey(s) for s in lst)
    except Exception:
        return ("?" + repr(lst),)


def _attrs_key(p):
    return (p.size, p.ply, p.stones[0].stones, p.stones[0].caps, p.stones[1].stones, p.stones[1].caps, id(p.board), len(p.stones))


class Change(Exception):
    """a retained object is no longer what it was when first seen"""

    def __init__(self, what, objid, before, after, holders):
        Exception.__init__(self, what)
        self.what = what
        self.objid = objid
        self.before = before
        self.after = after
        self.holders = holders


class Monitor:
    def __init__(self):
        self.alive = []  # every object ever seen, so ids are never reused
        self.snap = {}  # id -> content key at first sight
        self.isouter = {}  # id -> bool
        self.holders = {}  # id -> set of retained indices
        self.where = {}  # id of a stack list -> (retained index, square) of first sight
        self.pos = []  # retained: dict(pos, attrs, objids, parent, label, value)

    def register(self, p, parent, label):
        k = len(self.pos)
        b = p.board
        ids = [id(b)]
        if id(b) not in self.snap:
            self.alive.append(b)
            self.snap[id(b)] = _okey(b)
            self.isouter[id(b)] = True
        self.holders.setdefault(id(b), set()).add(k)
        for i, s in enumerate(b):
            if id(s) not in self.snap:
                self.alive.append(s)
                self.snap[id(s)] = _skey(s)
                self.isouter[id(s)] = False
                self.where[id(s)] = (k, i)
            self.holders.setdefault(id(s), set()).add(k)
            ids.append(id(s))
        self.alive.append(p)
        self.pos.append(
            {"pos": p, "attrs": _attrs_key(p), "objids": ids, "parent": parent, "label": label, "value": ser.pos_str(p)}
        )
        return k

    def sharing(self, p, world=True):
        """observed aliasing of the squares of `p` in the driver's notation (an INPUT to the model)"""
        seen = {}
        out = []
        for i, s in enumerate(p.board):
            if id(s) in seen:
                out.append("=%d" % seen[id(s)])
            elif world and id(s) in self.where:
                out.append("%d.%d" % self.where[id(s)])
                seen[id(s)] = i
            else:
                out.append("n")
                seen[id(s)] = i
        return ",".join(out) if out else "-"

    def _check_obj(self, oid, obj):
        now = _okey(obj) if self.isouter[oid] else _skey(obj)
        if now != self.snap[oid]:
            raise Change(
                "%s list object changed" % ("outer board" if self.isouter[oid] else "stack"),
                oid,
                self.snap[oid],
                now,
                sorted(self.holders.get(oid, ())),
            )

    def check_position(self, k):
        """everything reachable from retained position k is what it was when first seen"""
        e = self.pos[k]
        p = e["pos"]
        if _attrs_key(p) != e["attrs"]:
            raise Change("attrs fields of a Position changed", id(p), e["attrs"], _attrs_key(p), [k])
        b = p.board
        for s in b:
            if id(s) in self.snap:
                self._check_obj(id(s), s)
        if id(b) in self.snap:
            self._check_obj(id(b), b)

    def sweep(self):
        for outer in (False, True):  # stack lists first: name the innermost object that changed
            for o in self.alive:
                oid = id(o)
                if oid in self.snap and isinstance(o, list) and self.isouter[oid] == outer:
                    self._check_obj(oid, o)
        for k, e in enumerate(self.pos):
            if _attrs_key(e["pos"]) != e["attrs"]:
                raise Change("attrs fields of a Position changed", id(e["pos"]), e["attrs"], _attrs_key(e["pos"]), [k])

    def ancestors(self, k):
        out = set()
        while k is not None:
            k = self.pos[k]["parent"]
            if k is not None:
                out.add(k)
        return out


# ----------------------------------------------------------------------------- executing op scripts
#
# op = [opid, kind, args...]; positions are referred to by the opid of the op that created them,
# so ops can be dropped while shrinking (an op whose source does not exist is skipped).
#   cfg size pieces caps | tps text | sq size pieces caps ply board_str mode | share src rot ply
#   tr src symidx | dec src | mv src move_str


class Found(Exception):
    def __init__(self, key, what, opindex, change):
        Exception.__init__(self, what)
        self.key = key
        self.what = what
        self.opindex = opindex
        self.change = change


class Run:
    def __init__(self, sweep_every=100, want_lines=True):
        import tak
        import tak.ptn
        import tak.symmetry

        self.tak = tak
        self.mon = Monitor()
        self.by_op = {}
        self.ops = []
        self.sweep_every = sweep_every
        self.since = 0
        self.want_lines = want_lines
        self.lines = []  # (driver line, impl answer, note)   per-op ties
        self.script = []  # driver `heap run` ops
        self.outcomes = []

    # -- implementation calls, canonicalised
    def _produce(self, op):
        tak = self.tak
        kind = op[1]
        if kind == "cfg":
            return tak.Position.from_config(tak.Config(size=op[2], pieces=op[3], capstones=op[4])), None
        if kind == "tps":
            return tak.ptn.parse_tps(op[2]), None
        if kind == "sq":
            _, _, size, pieces, caps, ply, bstr, mode = op
            board = ser.parse_pos([str(size), "0", "0", "0", "0", "0", bstr]).board
            if mode == "alias-empty":
                e = []
                board = [e if not s else s for s in board]
            return tak.Position.from_squares(tak.Config(size=size, pieces=pieces, capstones=caps), board, ply), None
        src = self.by_op.get(op[2])
        if src is None:
            return None, None
        sp = self.mon.pos[src]["pos"]
        if kind == "share":
            rot = op[3]
            squares = sp.board if rot < 0 else sp.board[rot:] + sp.board[:rot]
            return tak.Position.from_squares(tak.Config(size=sp.size), squares, op[4]), src
        if kind == "tr":
            return tak.symmetry.transform_position(tak.symmetry.SYMMETRIES[op[3]], sp), src
        if kind == "dec":
            import torch

            from tak.model import encoding

            return encoding.decode(torch.tensor(encoding.encode(sp), dtype=torch.uint8)), src
        raise ValueError("unknown op kind " + str(kind))

    def step(self, op):
        """execute one op; raises Found on a property failure"""
        mon = self.mon
        index = len(self.ops)
        self.ops.append(op)
        kind = op[1]
        src = None
        refused = False
        outcome = "skip"
        if kind == "mv":
            src = self.by_op.get(op[2])
            if src is None:
                self.outcomes.append(outcome)
                return outcome
            sp = mon.pos[src]["pos"]
            m = ser.parse_move(op[3].split(" "))
            before = mon.pos[src]["value"]
            try:
                q = sp.move(m)
                outcome = "ok"
            except self.tak.IllegalMove:
                q = None
                outcome = "illegal"
                refused = True
            except Exception as e:
                q = None
                outcome = "crash " + type(e).__name__
                refused = True
            if self.want_lines:
                io = outcome if q is None else "ok " + ser.pos_str(q)
                self.lines.append(("move apply %s %s" % (before, op[3]), io, None))
                self.lines.append(
                    ("heap hmove %s %s %s" % (before, mon.sharing(sp, world=False), op[3]), io + " ", "hmove")
                )
            self.script.append("mv %d %s" % (src, op[3]))
            new = q
        else:
            try:
                new, src = self._produce(op)
                outcome = "ok" if new is not None else "skip"
            except Exception as e:
                new = None
                outcome = "raised " + type(e).__name__
                refused = True
                src = self.by_op.get(op[2]) if kind in ("share", "tr", "dec") else None
        self.outcomes.append(outcome)
        # --- the monitor
        try:
            k = None
            if new is not None:
                k = mon.register(new, src, kind)
                self.by_op[op[0]] = k
                if kind != "mv":
                    self.script.append("new %s %s" % (mon.pos[k]["value"], self._sharing_before(new, k)))
            if src is not None:
                mon.check_position(src)
            if k is not None:
                mon.check_position(k)
            self.since += 1
            if self.since >= self.sweep_every:
                self.since = 0
                mon.sweep()
        except Change as c:
            raise Found(self._classify(c, src, refused), self._describe(c, op, outcome), index, c)
        return outcome

    def _sharing_before(self, p, k):
        """sharing tokens for a freshly registered source position: only references to EARLIER positions"""
        mon = self.mon
        seen = {}
        out = []
        for i, s in enumerate(p.board):
            w = mon.where.get(id(s))
            if id(s) in seen:
                out.append("=%d" % seen[id(s)])
            elif w is not None and w[0] < k:
                out.append("%d.%d" % w)
                seen[id(s)] = i
            else:
                out.append("n")
                seen[id(s)] = i
        return ",".join(out) if out else "-"

    def finish(self):
        try:
            self.mon.sweep()
        except Change as c:
            raise Found(self._classify(c, None, False), self._describe(c, None, "final sweep"), len(self.ops) - 1, c)

    def _classify(self, c, src, refused):
        if refused:
            return "mutated-on-refusal"
        if src is None:
            return "mutated-sibling"
        if src in c.holders:
            return "mutated-source"
        if self.mon.ancestors(src) & set(c.holders):
            return "mutated-ancestor"
        return "mutated-sibling"

    def _describe(self, c, op, outcome):
        return "%s: was [%s], now [%s]; held by retained positions %s; after op %s (%s)" % (
            c.what,
            _fmt(c.before),
            _fmt(c.after),
            c.holders[:8],
            json.dumps(op),
            outcome,
        )


def _fmt(k):
    if isinstance(k, tuple):
        return ",".join(str(x) if x != "" else "_" for x in k)
    return k if k != "" else "_"


def execute(ops, sweep_every=1):
    """replay a recorded script under the monitor.  Returns (run, Found|None)."""
    r = Run(sweep_every=sweep_every, want_lines=False)
    try:
        for op in ops:
            r.step(op)
        r.finish()
    except Found as f:
        return r, f
    return r, None


# ----------------------------------------------------------------------------- generating trees

_DIRS = None


def _dirs():
    global _DIRS
    if _DIRS is None:
        import tak

        MT = tak.MoveType
        _DIRS = [(MT.SLIDE_LEFT, -1, 0), (MT.SLIDE_RIGHT, 1, 0), (MT.SLIDE_UP, 0, 1), (MT.SLIDE_DOWN, 0, -1)]
    return _DIRS


def crafted_refusals(rng, pos):
    """slides built to fail at step j >= 2 of their path: j-1 free squares, then a wall, a capstone or the
    edge.  (A generator, not an oracle: whether the implementation refuses is observed.)"""
    import tak

    n = pos.size
    mover = pos.to_move()
    out = []
    for x in range(n):
        for y in range(n):
            st = pos[x, y]
            if not st or st[0].color != mover:
                continue
            h = min(len(st), n)
            if h < 2:
                continue
            for mt, dx, dy in _dirs():
                cx, cy, free = x, y, 0
                while True:
                    cx += dx
                    cy += dy
                    if not (0 <= cx < n and 0 <= cy < n):
                        break
                    sq = pos[cx, cy]
                    if sq and sq[0].kind != tak.Kind.FLAT:
                        break
                    free += 1
                j = free + 1
                if 2 <= j <= h:
                    drops = [1] * j
                    extra = rng.randrange(0, h - j + 1)
                    drops[rng.randrange(j)] += extra
                    out.append((j, tak.Move(x, y, mt, tuple(drops))))
    return out


def _tps_text(rng, size):
    """a TPS string written by the harness's own writer from random row items (runs of empties are
    written as xN so that the parser aliases them)"""
    rows = []
    for _ in range(size):
        items = []
        left = size
        while left > 0:
            if rng.random() < 0.55:
                n = rng.randrange(1, left + 1)
                items.append("x" if n == 1 and rng.random() < 0.7 else "x%d" % n)
                left -= n
            else:
                h = 1 if rng.random() < 0.5 else rng.randrange(1, size + 3)
                s = "".join(rng.choice("12") for _ in range(h))
                r = rng.random()
                if r < 0.2:
                    s += "S"
                elif r < 0.3:
                    s += "C"
                items.append(s)
                left -= 1
        rows.append(",".join(items))
    who = rng.choice([1, 2])
    moveno = rng.choice([2, 3, 5, 9, 20])
    return "/".join(rows) + " %d %d" % (who, moveno)


SEED_TPS = [
    # capstone next to a wall (a flattening move exists while the parent is held)
    "x5/x5/x2,1C,2S,x/x5/x5 1 5",
    "x5/x5/x,2S,12C,x2/x5/x5 2 5",
    # tall destination stacks next to a mover-controlled stack
    "x5/x5/x,21,1212,x2/x5/x5 1 10",
    "x4/x,12,2121,x/x,21212,12,x/x4 2 10",
    # slide that is refused part-way: free square, then a wall / a capstone / the edge
    "x5/x5/2111,1,2S,x2/x5/x5 1 10",
    "x5/x5/x,2111,1,2C,x/x5/x5 1 10",
    "x3/x3/x,2111,1 1 10",
    "x6/x6/x6/12121,x,x,2S,x2/x6/x6 1 12",
]


class Grower:
    def __init__(self, ctx, size, sweep_every, with_dec=True):
        self.ctx = ctx
        self.rng = ctx.rng
        self.size = size
        self.run = Run(sweep_every=sweep_every)
        self.nextid = 0
        self.with_dec = with_dec
        self.universe = gen.wellformed_moves(size)
        self.live = []  # opids that produced a position

    def op(self, kind, *args):
        op = [self.nextid, kind] + list(args)
        self.nextid += 1
        out = self.run.step(op)
        self.ctx.evaluated()
        self.ctx.count("op:" + kind)
        self.ctx.count("outcome:%s:%s" % (kind, out.split(" ")[0]))
        if op[0] in self.run.by_op:
            self.live.append(op[0])
        return op, out

    def pick(self):
        rng = self.rng
        if rng.random() < 0.5:
            return self.live[-1 - min(int(rng.expovariate(0.25)), len(self.live) - 1)]
        return rng.choice(self.live)

    def pos_of(self, opid):
        return self.run.mon.pos[self.run.by_op[opid]]["pos"]

    def add_source(self):
        rng, size = self.rng, self.size
        r = rng.random()
        if r < 0.35 or not self.live:
            self.op("tps", _tps_text(rng, size))
        elif r < 0.5:
            cfg = gen.random_config(rng, size)
            self.op("cfg", size, cfg.pieces, cfg.capstones)
        elif r < 0.7:
            p = gen.constructed_position(rng, size, tops_only=rng.random() < 0.8)
            self.op(
                "sq",
                size,
                rng.choice([None, 4 * size * size]),
                rng.choice([None, 2]),
                p.ply,
                ser.board_str(p.board),
                rng.choice(["own", "alias-empty"]),
            )
        else:
            src = self.pick()
            n2 = size * size
            self.op("share", src, rng.choice([-1, 0, 0, 1, rng.randrange(n2)]), rng.choice([2, 3, 4, 7]))

    def add_move(self, src=None):
        rng = self.rng
        if src is None:
            src = self.pick()
        p = self.pos_of(src)
        r = rng.random()
        crafted_j = None
        if r < 0.45:
            cands = p.all_moves()
            if cands:
                w = [4.0 + sum(m.slides) if m.type.is_slide() else 1.0 for m in cands]
                m = rng.choices(cands, w)[0]
            else:
                m = rng.choice(self.universe)
            cls = "legalish"
        elif r < 0.65:
            cr = crafted_refusals(rng, p)
            if cr:
                crafted_j, m = rng.choice(cr)
                cls = "crafted"
            else:
                m = rng.choice(self.universe)
                cls = "wellformed"
        elif r < 0.85:
            m = rng.choice(self.universe)
            cls = "wellformed"
        else:
            m = gen.illformed_moves(rng, self.size, 1, p)[0]
            cls = "illformed"
        ms = ser.move_str(m)
        before = self.run.mon.pos[self.run.by_op[src]]["value"]
        op, out = self.op("mv", src, ms)
        self.ctx.count("move:%s:%s" % (cls, out.split(" ")[0]))
        if out == "ok":
            self.ctx.nontrivial(before + "|" + ms)
        elif crafted_j is not None and out == "illegal":
            self.ctx.count("refused-partway:step%d" % min(crafted_j, 4))
            self.ctx.nontrivial(before + "|" + ms)

    def grow(self, n_ops):
        rng = self.rng
        for t in SEED_TPS:
            if t.count("/") + 1 == self.size:
                op, _ = self.op("tps", t)
                if op[0] in self.run.by_op:
                    self.hammer(op[0], everything=True)
        while len(self.run.ops) < n_ops:
            r = rng.random()
            if not self.live or r < 0.05:
                self.add_source()
            elif r < 0.10:
                self.op("tr", self.pick(), rng.randrange(8))
            elif r < 0.13 and self.with_dec:
                self.op("dec", self.pick())
            else:
                self.add_move()

    def hammer(self, src, everything=False, n=200):
        """many attempts against ONE retained position: its generator output, every crafted refusal, and a
        slice of the well-formed universe (mostly refused)"""
        p = self.pos_of(src)
        ms = list(p.all_moves()) + [m for _, m in crafted_refusals(self.rng, p)]
        if not everything:
            self.rng.shuffle(ms)
            ms = ms[: n // 2]
        ms += self.rng.sample(self.universe, min(n // 2, len(self.universe)))
        for m in ms:
            before = self.run.mon.pos[self.run.by_op[src]]["value"]
            op, out = self.op("mv", src, ser.move_str(m))
            self.ctx.count("hammer:" + out.split(" ")[0])
            if out == "ok":
                self.ctx.nontrivial(before + "|" + op[3])


# ----------------------------------------------------------------------------- model comparisons


def _cmp_lines(run, divs, ctx):
    if not run.lines:
        return
    outs = driver.run_lines([l for l, _, _ in run.lines])
    for (line, io, note), mo in zip(run.lines, outs):
        if note == "hmove":
            # `<result> alloc=n frame=true src=true`
            head, _, tail = mo.partition(" alloc=")
            ok = head + " " == io and tail.endswith("frame=true src=true")
            if not ok:
                divs.append(Divergence("corr.heap", {"line": line}, io.strip(), mo))
            else:
                ctx.count("hmove:alloc=" + tail.split(" ")[0])
        elif io != mo:
            divs.append(Divergence("corr.move", {"line": line}, io, mo))


def _cmp_script(run, divs, ctx, ops):
    """the whole history through the heap model: what every retained position denotes at the end"""
    if not run.script:
        return
    line = "heap run " + " ; ".join(run.script)
    mo = driver.run_lines([line])[0]
    now = [ser.pos_str(e["pos"]) for e in run.mon.pos]
    if not mo.startswith("ok "):
        divs.append(Divergence("corr.heap", {"script_ops": len(run.script), "ops": ops[:400]}, "%d positions" % len(now), mo[:200]))
        return
    toks = mo.split(" ", 3)
    model = toks[3].split("|") if len(toks) > 3 and toks[3] else []
    ctx.count("script:positions", len(now))
    ctx.count("script:cells", int(toks[1].split("=")[1]))
    if toks[2] != "stable=true":
        divs.append(Divergence("corr.heap", {"ops": ops[:400]}, "n/a", "model reports a retained position changed: " + toks[2]))
    if len(model) != len(now):
        divs.append(Divergence("corr.heap", {"ops": ops[:400]}, "%d retained" % len(now), "%d retained" % len(model)))
        return
    for k, (a, b) in enumerate(zip(now, model)):
        if a != b:
            divs.append(
                Divergence("corr.heap", {"retained": k, "created_as": run.mon.pos[k]["value"], "ops": ops[:400]}, a, b)
            )
            break


def _dtoks(p):
    out = []
    for s in p.board:
        if not s:
            out.append("E")
        else:
            out.append("T" + ser.piece_letter(s[0]))
            for pc in s[1:]:
                out.append("U" + ("a" if pc.color.value == 0 else "d"))
    return ",".join(out) if out else "-"


_TABLES = {}


def _sym_table(size, symidx):
    """(destination:source) index table of a symmetry, OBSERVED by transforming a board whose squares are
    all different"""
    key = (size, symidx)
    if key in _TABLES:
        return _TABLES[key]
    import tak
    import tak.symmetry
    from tak import pieces

    squares = []
    for i in range(size * size):
        bits = [(i >> b) & 1 for b in range(7)]
        squares.append([pieces.Piece.cached(pieces.Color(v), pieces.Kind.FLAT) for v in [0] + bits])
    p = tak.Position.from_squares(tak.Config(size=size, pieces=1000), squares, 2)
    q = tak.symmetry.transform_position(tak.symmetry.SYMMETRIES[symidx], p)
    index = {ser.stack_str(s): i for i, s in enumerate(squares)}
    t = ",".join("%d:%d" % (d, index[ser.stack_str(s)]) for d, s in enumerate(q.board))
    _TABLES[key] = t
    return t


def _board_only(s):
    """`ok <pos7> …` -> (size, ply, board); reserves are C06/C15's business (findings F2, F8)"""
    t = s.split(" ")
    if t[0] != "ok" or len(t) < 8:
        return s
    return "ok %s %s %s" % (t[1], t[6], t[7])


def _sources_tie(ctx, divs):
    """parse_tps, decode, transform_position against hParseTPS, hDecode, hTransform (values only)"""
    import tak
    import tak.ptn
    import tak.symmetry

    rng = ctx.rng
    lines, impl = [], []
    n = 60 if not ctx.thorough else 400
    for i in range(n):
        size = rng.choice([3, 4, 5, 6, 7, 8])
        text = _tps_text(rng, size)
        if rng.random() < 0.05:
            # a bare mark: refused by the parser after it has started building the row
            rows = text.split(" ")[0].split("/")
            j = rng.randrange(size)
            items = rows[j].split(",")
            k = rng.randrange(len(items))
            if not items[k].startswith("x"):
                items[k] = rng.choice("SC")
                rows[j] = ",".join(items)
                text = "/".join(rows) + " " + " ".join(text.split(" ")[1:])
        board, who, moveno = text.split(" ")
        try:
            p = tak.ptn.parse_tps(text)
            io = "ok " + ser.pos_str(p)
        except tak.ptn.IllegalTPS:
            p = None
            io = "illegal"
        except Exception as e:
            p = None
            io = "crash " + type(e).__name__
        ply = 2 * (int(moveno) - 1) + int(who) - 1
        lines.append("heap parse %d %s" % (ply, board))
        impl.append((io, "parse", text))
        ctx.evaluated()
        ctx.count("source:parse:" + io.split(" ")[0])
        if p is None:
            continue
        # transform every symmetry of some
        if i % 3 == 0:
            for symidx in range(8):
                q = tak.symmetry.transform_position(tak.symmetry.SYMMETRIES[symidx], p)
                shared = all(any(s is t for t in p.board) for s in q.board)
                lines.append("heap transform %s e %s" % (ser.pos_str(p), _sym_table(size, symidx)))
                impl.append((_board_only("ok " + ser.pos_str(q)), "transform", (text, symidx)))
                ctx.evaluated()
                ctx.count("source:transform")
                ctx.count("source:transform:shares-stacks=%s" % shared)
    # decode(encode(p)) on reachable positions
    import torch

    from tak.model import encoding

    for size in (3, 4, 5, 6):
        for label, p in gen.sample_positions(rng, [size], 2 if not ctx.thorough else 10, per_game=4, constructed_per_size=0, custom_prob=0.0):
            try:
                q = encoding.decode(torch.tensor(encoding.encode(p), dtype=torch.uint8))
            except Exception:
                ctx.count("source:decode:unencodable")
                continue
            sc = ser.pos_str(q).split(" ")[:6]
            lines.append("heap decode %s %s" % (" ".join(sc), _dtoks(p)))
            impl.append((_board_only("ok " + ser.pos_str(q)), "decode", ser.pos_str(p)))
            ctx.evaluated()
            ctx.count("source:decode")
    outs = driver.run_lines(lines)
    for line, (io, kind, inp), mo in zip(lines, impl, outs):
        if kind == "parse":
            m2 = mo.rsplit(" cells=", 1)[0] if mo.startswith("ok ") else mo
            if io != m2:
                divs.append(Divergence("corr.heap.parse", {"tps": inp, "line": line}, io, mo))
            elif mo.startswith("ok "):
                ctx.nontrivial("parse|" + inp)
        elif kind == "transform":
            m2 = _board_only(mo.rsplit(" shared=", 1)[0]) if mo.startswith("ok ") else mo
            if io != m2 or not mo.endswith("shared=true"):
                divs.append(Divergence("corr.heap.transform", {"tps": inp[0], "sym": inp[1], "line": line}, io, mo))
        else:
            if io != _board_only(mo):
                divs.append(Divergence("corr.heap.decode", {"pos": inp, "line": line}, io, mo))


# ----------------------------------------------------------------------------- the check

_FOUND = []  # (ops, Found) collected by tie() for search()


def _plan(ctx, longer=False):
    if ctx.thorough or longer:
        return [(3, 4000), (4, 6000), (5, 7000), (5, 7000), (6, 6000), (6, 5000), (7, 3000), (8, 2500)], SWEEP_THOROUGH
    return [(3, 1500), (4, 2000), (5, 2500), (6, 1500), (7, 500), (8, 500)], SWEEP_QUICK


def _play(ctx, divs, longer=False, compare=True):
    plan, sweep_every = _plan(ctx, longer)
    found = []
    for size, n_ops in plan:
        g = Grower(ctx, size, sweep_every)
        try:
            g.grow(n_ops)
            # "hundreds of refused moves tried against each": hammer a sample of the retained positions
            for opid in ctx.rng.sample(g.live, min(len(g.live), 40 if (ctx.thorough or longer) else 10)):
                g.hammer(opid, n=300 if (ctx.thorough or longer) else 120)
            g.run.finish()
        except Found as f:
            found.append((list(g.run.ops), f))
            divs.append(
                Divergence(
                    "corr.heap.monitor",
                    {"size": size, "op_index": f.opindex, "op": g.run.ops[f.opindex]},
                    f.what,
                    "every list object and every retained position unchanged (C05_history)",
                )
            )
        ctx.count("tree:size%d" % size)
        ctx.count("retained_positions", len(g.run.mon.pos))
        ctx.count("list_objects_watched", len(g.run.mon.snap))
        ctx.extra["max_live_positions"] = max(ctx.extra.get("max_live_positions", 0), len(g.run.mon.pos))
        if compare:
            _cmp_lines(g.run, divs, ctx)
            _cmp_script(g.run, divs, ctx, g.run.ops)
        if len(g.run.mon.pos) > 3:
            e = g.run.mon.pos[len(g.run.mon.pos) // 2]
            ctx.sample({"retained": e["value"], "label": e["label"], "still": ser.pos_str(e["pos"])})
    return found


def tie(ctx):
    del _FOUND[:]
    divs = []
    _FOUND.extend(_play(ctx, divs))
    _sources_tie(ctx, divs)
    return divs


# ----------------------------------------------------------------------------- shrinking and search


def _closure(ops, found, run):
    """ops needed to re-create the operated position and the holders of the changed object"""
    byid = {op[0]: op for op in ops}
    creator = {}
    for opid, k in run.by_op.items():
        creator[k] = opid
    need = set()

    def add(opid):
        while opid is not None and opid not in need:
            need.add(opid)
            op = byid[opid]
            opid = op[2] if op[1] in ("mv", "tr", "dec", "share") else None

    add(ops[found.opindex][0])
    for k in found.change.holders:
        if k in creator:
            add(creator[k])
    return [op for op in ops if op[0] in need]


def shrink(ops, found, run, budget=400):
    ops = ops[: found.opindex + 1]
    key = found.key
    best = (ops, found)
    cand = _closure(ops, found, run)
    r2, f2 = execute(cand)
    if f2 is not None and f2.key == key:
        best = (cand[: f2.opindex + 1], f2)
    tries = 0
    changed = True
    while changed and tries < budget:
        changed = False
        cur, _ = best
        for i in range(len(cur) - 1, -1, -1):
            if tries >= budget:
                break
            cand = cur[:i] + cur[i + 1 :]
            tries += 1
            _, f3 = execute(cand)
            if f3 is not None and f3.key == key:
                best = (cand[: f3.opindex + 1], f3)
                cur = best[0]
                changed = True
    return best


def _model_verdict(ops):
    """Lean's side of a failing history: what the heap model says every retained position denotes at the
    end, against what the implementation's objects hold now"""
    r = Run(sweep_every=10**9, want_lines=False)
    for op in ops:
        try:
            r.step(op)
        except Found:
            pass
    divs = []

    class _C:
        def count(self, *a, **k):
            pass

    _cmp_script(r, divs, _C(), ops)
    if divs:
        d = divs[0]
        return "model (heap run): retained position %s must still denote [%s], implementation holds [%s]" % (
            d.input.get("retained"),
            d.model,
            d.impl,
        )
    return "model (heap run) agrees on final values (the change is not visible in position values)"


def _violation(ops, found):
    r, f = execute(ops[: found.opindex + 1])
    if f is None:
        r, f = execute(ops)
    if f is None:
        return None
    sops, sf = shrink(ops, f, r)
    verdict = ""
    try:
        verdict = " | " + _model_verdict(sops)
    except Exception as e:  # the verdict is an annotation; never lose the replay over it
        verdict = " | (model verdict unavailable: %s)" % type(e).__name__
    return Violation(sf.key, "%s [%d ops]%s" % (sf.what, len(sops), verdict), {"ops": sops, "key": sf.key})


def search(ctx, divergences, broken):
    vs = []
    found = list(_FOUND)
    if not found:
        # the tie or a proof obligation broke without the monitor seeing a change: look longer, with
        # shared-stack-heavy starts, before conceding `no-failing-input-found`
        ctx.note("search: monitor only, longer")
        found = _play(ctx, [], longer=True, compare=False)
    for ops, f in found:
        v = _violation(ops, f)
        if v is not None:
            vs.append(v)
    if vs:
        for d in divergences:
            if d.component in ("corr.heap.monitor", "corr.heap", "corr.move"):
                d.explained = True
    return vs


def replay(ctx, data):
    r = data.get("replay", data)
    ops = r["ops"]
    _, f = execute(ops)
    if f is None:
        return []
    return [Violation(f.key, "%s | %s" % (f.what, _model_verdict(ops[: f.opindex + 1])), r)]

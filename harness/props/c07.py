"""C07 — move ids are a bijection with the move universe of each board size.

Exhaustive: every table of every size the implementation builds is compared entry by entry with
the Lean model's table; `encode_move`/`decode_move`/`encode_moves_batch` are run on every id and
on every well-formed move (plus an ill-formed stream that must have no id); the width of the real
policy head is observed from constructed `PolicyValue` modules (attribute and forward output)."""
from ..check import Divergence, Violation
from ..lib import driver, gen

ID = "C07"
LEAN_MODULES = ["TakVerif.Props.C07"]
NEEDS_STUBS = True
RULE = (
    "exhaustive over the finite domain: ALL_SLIDES[0..8] and all_moves_for_size(0..8) vs the model (entry by entry, "
    "order included); MOVES_BY_SIZE[0..6], decode_move on every id 0..n-1 (+ the first id out of range), encode_move on "
    "every well-formed move of the harness's own enumeration and on an ill-formed stream (must raise KeyError), "
    "encode_moves_batch on the whole universe, n_moves_for_size, MAX_MOVE_ID, move_proj.out_features and the width of "
    "the tensor the head returns for several xformer configs. One evaluation = one (size, id) or (size, move) or scalar "
    "comparison. Non-trivial = a (size, id, move) triple whose encode/decode round trip was executed; distinct by text."
)
TRUSTED = [
    "modelled, not verified: Python dict/list/enumerate semantics, attrs-generated Move.__eq__/__hash__, torch.tensor of a list of ints",
    "decode_move with a NEGATIVE id (Python negative indexing returns an entry) is outside the property's id range 0..n-1 and not modelled",
]
ASSUMPTIONS = ["move ids are non-negative Python ints; coordinates and drop counts are Python ints"]

SIZES_TABLE = list(range(0, 7))  # MOVES_BY_SIZE
SIZES_FN = list(range(0, 9))  # all_moves_for_size / ALL_SLIDES
HEAD_SIZES = [3, 4, 5, 6]


def mv(m):
    s = m.slides
    st = "none" if s is None else ("-" if len(s) == 0 else ",".join(str(d) for d in s))
    return "%d:%d:%d:%s" % (m.x, m.y, m.type.value, st)


def mvs(ms):
    ms = list(ms)
    return ";".join(mv(m) for m in ms) if ms else "."


def split_moves(s):
    return [] if s == "." else s.split(";")


def _impl():
    import tak  # noqa
    from tak import moves
    from tak.model import encoding

    return moves, encoding


def _first_diff(a, b):
    for i, (x, y) in enumerate(zip(a, b)):
        if x != y:
            return i, x, y
    if len(a) != len(b):
        i = min(len(a), len(b))
        return i, (a[i] if i < len(a) else "<end>"), (b[i] if i < len(b) else "<end>")
    return None


def _cmp_list(ctx, divs, component, what, impl_list, model_list):
    ctx.evaluated(max(len(impl_list), len(model_list), 1))
    fd = _first_diff(impl_list, model_list)
    if fd is not None:
        i, x, y = fd
        divs.append(
            Divergence(
                component,
                dict(what, index=i, impl_len=len(impl_list), model_len=len(model_list)),
                x,
                y,
            )
        )
    return fd is None


def _ill_stream(ctx, size):
    out = list(gen.illformed_moves(ctx.rng, max(size, 1), 150 if not ctx.thorough else 1500))
    out += list(gen.illformed_moves_exhaustive(max(size, 1), maxlen=2 if (size <= 4 or ctx.thorough) else 1))
    return out


def _head_widths(ctx):
    """(description, out_features, width of the returned `moves` tensor) for a few real heads"""
    import torch
    import xformer
    from tak.model import heads

    res = []
    cfgs = [
        dict(n_layer=1, d_model=16, d_head=8, n_ctx=64, n_vocab=256),
        dict(n_layer=2, d_model=64, d_head=32, n_ctx=128, n_vocab=256),
    ]
    if ctx.thorough:
        cfgs.append(dict(n_layer=1, d_model=128, d_head=32, n_ctx=256, n_vocab=256, positional_encoding="learned"))
    for kw in cfgs:
        cfg = xformer.Config(autoregressive_mask=False, output_head=heads.PolicyValue, **kw)
        head = heads.PolicyValue(cfg)
        with torch.no_grad():
            out = head(torch.zeros((2, 3, cfg.d_model)))
        w_head = int(out["moves"].shape[-1])
        model = xformer.Transformer(cfg)
        hd = [m for m in model.modules() if isinstance(m, heads.PolicyValue)]
        w_model = int(hd[0].move_proj.out_features) if hd else -1
        res.append(("d_model=%d" % cfg.d_model, int(head.move_proj.out_features), w_head, w_model))
    return res


def _cross_process(ctx):
    import json
    import os
    import subprocess
    import tempfile

    from ..lib import env

    divs = []
    d = tempfile.mkdtemp(prefix="c07x-")
    path = os.path.join(d, "moves.pkl")
    try:
        outs = []
        for role, seed in (("produce", "11"), ("consume", "22"), ("lateimport", "33")):
            e = dict(os.environ, PYTHONHASHSEED=seed)
            if role == "consume":
                e["PYTHONOPTIMIZE"] = "1"  # the consumer runs as `python -O`: assert statements are not executed
            r = subprocess.run([env.PYTHON, "-m", "harness.lib.c07_xproc", role, path], cwd=env.VERIF, env=e, stdout=subprocess.PIPE, stderr=subprocess.PIPE, text=True, timeout=600)
            outs.append(r)
            if r.returncode != 0:
                divs.append(Divergence("impl.cross-process", {"check": "cross-process", "role": role}, "crash: " + r.stderr[-300:], "moves pickle and unpickle"))
                return divs
        line = [l for l in outs[1].stdout.splitlines() if l.startswith("C07X ")][-1]
        res = json.loads(line[5:])
        late = json.loads([l for l in outs[2].stdout.splitlines() if l.startswith("C07X ")][-1][5:])["tables"]
    finally:
        import shutil

        shutil.rmtree(d, ignore_errors=True)
    for n, r in sorted(res["pickled"].items()):
        for name in ("decoded", "rebuilt"):
            x = r[name]
            want = list(range(len(x["encode_move"])))
            ctx.evaluated(len(want))
            ctx.count("cross-process:%s:size%s" % (name, n), len(want))
            for what in ("encode_move", "encode_moves_batch"):
                if x[what] != want:
                    got = x[what]
                    bad = next((i for i, (a, b) in enumerate(zip(got, want)) if a != b), 0) if isinstance(got, list) else 0
                    divs.append(Divergence("impl.cross-process", {"check": "cross-process", "size": int(n), "moves": name, "call": what, "id": bad},
                                           "a move equal to decode_move(%s, %d), unpickled from another interpreter, gets %s" % (n, bad, got[bad] if isinstance(got, list) else got), "id %d" % bad))
                    break
            if not x["equal_to_local"]:
                divs.append(Divergence("impl.cross-process", {"check": "cross-process", "size": int(n), "moves": name, "call": "=="}, "unpickled move != decode_move of its id", "equal"))
    for n, name in res.get("held_changed", []):
        divs.append(Divergence("impl.returned-list", {"check": "returned-list-modified", "size": int(n), "what": "encode_moves_batch result held across later calls"},
                               "the tensor returned by encode_moves_batch(%s, …) changed when other batches were encoded afterwards" % n, "a result keeps its value"))
    for n in sorted(res["before"]):
        ctx.evaluated(len(res["before"][n]["decode"]))
        if late.get(n) != res["before"][n]:
            lb = late.get(n, {"decode": []})
            divs.append(Divergence("impl.returned-list", {"check": "returned-list-modified", "size": int(n), "what": "tables when the move generator was used before tak.model.encoding was first imported"},
                                   "%d ids (%s…)" % (len(lb["decode"]), str(lb["decode"][:3])), "%d ids, the same table" % len(res["before"][n]["decode"])))
    for n in sorted(res["before"]):
        b, a = res["before"][n], res["after"][n]
        ctx.evaluated(len(b["decode"]))
        ctx.count("returned-lists-modified:size%s" % n)
        if a != b or a["encode_of_decode"] != list(range(len(a["decode"]))):
            i = next((k for k, (x, y) in enumerate(zip(a["decode"], b["decode"])) if x != y), None)
            divs.append(Divergence("impl.returned-list", {"check": "returned-list-modified", "size": int(n), "id": i},
                                   "after a caller modified the lists returned by all_moves_for_size / all_moves: decode_move(%s, %s) = %s, encode∘decode = %s…" % (n, i, a["decode"][i] if i is not None and i < len(a["decode"]) else "?", str(a["encode_of_decode"][:6])),
                                   "the tables as before (%s)" % (b["decode"][i] if i is not None else "…")))
    return divs


def tie(ctx):
    moves, encoding = _impl()
    divs = []
    ctx.exhaustive = True

    # the public functions asked about board sizes beyond the tables (7x7, 8x8) before anything else:
    # whatever they answer (an error today), every size a table exists for AFTERWARDS must still fit the
    # policy head (the tables are re-read below)
    for n in (7, 8):
        for call in (lambda: encoding.n_moves_for_size(n), lambda: encoding.decode_move(n, 0), lambda: encoding.encode_move(n, moves.all_moves_for_size(n)[0])):
            try:
                call()
                ctx.count("size%d-beyond-tables:answered" % n)
            except Exception:
                ctx.count("size%d-beyond-tables:refused" % n)

    # --- slide lists and tables of moves.py
    lines = ["gen slides %d" % n for n in SIZES_FN] + ["gen table %d" % n for n in SIZES_FN]
    outs = driver.run_lines(lines)
    model_slides = {n: split_moves(o) for n, o in zip(SIZES_FN, outs[: len(SIZES_FN)])}
    model_table = {n: split_moves(o) for n, o in zip(SIZES_FN, outs[len(SIZES_FN):])}
    for n in SIZES_FN:
        impl_sl = [",".join(str(d) for d in s) for s in moves.ALL_SLIDES[n]]
        _cmp_list(ctx, divs, "corr.tables", {"table": "ALL_SLIDES", "size": n}, impl_sl, model_slides[n])
        impl_t = [mv(m) for m in moves.all_moves_for_size(n)]
        ok = _cmp_list(ctx, divs, "corr.tables", {"table": "all_moves_for_size", "size": n}, impl_t, model_table[n])
        ctx.count("table_len:%d=%d" % (n, len(impl_t)))
        if ok:
            ctx.count("tables_equal")

    # --- MOVES_BY_SIZE through the public functions
    n_tables = len(encoding.MOVES_BY_SIZE)
    ctx.evaluated()
    if n_tables != len(SIZES_TABLE):
        divs.append(Divergence("corr.tables", {"table": "len(MOVES_BY_SIZE)"}, str(n_tables), str(len(SIZES_TABLE))))
    enc_lines = []
    enc_meta = []
    for n in SIZES_TABLE:
        if n >= n_tables:
            continue
        cnt = encoding.n_moves_for_size(n)
        ctx.evaluated()
        if cnt != len(model_table[n]):
            divs.append(Divergence("corr.tables", {"table": "n_moves_for_size", "size": n}, str(cnt), str(len(model_table[n]))))
        dec = []
        for i in range(cnt):
            try:
                dec.append(mv(encoding.decode_move(n, i)))
            except Exception as e:
                dec.append("crash " + type(e).__name__)
        _cmp_list(ctx, divs, "corr.tables", {"table": "decode_move", "size": n}, dec, model_table[n])
        _cmp_list(ctx, divs, "corr.tables", {"table": "MOVES_BY_SIZE", "size": n}, [mv(m) for m in encoding.MOVES_BY_SIZE[n]], model_table[n])
        # first id out of range
        try:
            o = mv(encoding.decode_move(n, cnt))
        except IndexError:
            o = "none"
        except Exception as e:
            o = "crash " + type(e).__name__
        ctx.evaluated()
        if o != "none":
            divs.append(Divergence("corr.tables", {"table": "decode_move", "size": n, "index": cnt}, o, "none"))
        # encode on the harness's own universe and on the ill-formed stream
        cands = gen.wellformed_moves(n) + _ill_stream(ctx, n)
        ids = []
        for m in cands:
            try:
                ids.append(str(encoding.encode_move(n, m)))
            except KeyError:
                ids.append("none")
            except Exception as e:
                ids.append("crash " + type(e).__name__)
        enc_lines.append("gen encodes %d %s" % (n, mvs(cands)))
        enc_meta.append((n, cands, ids))
        # a Move object taken from ANOTHER size's table is a move like any other: where it is a
        # well-formed move of this size too, it has this size's id
        for other in SIZES_TABLE:
            if other == n or other >= n_tables:
                continue
            try:
                foreign = [encoding.decode_move(other, i) for i in range(encoding.n_moves_for_size(other))]
            except Exception:
                continue
            mine = {mv(m): i for i, m in enumerate(encoding.MOVES_BY_SIZE[n])} if n < n_tables else {}
            bad = None
            for m in foreign:
                want = mine.get(mv(m))
                if want is None:
                    continue
                try:
                    got = int(encoding.encode_move(n, m))
                except Exception as e:
                    got = "crash " + type(e).__name__
                ctx.evaluated()
                if got != want:
                    bad = (mv(m), got, want)
                    break
            ctx.count("cross-size-encode:size%d" % n)
            if bad:
                divs.append(Divergence("impl.cross-size", {"check": "cross-size", "size": n, "from_size": other, "move": bad[0]},
                                       "encode_move(%d, decode_move(%d, …)) for the move %s gives %s" % (n, other, bad[0], bad[1]), "id %s (decode_move(%d, %s) is that move)" % (bad[2], n, bad[2])))
                break
        # batch encoder on every move that has an id
        have = [m for m, i in zip(cands, ids) if i.isdigit()]
        ctx.evaluated(len(have))
        try:
            import torch

            t = encoding.encode_moves_batch(n, have)
            batch = [str(int(v)) for v in t.tolist()] if len(have) else []
            if len(have) and t.dtype != torch.long:
                divs.append(Divergence("corr.tables", {"table": "encode_moves_batch.dtype", "size": n}, str(t.dtype), "torch.int64"))
        except Exception as e:
            batch = ["crash " + type(e).__name__]
        single = [i for i in ids if i.isdigit()]
        fd = _first_diff(batch, single)
        if fd is not None:
            divs.append(Divergence("corr.tables", {"table": "encode_moves_batch", "size": n, "index": fd[0]}, fd[1], fd[2]))
        # the same moves handed over as other iterables (the function takes "moves": a tuple, a
        # generator, a map object, an iterator are moves too)
        for kind, mk in (("tuple", tuple), ("generator", lambda l: (m for m in l)), ("map", lambda l: map(lambda m: m, l)), ("iterator", iter)):
            ctx.evaluated(len(have))
            ctx.count("batch-encode:" + kind)
            try:
                other = [str(int(v)) for v in encoding.encode_moves_batch(n, mk(have)).tolist()] if len(have) else []
            except Exception as e:
                other = ["crash " + type(e).__name__]
            fd = _first_diff(other, single)
            if fd is not None:
                divs.append(Divergence("corr.tables", {"table": "encode_moves_batch(%s)" % kind, "size": n, "index": fd[0]}, fd[1], fd[2]))
    enc_out = driver.run_lines(enc_lines)
    for (n, cands, ids), o in zip(enc_meta, enc_out):
        model_ids = o.split(",") if cands else []
        ctx.evaluated(len(cands))
        for m, a, b in zip(cands, ids, model_ids):
            if a != b:
                divs.append(Divergence("corr.tables", {"table": "encode_move", "size": n, "move": mv(m)}, a, b))
                break
        for m, a in zip(cands, ids):
            if a.isdigit():
                ctx.nontrivial("%d|%s|%s" % (n, a, mv(m)))
                ctx.count("ids:size%d" % n)
            else:
                ctx.count("no-id:size%d" % n)
    ctx.sample({"size": 5, "id": 648, "decode_move": mv(encoding.decode_move(5, 648)) if n_tables > 5 and encoding.n_moves_for_size(5) > 648 else None})

    # --- ids of moves that crossed a process boundary (a worker's transcript unpickled in the
    #     trainer, interpreters with different hash seeds), and the tables after callers modified
    #     the lists the public helpers handed them
    divs += _cross_process(ctx)

    # --- width
    width_model = len(model_table[6])
    ctx.evaluated()
    if encoding.MAX_MOVE_ID != width_model:
        divs.append(Divergence("corr.tables", {"table": "MAX_MOVE_ID"}, str(encoding.MAX_MOVE_ID), str(width_model)))
    for desc, feat, w_fwd, w_model in _head_widths(ctx):
        ctx.evaluated(3)
        ctx.sample({"head": desc, "move_proj.out_features": feat, "forward_width": w_fwd, "in_transformer": w_model})
        for what, v in (("out_features", feat), ("forward_width", w_fwd), ("transformer_head_out_features", w_model)):
            if v != width_model:
                divs.append(Divergence("corr.tables", {"table": "head." + what, "config": desc}, str(v), str(width_model)))
    return divs


# ------------------------------------------------------------------ the property on the implementation's own data


def _predicate(ctx, sizes=None):
    """C07 evaluated on what the implementation holds: returns a list of Violation.
    `MoveWF` and duplicate-freeness are decided by the driver; ids are compared as integers."""
    moves, encoding = _impl()
    vs = []
    n_tables = len(encoding.MOVES_BY_SIZE)
    head_sizes = [n for n in HEAD_SIZES if sizes is None or n in sizes]
    sizes = [n for n in (sizes if sizes is not None else range(n_tables)) if n < n_tables]
    tables = {}
    for n in sizes:
        cnt = encoding.n_moves_for_size(n)
        tables[n] = [encoding.decode_move(n, i) for i in range(cnt)]
    universe = {n: gen.wellformed_moves(n) + _ill_stream(ctx, n) for n in sizes}
    lines = []
    for n in sizes:
        lines.append("gen wfmask %d %s" % (n, mvs(tables[n])))
        lines.append("gen nodup %s" % mvs(tables[n]))
        lines.append("gen wfmask %d %s" % (n, mvs(universe[n])))
    outs = driver.run_lines(lines)
    for k, n in enumerate(sizes):
        wf_t, nodup, wf_u = outs[3 * k], outs[3 * k + 1], outs[3 * k + 2]
        T = tables[n]
        if T and len(wf_t) != len(T):
            raise RuntimeError("driver wfmask length mismatch")
        # ids -> well-formed moves, one-to-one
        for i, (m, c) in enumerate(zip(T, wf_t if T else "")):
            if c != "1":
                vs.append(Violation("id-for-illformed-move", "size %d: id %d decodes to [%s], which is not a well-formed move of that size" % (n, i, mv(m)), {"size": n, "id": i, "move": mv(m)}))
                break
        if T and nodup != "true":
            seen = {}
            for i, m in enumerate(T):
                if mv(m) in seen:
                    vs.append(Violation("duplicate-id", "size %d: ids %d and %d both decode to [%s]" % (n, seen[mv(m)], i, mv(m)), {"size": n, "id": i, "move": mv(m)}))
                    break
                seen[mv(m)] = i
        # encode(decode(i)) = i
        for i, m in enumerate(T):
            try:
                j = encoding.encode_move(n, m)
            except Exception as e:
                j = "crash " + type(e).__name__
            if j != i:
                vs.append(Violation("encode-decode-mismatch", "size %d: encode_move(decode_move(%d)) = %s" % (n, i, j), {"size": n, "id": i, "move": mv(m)}))
                break
        # every well-formed move has an id in range that decodes back to it; nothing else has an id
        U = universe[n]
        for m, c in zip(U, wf_u if U else ""):
            try:
                i = encoding.encode_move(n, m)
            except KeyError:
                i = None
            except Exception as e:
                i = "crash " + type(e).__name__
            if c == "1":
                bad = None
                if not isinstance(i, int):
                    bad = "has no id (%s)" % i
                elif not (0 <= i < len(T)):
                    bad = "has id %d outside 0..%d" % (i, len(T) - 1)
                elif T[i] != m:
                    bad = "has id %d which decodes to [%s]" % (i, mv(T[i]))
                if bad:
                    vs.append(Violation("wellformed-move-without-id", "size %d: well-formed move [%s] %s" % (n, mv(m), bad), {"size": n, "move": mv(m)}))
                    break
            elif i is not None:
                vs.append(Violation("id-for-illformed-move", "size %d: ill-formed move [%s] encodes to %s" % (n, mv(m), i), {"size": n, "move": mv(m)}))
                break
    # width of the policy head
    if head_sizes:
        for desc, feat, w_fwd, w_model in _head_widths(ctx):
            for n in head_sizes:
                if n >= n_tables:
                    vs.append(Violation("no-table-for-size", "no move table for board size %d" % n, {"size": n}))
                    continue
                cnt = encoding.n_moves_for_size(n)
                if cnt > min(feat, w_fwd, w_model):
                    vs.append(Violation("id-exceeds-head-width", "size %d has %d move ids but the policy head (%s) is %d wide" % (n, cnt, desc, min(feat, w_fwd, w_model)), {"size": n, "config": desc}))
    # report the sizes the policy head serves first
    vs.sort(key=lambda v: (v.replay.get("size") not in HEAD_SIZES, v.replay.get("size") or 0))
    seen = set()
    out = []
    for v in vs:
        if (v.key, v.replay.get("size")) not in seen:
            seen.add((v.key, v.replay.get("size")))
            out.append(v)
    return out


X_KEYS = {"impl.cross-process": "unpickled-move-loses-its-id", "impl.returned-list": "table-changed-through-returned-list", "impl.cross-size": "move-object-of-another-size-misencoded"}


def search(ctx, divergences, broken):
    vs = _predicate(ctx)
    seen = set()
    for d in divergences:
        if d.component in X_KEYS:
            # these ARE the property on the implementation (encode/decode inverse for a move equal to
            # a table move; the table as it is after ordinary use of the public helpers)
            d.explained = True
            if d.component not in seen:
                seen.add(d.component)
                vs.append(Violation(X_KEYS[d.component], "%s; expected %s" % (d.impl, d.model), dict(d.input)))
    if vs:
        bad_sizes = {v.replay.get("size") for v in vs if v.key != "id-exceeds-head-width"}
        width_fails = any(v.key == "id-exceeds-head-width" for v in vs)
        for d in divergences:
            about_width = d.input.get("table", "").startswith(("head.", "MAX_MOVE_ID"))
            if (about_width and width_fails) or (not about_width and d.input.get("size") in bad_sizes):
                d.explained = True
    else:
        ctx.note("C07 predicate (bijection with MoveWF, inverse encode/decode, width) holds on the implementation's own tables; the divergence from the model is left unexplained")
    return vs


def replay(ctx, data):
    r = data.get("replay", data)
    if r.get("check") == "cross-size":
        return [Violation(X_KEYS[d.component], "%s; expected %s" % (d.impl, d.model), dict(d.input)) for d in tie(ctx) if d.component == "impl.cross-size"][:1]
    if r.get("check") in ("cross-process", "returned-list-modified"):
        comp = "impl.cross-process" if r["check"] == "cross-process" else "impl.returned-list"
        return [Violation(X_KEYS[d.component], "%s; expected %s" % (d.impl, d.model), dict(d.input)) for d in _cross_process(ctx) if d.component == comp][:1]
    size = r.get("size")
    vs = _predicate(ctx, sizes=[size] if size is not None else None)
    key = r.get("key")
    if key:
        vs = [v for v in vs if v.key == key]
    return vs

"""C02 — game-over adjudication is right for every position.

tie:    Position.winner() and Position.has_road() of the working tree  vs  Impl.winner /
        Impl.hasRoad of the Lean model (driver component `winner`, op `both`).
search: the model is the specification by theorem (C02_winner_spec, C02_hasRoad_spec), and
        the specification has an executable form proved equivalent (C02_closure_iff_road);
        every diverging board is re-judged by the driver with that form (`specboth`,
        `facts`); a board on which the implementation's answer differs from it is a failing
        input.  Python holds no oracle: it generates, runs, serialises, diffs."""
import itertools

from ..check import Divergence, Violation
from ..lib import driver, gen, roadgen, ser

ID = "C02"
LEAN_MODULES = ["TakVerif.Props.C02"]
# cross-operation sessions (lib/session.py): which operations this property judges
SESSION = {"kinds": {"winner"}}
RULE = (
    "one evaluation = one position run through Position.winner() AND Position.has_road() and through Impl.winner/"
    "Impl.hasRoad (one driver line). Positions: every position of random legal games (6 biased policies, sizes 3..8, "
    "incl. the final, game-over position); constructed random boards; a road-aware generator (random self-avoiding "
    "edge-to-edge chains of flats/capstones for either colour and both directions, snakes and spirals, then: intact / "
    "cut at one cell by own wall, opponent flat, opponent capstone, opponent wall, emptied, or buried under an opponent "
    "top / stopped one square short at either end / corner removed so that only a diagonal contact remains / pure "
    "diagonals / chains for both colours at once), full boards with equal and unequal flat counts, every reserve "
    "pattern (either or both reserves empty; stones=0 with capstones left; negative counts), both ply parities "
    "everywhere; exhaustive over 3x3 top patterns (quick: 4^9 x both parities for {_,a,d,e}; thorough: 5^9 x both parities for "
    "{_,a,d,c,e} and for {_,a,d,f,b}). Non-trivial = the specification's verdict is a win/draw, or the board was "
    "built around a chain (cut, near-miss, diagonal); distinct by position text."
)
TRUSTED = [
    "modelled, not verified: CPython set membership / list pop-append semantics and tuple equality as used by _walk; "
    "enum identity of Color/Kind/WinReason",
]
ASSUMPTIONS = [
    "positions are well formed (size >= 1, len(board) == size*size, squares are lists of Piece); reserves and ply are Python ints",
    "'no piece left in reserve' is read as stones + caps == 0 (identical to 'both zero' for non-negative reserves)",
]


def _col(c):
    from tak import pieces

    if c is None:
        return "N"
    if isinstance(c, pieces.Color):
        return "W" if c == pieces.Color.WHITE else "B"
    return "?%r" % (c,)


def _reason(r):
    import tak

    if r is None:
        return "NONE"
    if isinstance(r, tak.WinReason):
        return r.name
    return "?%r" % (r,)


def impl_out(pos):
    """`<W|B|N> <ROAD|FLATS|NONE> <W|B|N>`: winner() then has_road(); exceptions become crash tokens"""
    try:
        w = pos.winner()
        a = "%s %s" % (_col(w[0]), _reason(w[1]))
    except Exception as e:
        a = "crash %s" % type(e).__name__
    try:
        b = _col(pos.has_road())
    except Exception as e:
        b = "crash-%s" % type(e).__name__
    return a + " " + b


# ------------------------------------------------------------------ positions as text

def pstr(size, res, ply, board):
    return "%d %d %d %d %d %d %s" % (size, res[0], res[1], res[2], res[3], ply, ",".join(board))


def _plies(rng):
    """an even and an odd ply (both parities), from a pool that includes 0, 1 and negatives"""
    ev = rng.choice([0, 2, 4, 10, 40, -2, 2 * rng.randrange(1, 60)])
    od = rng.choice([1, 3, 5, 11, 41, -1, -3, 2 * rng.randrange(1, 60) + 1])
    return ev, od


def _res(rng):
    return (rng.randrange(1, 30), rng.randrange(0, 3), rng.randrange(1, 30), rng.randrange(0, 3))


def road_cases(ctx, size, nchains):
    """yield (label, nontrivial, pos_text)"""
    rng = ctx.rng
    for k in range(nchains):
        colour = k % 2
        horiz = (k // 2) % 2 == 0
        which = rng.random()
        if which < 0.70:
            chain = roadgen.random_path(rng, size, horiz)
            shape = "path"
        elif which < 0.85:
            chain = roadgen.snake(size, horiz, flip=rng.random() < 0.5)
            shape = "snake"
        else:
            chain = roadgen.spiral(size)
            if rng.random() < 0.5:
                chain = [(y, x) for x, y in chain]
            shape = "spiral"
        if not chain:
            continue
        mode = rng.choice(["hostile", "hostile", "empty", "noise"])
        base = roadgen.board_from_chain(rng, size, chain, colour, mode)
        ev, od = _plies(rng)
        res = _res(rng)
        ctx.count("chain:%s" % shape)
        ctx.count("chainlen:%d-%d" % (len(chain) // 8 * 8, len(chain) // 8 * 8 + 7))
        for ply in (ev, od):
            yield "road:intact:" + shape, True, pstr(size, res, ply, base)
        # cut the chain once, every way; positions: first, last, random interior
        wheres = {0, len(chain) - 1, rng.randrange(len(chain)), rng.randrange(len(chain))}
        for how in roadgen.CUTS:
            for w in wheres:
                b, _ = roadgen.cut(rng, size, base, chain, colour, how, w)
                yield "road:cut:" + how, True, pstr(size, res, rng.choice((ev, od)), b)
        # one square short at the far end / at the near end
        for w in (0, len(chain) - 1):
            b, _ = roadgen.cut(rng, size, base, chain, colour, "empty", w)
            yield "road:near-miss", True, pstr(size, res, ev, b)
        # diagonal-only contact: remove a corner of the chain
        for w in roadgen.staircase_gap(rng, size, chain)[:3]:
            b, _ = roadgen.cut(rng, size, base, chain, colour, rng.choice(["empty", "own-wall", "opp-flat"]), w)
            yield "road:diagonal-gap", True, pstr(size, res, od, b)
    # a road next to a large non-spanning group of the same colour on the same starting edge
    if size >= 4:
        for colour in (0, 1):
            for _ in range(3):
                b = roadgen.blob_and_road(rng, size, colour)
                for ply in _plies(rng):
                    yield "road:with-large-blob", True, pstr(size, _res(rng), ply, b)
    # pure diagonals
    for colour in (0, 1):
        for anti in (False, True):
            b, _ = roadgen.diagonal_board(rng, size, colour, anti, rng.choice(["empty", "hostile"]))
            yield "road:diagonal", True, pstr(size, _res(rng), rng.choice(_plies(rng)), b)
    # both colours at once: the player who just moved wins -> both parities
    for k in range(max(2, nchains // 3)):
        t = roadgen.two_colour(rng, size)
        if t is None:
            continue
        b, wch, bch = t
        ev, od = _plies(rng)
        res = _res(rng)
        for ply in (ev, od, 0, 1, -1, -2):
            yield "road:both", True, pstr(size, res, ply, b)
        for colour, ch in ((0, wch), (1, bch)):
            b2, how = roadgen.cut(rng, size, b, ch, colour)
            for ply in (ev, od):
                yield "road:both-one-cut", True, pstr(size, res, ply, b2)


def flat_cases(ctx, size, n):
    rng = ctx.rng
    for _ in range(n):
        b = roadgen.full_board(rng, size)
        ev, od = _plies(rng)
        for ply in (ev, od):
            yield "full", True, pstr(size, _res(rng), ply, b)
        # one square emptied: not full any more
        b2 = list(b)
        b2[rng.randrange(len(b2))] = "_"
        yield "full:minus-one", False, pstr(size, _res(rng), ev, b2)
    for _ in range(n):
        b = roadgen.sparse_board(rng, size)
        for res, label in roadgen.RESERVES:
            yield "reserve:" + label, True, pstr(size, res, rng.choice(_plies(rng)), b)
    # reserve patterns on full boards and on boards with a chain
    b = roadgen.full_board(rng, size)
    ch = roadgen.random_path(rng, size, True)
    rb = roadgen.board_from_chain(rng, size, ch, 0, "hostile") if ch else None
    for res, label in roadgen.RESERVES:
        yield "reserve-full:" + label, True, pstr(size, res, 7, b)
        if rb:
            yield "reserve-road:" + label, True, pstr(size, res, 8, rb)


def game_cases(ctx, size, ngames):
    rng = ctx.rng
    for g in range(ngames):
        policy = gen.POLICIES[g % len(gen.POLICIES)]
        cfg = gen.random_config(rng, size, 0.35, max_pieces=None)
        game = gen.play_random_game(rng, cfg, policy, max_plies=6 * size * size)
        for i, pos in enumerate(game):
            last = i == len(game) - 1
            yield ("reach-end:" if last else "reach:") + policy, last, pos
        # one step beyond a finished game, if the rules still allow a move (adjudication of
        # positions after the end is part of "every position")
        pos = game[-1]
        try:
            ms = pos.all_moves()
            if ms:
                yield "reach-beyond-end", True, pos.move(rng.choice(ms))
        except Exception:
            pass


def constructed_cases(ctx, size, n):
    rng = ctx.rng
    for c in range(n):
        yield "constructed", False, gen.constructed_position(
            rng, size, tops_only=(c % 3 != 2), derive_reserves=(c % 2 == 0), fill=rng.choice([None, 0.9, 1.0, 0.3])
        )


# ------------------------------------------------------------------ the tie

CHUNK = 100000


class _Tie:
    def __init__(self, ctx):
        self.ctx = ctx
        self.buf = []
        self.divs = []
        self.nspec = 0

    def add(self, label, nontrivial, ps, io, check_spec):
        self.buf.append((label, nontrivial, ps, io, check_spec))
        if len(self.buf) >= CHUNK:
            self.flush()

    def flush(self):
        buf, self.buf = self.buf, []
        if not buf:
            return
        ctx = self.ctx
        outs = driver.run_lines(["winner both " + b[2] for b in buf])
        spec_idx = [i for i, b in enumerate(buf) if b[4]]
        spec = driver.run_lines(["winner specboth " + buf[i][2] for i in spec_idx])
        for i, so in zip(spec_idx, spec):
            self.nspec += 1
            if so != outs[i]:
                # contradicts C02_winner_spec/C02_closure_iff_road: the machinery is broken
                raise RuntimeError("driver: Impl.winner and Spec.outcomeB differ on [%s]: %s vs %s" % (buf[i][2], outs[i], so))
        tally = {}
        for (label, nontrivial, ps, io, _), mo in zip(buf, outs):
            tk = ps.split(" ", 6)
            key = (label, tk[0], mo, int(tk[5]) % 2)
            tally[key] = tally.get(key, 0) + 1
            if nontrivial or not mo.startswith("N NONE"):
                ctx.nontrivial(ps)
            if io != mo:
                self.divs.append(Divergence("corr.winner", {"pos": ps, "label": label}, io, mo))
            elif len(ctx.samples) < 6 and not mo.startswith("N NONE") and label.startswith(("road", "reach-end", "full")):
                if all(s.get("label", "").split(":")[0] != label.split(":")[0] for s in ctx.samples):
                    ctx.sample({"label": label, "pos": ps, "impl": io, "model": mo})
        for (label, size, mo, par), k in tally.items():
            ctx.evaluated(k)
            ctx.count("case:" + ":".join(label.split(":")[:2]), k)
            ctx.count("size:" + size, k)
            ctx.count("outcome:" + mo.rsplit(" ", 1)[0], k)
            ctx.count("ply-parity:%d" % par, k)


def _exh_worker(job):
    """implementation answers for every 3x3 board whose first squares are `prefix` and whose
    other squares range over `symbols` (runs in a forked worker: same working tree, same code)"""
    import tak

    symbols, prefix, plies = job
    stacks = {c: ser.parse_pos(["1", "1", "0", "1", "0", "0", c]).board[0] for c in symbols if c != "_"}
    stacks["_"] = []
    sc = (tak.StoneCounts(4, 1), tak.StoneCounts(4, 1))
    out = []
    pre = [stacks[c] for c in prefix]
    for pat in itertools.product(symbols, repeat=9 - len(prefix)):
        board = pre + [stacks[c] for c in pat]
        for ply in plies:
            out.append(impl_out(tak.Position(size=3, stones=sc, ply=ply, board=board)))
    return out


def _exhaustive_3x3(ctx, t, symbols, plies, tag):
    """every assignment of `symbols` to the nine squares, at every ply of `plies`"""
    import multiprocessing
    import os

    jobs = [(symbols, pre, plies) for pre in itertools.product(symbols, repeat=3)]
    nproc = max(1, min(8, (os.cpu_count() or 2) // 2))
    n = 0
    with multiprocessing.get_context("fork").Pool(nproc) as pool:
        for (_, pre, _), outs in zip(jobs, pool.imap(_exh_worker, jobs)):
            k = 0
            for pat in itertools.product(symbols, repeat=6):
                bs = ",".join(pre + pat)
                for ply in plies:
                    t.add("exh3x3:" + tag, False, "3 4 1 4 1 %d %s" % (ply, bs), outs[k], n % 97 == 0)
                    k += 1
                    n += 1
    ctx.count("exhaustive-3x3:" + tag, n)
    return n


def tie(ctx):
    t = _Tie(ctx)
    # per size: chains, constructed boards, games, full/reserve boards
    if ctx.thorough:
        plan = {3: (1500, 3000, 900, 500), 4: (2000, 3000, 700, 500), 5: (2000, 3000, 400, 500), 6: (2000, 3000, 200, 400), 7: (1500, 2000, 72, 300), 8: (1500, 2000, 48, 300)}
    else:
        plan = {3: (200, 300, 120, 50), 4: (250, 300, 90, 50), 5: (250, 300, 48, 50), 6: (250, 300, 24, 40), 7: (200, 200, 9, 30), 8: (200, 200, 6, 30)}
    # share of cases also put to the (slow, list-based) closure form of the specification
    spec_share = {3: 1.0, 4: 0.5, 5: 0.2, 6: 0.05, 7: 0.02, 8: 0.01}
    rnd = ctx.rng.random
    kept = []  # live position objects of every size, asked again below in an order that mixes sizes
    for size, (nchains, ncons, ngames, nflat) in plan.items():
        sh = spec_share[size]
        for label, nt, ps in road_cases(ctx, size, nchains):
            pos = ser.parse_pos(ps.split(" "))
            t.add(label, nt, ps, impl_out(pos), rnd() < sh)
            kept.append((label, ps, pos))
        for label, nt, ps in flat_cases(ctx, size, nflat):
            pos = ser.parse_pos(ps.split(" "))
            t.add(label, nt, ps, impl_out(pos), rnd() < sh)
            kept.append((label, ps, pos))
        for label, nt, pos in constructed_cases(ctx, size, ncons):
            t.add(label, nt, ser.pos_str(pos), impl_out(pos), rnd() < sh)
        for label, nt, pos in game_cases(ctx, size, ngames):
            t.add(label, nt, ser.pos_str(pos), impl_out(pos), rnd() < sh)
    # The same live objects again, sizes interleaved, in one interpreter: adjudication is a function
    # of the position, whatever was adjudicated before it (scratch state shared between calls or
    # between board sizes shows only here).  Several rounds, so that hundreds of calls lie between
    # two questions about one board size.
    for rnd_no in range(4 if ctx.thorough else 2):
        order = list(kept)
        ctx.rng.shuffle(order)
        for label, ps, pos in order:
            t.add("reask:" + label.split(":")[0], False, ps, impl_out(pos), False)
    if ctx.thorough:
        n = _exhaustive_3x3(ctx, t, "_adce", (6, 7), "5sym-a")
        n += _exhaustive_3x3(ctx, t, "_adfb", (8, 9), "5sym-b")
        ctx.exhaustive = True
        ctx.extra["exhaustive_scope"] = (
            "all 5^9 assignments of {empty, white flat, black flat, white capstone, black wall} to a 3x3 board at both ply "
            "parities, and of {empty, white flat, black flat, black capstone, white wall} likewise (%d positions); the rest of the tie is sampled" % n
        )
    else:
        n = _exhaustive_3x3(ctx, t, "_ade", (6, 7), "4sym")
        ctx.extra["exhaustive_scope"] = (
            "all 4^9 assignments of {empty, white flat, black flat, black wall} to a 3x3 board at both ply parities (%d positions); the rest of the tie is sampled" % n
        )
    t.flush()
    ctx.count("cross-checked-against-closure-spec", t.nspec)
    return t.divs


# ------------------------------------------------------------------ failing-input search

def spec_verdict(pss):
    """the specification's answer and its ingredients, from the driver"""
    outs = driver.run_lines(["winner specboth " + ps for ps in pss])
    facts = driver.run_lines(["winner facts " + ps for ps in pss])
    res = []
    for o, f in zip(outs, facts):
        d = dict(kv.split("=") for kv in f.split(" ")) if "=" in f else {}
        res.append((o, d))
    return res


def classify(ps, io, so, facts):
    """name of the failure class; io/so = `<c> <reason> <query>` of implementation / specification"""
    if "crash" in io:
        return "crash"
    it, st = io.split(" "), so.split(" ")
    if len(it) != 3 or len(st) != 3:
        return "malformed-answer"
    (w, r, q), (sw, sr, sq) = it, st
    if (w, r) == (sw, sr):
        return "query-disagrees"
    wroad, broad = facts.get("wroad") == "1", facts.get("broad") == "1"
    if wroad and broad:
        if r != "ROAD":
            return "road-missed"
        # both colours have a road.  Take the road pieces of the colour the implementation
        # named off the board: if it then names the other colour it can see both roads and
        # the fault is in choosing between them; otherwise it misses a road.
        tk = ps.split(" ")
        mine = "ac" if w == "W" else "df"
        tk[6] = ",".join("_" if sq[0] in mine else sq for sq in tk[6].split(","))
        io2 = impl_out(ser.parse_pos(tk)).split(" ")
        other = "B" if w == "W" else "W"
        return "double-road-winner" if io2[:2] == [other, "ROAD"] else "road-missed"
    if wroad or broad:
        return "road-missed" if r != "ROAD" else "road-false"
    if r == "ROAD":
        return "road-false"
    if r == "FLATS" and sr == "FLATS":
        return "flat-count"
    return "game-end-condition"


def failing(ps):
    """(key, impl, spec) if the implementation's answer on `ps` is not the specification's, else None"""
    pos = ser.parse_pos(ps.split(" "))
    io = impl_out(pos)
    (so, facts), = spec_verdict([ps])
    if so == "bad-op":
        return None
    if io == so:
        return None
    return classify(ps, io, so, facts), io, so


def shrink(ps, key):
    """keep the failure class while emptying squares, dropping buried pieces, normalising
    reserves and ply"""
    toks = ps.split(" ")
    board = toks[6].split(",")

    def still(tk, b):
        f = failing(" ".join(tk[:6] + [",".join(b)]))
        return f is not None and f[0] == key

    for i in range(len(board)):
        if board[i] != "_":
            b2 = list(board)
            b2[i] = "_"
            if still(toks, b2):
                board = b2
    for i in range(len(board)):
        if len(board[i]) > 1:
            b2 = list(board)
            b2[i] = board[i][0]
            if still(toks, b2):
                board = b2
    parity = int(toks[5]) % 2
    for cand in ([toks[0], "5", "1", "5", "1", str(4 + parity)], toks[:5] + [str(4 + parity)], [toks[0], "5", "1", "5", "1", toks[5]]):
        if still(cand, board):
            toks = cand + [toks[6]]
            break
    return " ".join(toks[:6] + [",".join(board)])


def search(ctx, divergences, broken):
    pss = [d.input["pos"] for d in divergences]
    verdicts = spec_verdict(pss) if pss else []
    groups = {}
    for d, (so, facts) in zip(divergences, verdicts):
        if so != "bad-op" and d.impl != so:
            d.explained = True
            groups.setdefault(classify(d.input["pos"], d.impl, so, facts), []).append((d.input["pos"], d.impl, so))
    vs = []
    for key, lst in sorted(groups.items()):
        lst.sort(key=lambda c: (len(c[0]), c[0]))
        ps, io, so = lst[0]
        try:
            ps2 = shrink(ps, key)
            f = failing(ps2)
            if f is not None and f[0] == key:
                ps, io, so = ps2, f[1], f[2]
        except Exception:
            pass
        rp = {"pos": ps, "impl": io, "spec": so}
        what = "on pos=[%s] winner()+has_road() give [%s] but the specification (Spec.outcome / Spec.roadAnswer) gives [%s] (%d such positions in this run)" % (ps, io, so, len(lst))
        try:
            alone = failing(ps)
        except Exception:
            alone = None
        if alone is None:
            # asked on its own the position is adjudicated correctly: the wrong answer depends on
            # what was adjudicated earlier in the same interpreter; the replay is the run itself
            rp["history_dependent"] = True
            rp["rerun"] = {"seed": ctx.seed, "tier": ctx.tier}
            what += "; asked on its own the same position is adjudicated correctly - the answer depends on earlier calls in the same interpreter (replay = this run: VERIF_SEED=%d, tier %s)" % (ctx.seed, ctx.tier)
        vs.append(Violation(key, what, rp))
    return vs


def replay(ctx, data):
    r = data.get("replay", data)
    ps = r["pos"]
    if r.get("history_dependent"):
        import random

        ctx.seed = r["rerun"]["seed"]
        ctx.tier = r["rerun"]["tier"]
        ctx.rng = random.Random(ctx.seed * 1000003 + sum(map(ord, ctx.prop)))
        return search(ctx, tie(ctx), [])
    f = failing(ps)
    if f is None:
        return []
    key, io, so = f
    return [Violation(key, "pos=[%s] winner()+has_road() give [%s], the specification gives [%s]" % (ps, io, so), r)]

"""C09 — search output is the regularised policy of the tree statistics; moves are legal."""
import json
import math
from fractions import Fraction

from ..check import Divergence, Violation
from ..lib import driver, ser
from ..lib import treedump as td
from . import c08

ID = "C09"
LEAN_MODULES = ["TakVerif.Props.C09"]
NEEDS_EXT = True
NEEDS_STUBS = True
RULE = (
    "Same searches as C08 (real tak.mcts.MCTS, sizes 3..6, four evaluator families, budgets 1..400, root noise on/off, fresh "
    "and re-used trees). One evaluation = one call of tak_ext.solve_policy observed from outside (every call made during "
    "the searches, plus tree_probs at EVERY expanded node of every final tree), or one returned move. Checked: (a) the "
    "captured (pi_theta, q, lambda_n) equal Tree.policyArgs of the dumped node computed by the driver (prior exact; q exact "
    "after the same float64->float32 rounding for dyadic evaluators; lambda^2 to 1e-12 relative); (b) the returned tensor is "
    "finite, non-negative, sums to 1 within 1e-3+slack and is lambda*pi/(alpha-q) for ONE alpha above every q (driver op "
    "`tree formula`, exact rational arithmetic on the float values); (c) policy_probs of a node with simulations = 0 is the "
    "prior and the solver is not called (driver op `tree probs0`); (d) select_root_move over many draws and get_move return "
    "a move that Rules.Legal accepts in the searched position (driver op `move rules`). Non-trivial = a solver call with at "
    "least two children of which at least one visited; distinct by argument text."
)
TRUSTED = c08.TRUSTED + [
    "float rounding of q (float64 division, float32 tensor) and of lambda (float64 sqrt, float32 in the solver) is observed, not proved",
]
ASSUMPTIONS = c08.ASSUMPTIONS + [
    "the accuracy of the solver itself is C10's contract; here its output is only required to be the formula's value for one alpha",
]

RELTOL = Fraction(1, 10**5)
ULPS = 2  # the native solver's normaliser is a float32: the total can only be steered in steps of one ulp of alpha


def sum_tol(K):
    return Fraction(1, 1000) + Fraction(1, 10**4) + Fraction(2 * K, 10**7)


class Finding:
    def __init__(self, key, what, extra=None):
        self.key = key
        self.what = what
        self.extra = extra or {}


def _preorder_expanded(tree):
    out = []
    stack = [((), tree)]
    while stack:
        path, n = stack.pop()
        if n.children is not None:
            out.append((path, n))
            for i in range(len(n.children) - 1, -1, -1):
                stack.append((path + (i,), n.children[i]))
    return out


def _parse_args(text):
    toks = text.split(" ")
    assert toks[0] == "ok"
    cnt = int(toks[1])
    i = 2
    out = []
    for _ in range(cnt):
        pl = int(toks[i])
        path = tuple(int(x) for x in toks[i + 1 : i + 1 + pl])
        i += 1 + pl
        np_ = int(toks[i])
        prior = [td.parse_rat(x) for x in toks[i + 1 : i + 1 + np_]]
        i += 1 + np_
        K, N, lamsq = int(toks[i]), int(toks[i + 1]), td.parse_rat(toks[i + 2])
        i += 3
        q = [td.parse_rat(x) for x in toks[i : i + K]]
        i += K
        out.append({"path": path, "prior": prior, "K": K, "N": N, "lamsq": lamsq, "q": q})
    assert i == len(toks)
    return out


_HAS_CONTRACT = None


def has_contract_op():
    """worker C10's driver op `solver contract` (the solver's stated guarantee); when the linked
    driver does not have it, the local op `tree formula` is used instead"""
    global _HAS_CONTRACT
    if _HAS_CONTRACT is None:
        o = driver.run_lines(["solver contract native 3f800000 3f800000 | 00000000 | 3f800000"])[0]
        _HAS_CONTRACT = o != "bad-op"
    return _HAS_CONTRACT


def _hex32(t):
    import numpy as np
    import torch

    a = t.detach().cpu().contiguous().to(torch.float32).numpy().view(np.uint32).tolist()
    return " ".join("%08x" % v for v in a)


def _lam_hex(lam):
    import struct

    return struct.pack(">f", lam).hex()


def _call_regime(call):
    pi = call["pi"].tolist()
    q = call["q"].tolist()
    return "K=%d lambda=%.6g min_prior=%.3g max_prior=%.3g q_range=[%.4g,%.4g]" % (
        len(pi), call["lam"], min(pi) if pi else float("nan"), max(pi) if pi else float("nan"),
        min(q) if q else float("nan"), max(q) if q else float("nan"),
    )


def _call_replay(call):
    return {
        "pi": [td.rat(x) for x in call["pi"].tolist()],
        "q": [td.rat(x) for x in call["q"].tolist()],
        "lambda": call["lam"].hex(),
    }


def check_outputs(calls, ctx, findings, where, limit):
    """(b): finite / non-negative / formula for one alpha, on captured solver calls"""
    import torch

    lines, idx = [], []
    step = max(1, len(calls) // limit) if limit else 1
    for k, call in enumerate(calls):
        if ctx is not None:
            ctx.evaluated()
        if "error" in call:
            findings.append(Finding("not-formula", "solve_policy raised %s (%s) — %s" % (call["error"][:120], where, _call_regime(call)), {"solver_call": _call_replay(call)}))
            continue
        w = call["w"]
        ret = call.get("ret")
        if ret is not None and not (ret.shape == w.shape and bool(torch.equal(ret, w))):
            # collect-then-compare: the tensor handed out earlier is read again after later solver calls
            findings.append(
                Finding(
                    "not-formula",
                    "a reported distribution changed after it was reported (%s, call %d of %d): reported %s, the same tensor now reads %s — %s"
                    % (where, k + 1, len(calls), [("%.4g" % x) for x in w.tolist()[:6]], [("%.4g" % x) for x in ret.tolist()[:6]], _call_regime(call)),
                    {"solver_call": _call_replay(call)},
                )
            )
            if ctx is not None:
                ctx.count("solver:report-changed")
            continue
        if not bool(torch.isfinite(w).all()):
            findings.append(
                Finding(
                    "solver-nonfinite",
                    "solve_policy returned a non-finite weight (%s) — %s; output=%s" % (where, _call_regime(call), [("%.4g" % x) for x in w.tolist()[:8]]),
                    {"solver_call": _call_replay(call)},
                )
            )
            if ctx is not None:
                ctx.count("solver:nonfinite")
            continue
        if k % step:
            continue
        K = len(call["pi"])
        if ctx is not None:
            qs = call["q"].tolist()
            if K >= 2 and len(set(qs)) >= 2:
                ctx.nontrivial("%s|%s|%r" % (call["pi"].tolist(), qs, call["lam"]))
            ctx.count("solver:K>=30" if K >= 30 else "solver:K<30")
        if has_contract_op() and K >= 1:
            lines.append("solver contract native %s %s | %s | %s" % (_lam_hex(call["lam"]), _hex32(call["pi"]), _hex32(call["q"]), _hex32(w)))
            idx.append(k)
            continue
        lam32 = td.f32(call["lam"])
        lines.append(
            "tree formula %s %s %s %d %d %s %s %s"
            % (
                td.rat(lam32), td.rat(sum_tol(K)), td.rat(RELTOL), ULPS, K,
                " ".join(td.rat(x) for x in call["pi"].tolist()),
                " ".join(td.rat(x) for x in call["q"].tolist()),
                " ".join(td.rat(x) for x in w.tolist()),
            )
        )
        idx.append(k)
    outs = driver.run_lines(lines) if lines else []
    for k, o in zip(idx, outs):
        if o == "fail:domain":
            # a prior of exactly zero or lambda = 0: outside the solver's property (C10)
            if ctx is not None:
                ctx.count("solver:outside-domain")
            continue
        if o != "ok" and not o.startswith("ok "):
            call = calls[k]
            findings.append(
                Finding(
                    "not-formula",
                    "solve_policy output is not the formula's value [%s] (%s) — %s; output sum=%.6g"
                    % (o, where, _call_regime(call), float(call["w"].sum())),
                    {"solver_call": _call_replay(call)},
                )
            )


def _returned_moves_legal(res, ctx, findings, tree, whole, draws):
    """(d) of check_run: whatever index the sampler draws, the move handed back is legal"""
    import attrs
    from tak import mcts

    case = res.case
    rec, engine = res.rec, res.engine
    # (d) returned moves are legal
    moves = []
    rec.sampler_backup = rec.sampler
    roots = [t for t in ([tree] if tree is whole else [tree, whole]) if t.children]
    with rec:
        for k in range(draws if roots else 0):
            rec.sampler = ["torch", "uniform", "last", "first"][k % 4]
            t = roots[k % len(roots)]
            try:
                m = engine.select_root_move(t)
            except Exception as e:
                findings.append(Finding("illegal-move-returned", "select_root_move raised %s: %s" % (type(e).__name__, str(e)[:100])))
                break
            moves.append(("select_root_move", m, ser.pos_str(t.position)))
        # ... and EVERY outcome the sampler can draw with positive probability, one after the other
        swept = 0
        for t in roots:
            for k in range(min(len(t.children), 160)):
                rec.sampler = "nth:%d" % k
                try:
                    m = engine.select_root_move(t)
                except Exception:
                    break
                moves.append(("select_root_move(every outcome)", m, ser.pos_str(t.position)))
                swept += 1
    rec.sampler = rec.sampler_backup
    if case["budget"] <= 30 and case["evaluator"] != "network":
        ev2 = td.Recorder(td.make_evaluator(case), case["sampler"], case["sseed"] + 1)
        cfg = attrs.evolve(engine.config, simulation_limit=case["budget"])
        eng2 = mcts.MCTS(cfg, ev2)
        with ev2:
            try:
                moves.append(("get_move", eng2.get_move(res.pos), ser.pos_str(res.pos)))
            except Exception as e:
                check_outputs(ev2.solver_calls, ctx, findings, "during get_move", 10)
                if not any(f.key == "solver-nonfinite" for f in findings):
                    findings.append(Finding("illegal-move-returned", "get_move raised %s: %s" % (type(e).__name__, str(e)[:100])))
    # a search cut short by the clock before the root was even expanded: no move at all (an
    # exception) is not a wrong move, but whatever IS handed back must be legal
    if case["evaluator"] != "network":
        ev3 = td.Recorder(td.make_evaluator(case), case["sampler"], case["sseed"] + 2)
        eng3 = mcts.MCTS(attrs.evolve(engine.config, time_limit=1e-9, simulation_limit=max(1, case["budget"])), ev3)
        with ev3:
            for _ in range(3):
                try:
                    moves.append(("get_move(time_limit=1e-9)", eng3.get_move(res.pos), ser.pos_str(res.pos)))
                except Exception:
                    if ctx is not None:
                        ctx.count("move:no-move-when-the-clock-ran-out")
    lines = []
    for how, m, root_pos in moves:
        try:
            lines.append("move rules %s %s" % (root_pos, ser.move_str(m)))
        except Exception:
            lines.append("move rules %s 0 0 0 none" % root_pos)
    for (how, m, root_pos), o in zip(moves, driver.run_lines(lines) if lines else []):
        if ctx is not None:
            ctx.evaluated()
            ctx.count("move:" + how)
        if not o.startswith("legal "):
            findings.append(Finding("illegal-move-returned", "%s returned %r, which the rules do not allow in [%s] (driver: %s)" % (how, m, root_pos, o)))


def check_run(res, ctx=None, draws=12):
    import attrs
    import torch
    from tak import mcts

    case = res.case
    findings = []
    C = case["C"]
    rec, engine = res.rec, res.engine
    exact = td.is_exact(case)

    # (b) every solver call the search itself made
    search_calls = list(res.solver_calls)
    check_outputs(search_calls, ctx, findings, "during search", 40)
    if res.error is not None and ctx is not None:
        ctx.count("search-aborted")
    if res.tree is None or not res.phases or res.error is not None:
        if getattr(res, "unreadable", None) is not None and res.tree is not None:
            # the tree cannot be dumped (a child's position cannot be read): the moves it hands
            # back are still put to the rules
            try:
                _returned_moves_legal(res, ctx, findings, res.tree, res.tree, draws)
            except Exception as e:
                findings.append(Finding("illegal-move-returned", "asking the engine for a move on its own tree raised %s: %s" % (type(e).__name__, str(e)[:100])))
        return findings

    # the whole tree grown from the first root, as it stands NOW: when a child was searched on its own
    # afterwards (`descend` phases) its statistics moved without the ancestors being told, and every
    # node must still report the formula of its current statistics
    whole = res.root_tree if getattr(res, "root_tree", None) is not None else res.tree
    tree = res.tree
    try:
        dump = td.dump_tree(whole, rec.ev_of)
    except td.NonFinite:
        return findings
    root_pos = ser.pos_str(tree.position)

    # (a) arguments at every expanded node of that tree
    if case.get("report_C") is not None:
        engine.config.C = C = case["report_C"]
        if ctx is not None:
            ctx.count("C-changed-on-the-live-engine-before-reporting")
    nodes = _preorder_expanded(whole)
    rec.solver_calls = []
    outs_impl = []
    with rec:
        for path, node in nodes:
            n0 = len(rec.solver_calls)
            try:
                w = engine.tree_probs(node)
                err = None
            except Exception as e:
                w, err = None, "%s: %s" % (type(e).__name__, str(e)[:100])
            outs_impl.append((rec.solver_calls[n0:] , w, err))
    final_calls = list(rec.solver_calls)
    margs = _parse_args(driver.run_lines(["tree policyargs %s %s" % (td.rat(C), dump)])[0])
    if len(margs) != len(nodes):
        findings.append(Finding("solver-args", "model sees %d expanded nodes, implementation %d" % (len(margs), len(nodes))))
    for (path, node), (calls, w, err), ma in zip(nodes, outs_impl, margs):
        ps = td.path_str(path)
        if ma["path"] != path:
            findings.append(Finding("solver-args", "pre-order mismatch at %s" % ps))
            break
        if len(calls) != 1:
            findings.append(Finding("solver-args", "tree_probs at node %s made %d solver calls (visits=%d)%s" % (ps, len(calls), node.simulations, " raised " + err if err else ""), {"path": ps}))
            continue
        call = calls[0]
        pi = [Fraction(x) for x in call["pi"].tolist()]
        if pi != ma["prior"]:
            findings.append(Finding("solver-args", "node %s: pi_theta handed to the solver is not the node's child priors" % ps, {"path": ps}))
            continue
        q_impl = call["q"].tolist()
        if len(q_impl) != ma["K"]:
            findings.append(Finding("solver-args", "node %s: q has %d entries for %d children" % (ps, len(q_impl), ma["K"]), {"path": ps}))
            continue
        for i, (a, b) in enumerate(zip(q_impl, ma["q"])):
            want = td.f32(float(b))
            bad = (a != want) if exact else abs(a - float(b)) > 2e-6
            if bad:
                findings.append(
                    Finding(
                        "solver-args",
                        "node %s: q[%d] handed to the solver is %r, the formula names %s = %r (child visits=%d value=%r, node v0=%r)"
                        % (ps, i, a, b, want, node.children[i].simulations, node.children[i].value, node.v_zero),
                        {"path": ps},
                    )
                )
                break
        lam2 = Fraction(call["lam"]) ** 2
        if abs(lam2 - ma["lamsq"]) > Fraction(1, 10**12) * ma["lamsq"]:
            findings.append(
                Finding(
                    "solver-args",
                    "node %s: lambda_n=%r, squared %.15g; the formula names C^2*N/(N+K)^2 = %.15g (C=%s N=%d K=%d)"
                    % (ps, call["lam"], float(lam2), float(ma["lamsq"]), C, ma["N"], ma["K"]),
                    {"path": ps},
                )
            )
    check_outputs(final_calls, ctx, findings, "tree_probs on the final tree", 60)

    # (c) before any visit the answer is the prior
    sample = nodes[:: max(1, len(nodes) // 5)][:6]
    lines, impl_outs = [], []
    rec.solver_calls = []
    with rec:
        for path, node in sample:
            kids = [mcts.Node(position=c.position, move=c.move) for c in node.children]
            n0 = attrs.evolve(node, simulations=0, children=kids)
            before = len(rec.solver_calls)
            try:
                out = n0.policy_probs(C)
                io = "ok " + td.vec(td.tensor_list(out))
            except Exception as e:
                io = "crash " + type(e).__name__
            if len(rec.solver_calls) != before:
                io = "needs-solver"
            impl_outs.append(io)
            lines.append("tree probs0 %s %s" % (td.rat(C), td.dump_tree(n0, rec.ev_of)))
    for (path, node), io, mo in zip(sample, impl_outs, driver.run_lines(lines) if lines else []):
        if ctx is not None:
            ctx.evaluated()
            ctx.count("unvisited-probe")
        a = io.split(" ")
        b = mo.split(" ")
        same = a[0] == b[0] == "ok" and td._parse_vec(a, 1)[0] == td._parse_vec(b, 1)[0]
        if not same:
            findings.append(Finding("unvisited-not-prior", "policy_probs of node %s with simulations=0: implementation [%s], model (the prior) [%s]" % (td.path_str(path), io[:80], mo[:80]), {"path": td.path_str(path)}))

    _returned_moves_legal(res, ctx, findings, tree, whole, draws)
    return findings


# ------------------------------------------------------------------ one engine, many positions

def plan_sessions(ctx):
    """An engine object is asked for moves on several positions during its lifetime.  `mixed`:
    unrelated positions (different games, sizes, reserve configurations).  `hop`: two games that
    were played with the same moves but under different reserve configurations; the engine is asked
    alternately about one and the other as they advance by its own move and a reply — where possible a
    reply the engine has already looked at during its last search (observed through the evaluator
    wrapper), as an opponent playing an expected move would — so consecutive requests are two plies
    apart and look alike on the board."""
    rng = ctx.rng
    out = []
    n_mixed, n_hop = (10, 50) if ctx.thorough else (3, 12)
    for _ in range(n_mixed):
        reqs = []
        for _ in range(rng.randrange(3, 6)):
            size = rng.choice([3, 3, 4, 5])
            reqs.append(ser.pos_str(rng.choice(td.start_positions(rng, size, 3, custom_prob=0.5))))
        out.append({"kind": "mixed", "requests": reqs, "evaluator": rng.choice(["uniform", "random"]), "eseed": rng.randrange(1 << 30),
                    "budget": rng.choice([5, 20, 50]), "C": rng.choice([4, 1.5]), "sseed": rng.randrange(1 << 30), "cutoff": 1e-6})
    for _ in range(n_hop):
        size = rng.choice([3, 3, 3, 4])
        std_caps = {3: 0, 4: 0, 5: 1}[size]
        # the same moves played under two reserve configurations: generous against meagre, or many
        # flats and no capstone against few flats and capstones (each allows moves the other does not)
        if rng.random() < 0.4:
            a = {"size": size, "pieces": rng.choice([None, 12, 20]), "capstones": rng.choice([1, 2, 2])}
            b = {"size": size, "pieces": rng.choice([3, 4, 5, None]), "capstones": rng.choice([0, 0, 0, 1])}
        else:
            a = {"size": size, "pieces": rng.choice([None, 12]), "capstones": 0}
            b = {"size": size, "pieces": rng.choice([2, 3, 3, 4]), "capstones": rng.choice([1, 2])}
            if rng.random() < 0.5:
                a, b = b, a
        out.append({"kind": "hop", "configs": [a, b], "opening": rng.choice([2, 3, 4, 5, 6, 8]), "steps": rng.randrange(3, 6),
                    "evaluator": rng.choice(["uniform", "uniform", "random"]), "eseed": rng.randrange(1 << 30),
                    "budget": rng.choice([40, 100, 200] if size == 3 else [60, 150]), "C": rng.choice([4, 1.5]),
                    "sseed": rng.randrange(1 << 30), "cutoff": 1e-6})
    # an analysis tool looking at sibling variations of one game with one engine: S+a+m, S+b+m,
    # S+c+m, ... (placements commute, so the trees of the variations share positions reached by
    # other move orders); every move the engine can hand back at a variation's root is legal THERE
    for _ in range(6 if ctx.thorough else 2):
        size = rng.choice([3, 3, 4])
        out.append({"kind": "variations", "size": size, "opening": rng.choice([2, 3, 4]), "n": rng.choice([3, 4, 5]),
                    "evaluator": "uniform", "eseed": rng.randrange(1 << 30), "budget": rng.choice([30, 80]), "C": 4,
                    "sseed": rng.randrange(1 << 30), "cutoff": 1e-6})
    return out


def run_session(sess, ctx=None):
    """returns findings; every returned move is judged by the driver (`move rules`)"""
    import random

    import tak
    import torch
    from tak import mcts

    findings = []
    rng = random.Random(sess["sseed"])
    torch.manual_seed(sess["sseed"])
    case = {"evaluator": sess["evaluator"], "eseed": sess["eseed"], "cutoff": sess["cutoff"]}
    rec = td.Recorder(td.make_evaluator(case), "torch", sess["sseed"])
    rec.capture_solver = False
    rec.seen_texts = set()
    engine = mcts.MCTS(mcts.Config(time_limit=0, simulation_limit=sess["budget"], C=sess["C"], cutoff_prob=sess["cutoff"]), rec)
    asked = []  # (pos text, move or exception text)

    def ask(pos):
        before = ser.pos_str(pos)
        try:
            m = engine.get_move(pos)
        except Exception as e:
            asked.append((before, None, "%s: %s" % (type(e).__name__, str(e)[:120])))
            return None
        asked.append((before, m, None))
        if ser.pos_str(pos) != before:
            findings.append(Finding("illegal-move-returned", "get_move changed the position it was asked about: [%s] -> [%s]" % (before, ser.pos_str(pos))))
        return m

    with rec:
        if sess["kind"] == "mixed":
            for ps in sess["requests"]:
                ask(ser.parse_pos(ps.split(" ")))
        elif sess["kind"] == "variations":
            F = tak.MoveType.PLACE_FLAT
            base = tak.Position.from_config(tak.Config(size=sess["size"]))
            for _ in range(sess["opening"]):
                empties = [(x, y) for x in range(base.size) for y in range(base.size) if not base[x, y]]
                x, y = rng.choice(empties)
                base = base.move(tak.Move(x, y, F))
            empties = [(x, y) for x in range(base.size) for y in range(base.size) if not base[x, y]]
            rng.shuffle(empties)
            (mx, my), firsts = empties[0], empties[1: 1 + sess["n"]]
            for (x, y) in firsts:
                try:
                    root = base.move(tak.Move(x, y, F)).move(tak.Move(mx, my, F))
                except tak.IllegalMove:
                    continue
                if root.winner()[1] is not None:
                    continue
                before = ser.pos_str(root)
                try:
                    tree = engine.analyze(root)
                    for _ in range(12):
                        asked.append((before, engine.select_root_move(tree), None))
                except Exception as e:
                    asked.append((before, None, "%s: %s" % (type(e).__name__, str(e)[:120])))
                ask(root)
        else:
            cfgs = [tak.Config(size=c["size"], pieces=c["pieces"], capstones=c["capstones"]) for c in sess["configs"]]

            def both(history):
                ps = [td.replay_history(c, history) for c in cfgs]
                if any(p is None or p.winner()[1] is not None or not td.legal_ids(p) for p in ps):
                    return None
                return ps

            def common_moves(ps):
                out = []
                for m in ps[0].all_moves():
                    try:
                        for p in ps:
                            p.move(m)
                    except tak.IllegalMove:
                        continue
                    out.append(m)
                return out

            history = []
            ok = True
            for _ in range(sess["opening"]):
                ps = both(history)
                cm = common_moves(ps) if ps else []
                if not cm:
                    ok = False
                    break
                history.append(rng.choice(cm))
            for step in range(sess["steps"] if ok else 0):
                ps = both(history)
                if ps is None:
                    break
                m = ask(ps[step % 2])
                cm = common_moves(ps)
                if not cm:
                    break
                history.append(m if m in cm else rng.choice(cm))
                ps = both(history)
                cm = common_moves(ps) if ps else []
                if not cm:
                    break
                asked_pos = ps[step % 2]
                expected = [r for r in cm if ser.pos_str(asked_pos.move(r)) in rec.seen_texts]
                history.append(rng.choice(expected) if expected and rng.random() < 0.85 else rng.choice(cm))
                rec.seen_texts = set()
    lines, idx = [], []
    for k, (ps, m, err) in enumerate(asked):
        if ctx is not None:
            ctx.evaluated()
            ctx.count("session-request:" + sess["kind"])
        if err is not None:
            findings.append(Finding("illegal-move-returned", "request %d of the session: get_move raised %s on [%s]" % (k, err, ps)))
            continue
        try:
            lines.append("move rules %s %s" % (ps, ser.move_str(m)))
            idx.append(k)
        except Exception:
            findings.append(Finding("illegal-move-returned", "request %d of the session: get_move returned %r on [%s]" % (k, m, ps)))
    for k, o in zip(idx, driver.run_lines(lines) if lines else []):
        if not o.startswith("legal "):
            ps, m, _ = asked[k]
            findings.append(
                Finding(
                    "illegal-move-returned",
                    "request %d of %d on ONE engine object: get_move returned %s, which the rules do not allow in [%s] (driver: %s); earlier requests: %s"
                    % (k, len(asked), ser.move_str(m), ps, o, [a[0] for a in asked[:k]]),
                )
            )
    return findings


def session_label(sess):
    d = {k: v for k, v in sess.items() if k != "requests"}
    return "session " + json.dumps(d, sort_keys=True)


def tie(ctx):
    td.single_thread()
    divs = []
    store = []
    sess_store = []
    for sess in plan_sessions(ctx):
        ctx.count("session:" + sess["kind"])
        for f in run_session(sess, ctx):
            sess_store.append((sess, f))
            divs.append(Divergence("corr.tree+solver", {"session": sess}, f.what, "ok"))
    tie.sess_store = sess_store
    def wide_roots():
        # roots with more than 256 children (two stacks of six in the middle of a 6x6 board: ~340 legal
        # moves): buffers sized for "any reasonable number of moves" end here
        import tak
        from tak import pieces as _pc

        for k in range(2 if ctx.thorough else 1):
            board = [[] for _ in range(36)]
            for (x, y) in ((2, 2), (3, 3)):
                board[x + 6 * y] = [_pc.Piece.cached(_pc.Color.WHITE, _pc.Kind.FLAT)] + [
                    _pc.Piece.cached(_pc.Color(ctx.rng.randrange(2)), _pc.Kind.FLAT) for _ in range(5 + k)]
            pos = tak.Position(size=6, stones=(tak.StoneCounts(20, 1), tak.StoneCounts(22, 1)), ply=14, board=board)
            c = td.make_case(ctx.rng, 6, pos, "uniform", 3 + k, False, None, None)
            c["dump"] = False
            yield c

    import itertools

    for case in itertools.chain(wide_roots(), c08.plan(ctx, scale=0.8)):
        ctx.count("evaluator:" + case["evaluator"])
        ctx.count("size:%d" % case["size"])
        res = td.run_case(case)
        findings = check_run(res, ctx)
        if res.phases:
            ctx.sample({"case": c08.case_label(case), "solver_calls_during_search": len(res.solver_calls)})
        for f in findings:
            store.append((case, f))
            divs.append(Divergence("corr.tree+solver", {"case": case, **f.extra}, f.what, "ok"))
        if ctx.elapsed() > (560 if ctx.thorough else 200):
            ctx.note("time budget reached; remaining cases skipped")
            break
    tie.store = store
    return divs


def search(ctx, divergences, broken):
    """Every finding above IS the property predicate (formula / args / legality evaluated by the
    driver on implementation data) failing on a concrete case, so each class becomes a violation
    with the smallest case seen."""
    store = getattr(tie, "store", [])
    by_key = {}
    for case, f in store:
        by_key.setdefault(f.key, []).append((case, f))
    for d in divergences:
        d.explained = True
    vs = []
    for key, lst in sorted(by_key.items()):
        lst.sort(key=lambda cf: (cf[0]["budget"] + (cf[0]["reuse"] or 0), cf[0]["size"]))
        case, f = lst[0]
        # smaller budget if the same class still shows
        for n in [1, 2, 3, 5, 8, 13, 21]:
            if n >= case["budget"]:
                break
            c = dict(case, budget=n, reuse=None)
            try:
                fs = check_run(td.run_case(c))
            except Exception:
                continue
            g = [x for x in fs if x.key == key]
            if g:
                case, f = c, g[0]
                break
        vs.append(Violation(key, "%s — %s (%d such findings in this run)" % (f.what, c08.case_label(case), len(lst)), {"case": case, "key": key, **f.extra}))
    sess_store = getattr(tie, "sess_store", [])
    if sess_store:
        sess_store.sort(key=lambda sf: (sf[0].get("steps", len(sf[0].get("requests", []))), sf[0]["budget"]))
        sess, f = sess_store[0]
        # fewer steps / smaller budget while the session still returns an illegal move
        for cand in [dict(sess, steps=2), dict(sess, steps=2, budget=max(20, sess["budget"] // 2))] if sess["kind"] == "hop" else []:
            try:
                g = run_session(cand)
            except Exception:
                continue
            if g:
                sess, f = cand, g[0]
        vs.append(Violation("illegal-move-returned", "%s — %s (%d such findings in this run)" % (f.what, session_label(sess), len(sess_store)), {"session": sess, "key": "illegal-move-returned"}))
    if broken and not vs:
        for case in c08.plan(ctx, scale=0.4):
            for f in check_run(td.run_case(case), ctx):
                vs.append(Violation(f.key, "%s — %s" % (f.what, c08.case_label(case)), {"case": case, "key": f.key, **f.extra}))
            if vs:
                break
    return vs


def replay(ctx, data):
    r = data.get("replay", data)
    out = []
    if "case" in r:
        case = r["case"]
        for f in check_run(td.run_case(case), ctx):
            out.append(Violation(f.key, "%s — %s" % (f.what, c08.case_label(case)), r))
    elif "session" in r:
        for f in run_session(r["session"], ctx):
            out.append(Violation(f.key, "%s — %s" % (f.what, session_label(r["session"])), r))
    elif "solver_call" in r:
        # a bare solver input (the regime in which the native solver returns inf): replayed directly
        import tak_ext
        import torch

        sc = r["solver_call"]
        pi = torch.tensor([float(td.parse_rat(x)) for x in sc["pi"]], dtype=torch.float32)
        q = torch.tensor([float(td.parse_rat(x)) for x in sc["q"]], dtype=torch.float32)
        lam = float.fromhex(sc["lambda"])
        call = {"pi": pi, "q": q, "lam": lam}
        try:
            call["w"] = tak_ext.solve_policy(pi, q, lam)
        except Exception as e:
            call["error"] = "%s: %s" % (type(e).__name__, e)
        fs = []
        check_outputs([call], ctx, fs, "corpus solver input", 1)
        out = [Violation(f.key, f.what, r) for f in fs]
    return out

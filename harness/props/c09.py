"""C09 — search output is the regularised policy of the tree statistics; moves are legal."""
import json
import math
from fractions import Fraction

from ..check import Divergence, Violation
from ..lib import driver, ser
from ..lib import treedump as td
from . import c08

ID = "C09"
LEAN_MODULES = ["TakVerif.Props.C09"]
NEEDS_EXT = True
NEEDS_STUBS = True
RULE = (
    "Same searches as C08 (real tak.mcts.MCTS, sizes 3..6, four evaluator families, budgets 1..400, root noise on/off, fresh "
    "and re-used trees). One evaluation = one call of tak_ext.solve_policy observed from outside (every call made during "
    "the searches, plus tree_probs at EVERY expanded node of every final tree), or one returned move. Checked: (a) the "
    "captured (pi_theta, q, lambda_n) equal Tree.policyArgs of the dumped node computed by the driver (prior exact; q exact "
    "after the same float64->float32 rounding for dyadic evaluators; lambda^2 to 1e-12 relative); (b) the returned tensor is "
    "finite, non-negative, sums to 1 within 1e-3+slack and is lambda*pi/(alpha-q) for ONE alpha above every q (driver op "
    "`tree formula`, exact rational arithmetic on the float values); (c) policy_probs of a node with simulations = 0 is the "
    "prior and the solver is not called (driver op `tree probs0`); (d) select_root_move over many draws and get_move return "
    "a move that Rules.Legal accepts in the searched position (driver op `move rules`). Non-trivial = a solver call with at "
    "least two children of which at least one visited; distinct by argument text."
)
TRUSTED = c08.TRUSTED + [
    "float rounding of q (float64 division, float32 tensor) and of lambda (float64 sqrt, float32 in the solver) is observed, not proved",
]
ASSUMPTIONS = c08.ASSUMPTIONS + [
    "the accuracy of the solver itself is C10's contract; here its output is only required to be the formula's value for one alpha",
]

RELTOL = Fraction(1, 10**5)
ULPS = 2  # the native solver's normaliser is a float32: the total can only be steered in steps of one ulp of alpha


def sum_tol(K):
    return Fraction(1, 1000) + Fraction(1, 10**4) + Fraction(2 * K, 10**7)


class Finding:
    def __init__(self, key, what, extra=None):
        self.key = key
        self.what = what
        self.extra = extra or {}


def _preorder_expanded(tree):
    out = []
    stack = [((), tree)]
    while stack:
        path, n = stack.pop()
        if n.children is not None:
            out.append((path, n))
            for i in range(len(n.children) - 1, -1, -1):
                stack.append((path + (i,), n.children[i]))
    return out


def _parse_args(text):
    toks = text.split(" ")
    assert toks[0] == "ok"
    cnt = int(toks[1])
    i = 2
    out = []
    for _ in range(cnt):
        pl = int(toks[i])
        path = tuple(int(x) for x in toks[i + 1 : i + 1 + pl])
        i += 1 + pl
        np_ = int(toks[i])
        prior = [td.parse_rat(x) for x in toks[i + 1 : i + 1 + np_]]
        i += 1 + np_
        K, N, lamsq = int(toks[i]), int(toks[i + 1]), td.parse_rat(toks[i + 2])
        i += 3
        q = [td.parse_rat(x) for x in toks[i : i + K]]
        i += K
        out.append({"path": path, "prior": prior, "K": K, "N": N, "lamsq": lamsq, "q": q})
    assert i == len(toks)
    return out


_HAS_CONTRACT = None


def has_contract_op():
    """worker C10's driver op `solver contract` (the solver's stated guarantee); when the linked
    driver does not have it, the local op `tree formula` is used instead"""
    global _HAS_CONTRACT
    if _HAS_CONTRACT is None:
        o = driver.run_lines(["solver contract native 3f800000 3f800000 | 00000000 | 3f800000"])[0]
        _HAS_CONTRACT = o != "bad-op"
    return _HAS_CONTRACT


def _hex32(t):
    import numpy as np
    import torch

    a = t.detach().cpu().contiguous().to(torch.float32).numpy().view(np.uint32).tolist()
    return " ".join("%08x" % v for v in a)


def _lam_hex(lam):
    import struct

    return struct.pack(">f", lam).hex()


def _call_regime(call):
    pi = call["pi"].tolist()
    q = call["q"].tolist()
    return "K=%d lambda=%.6g min_prior=%.3g max_prior=%.3g q_range=[%.4g,%.4g]" % (
        len(pi), call["lam"], min(pi) if pi else float("nan"), max(pi) if pi else float("nan"),
        min(q) if q else float("nan"), max(q) if q else float("nan"),
    )


def _call_replay(call):
    return {
        "pi": [td.rat(x) for x in call["pi"].tolist()],
        "q": [td.rat(x) for x in call["q"].tolist()],
        "lambda": call["lam"].hex(),
    }


def check_outputs(calls, ctx, findings, where, limit):
    """(b): finite / non-negative / formula for one alpha, on captured solver calls"""
    import torch

    lines, idx = [], []
    step = max(1, len(calls) // limit) if limit else 1
    for k, call in enumerate(calls):
        if ctx is not None:
            ctx.evaluated()
        if "error" in call:
            findings.append(Finding("not-formula", "solve_policy raised %s (%s) — %s" % (call["error"][:120], where, _call_regime(call)), {"solver_call": _call_replay(call)}))
            continue
        w = call["w"]
        if not bool(torch.isfinite(w).all()):
            findings.append(
                Finding(
                    "solver-nonfinite",
                    "solve_policy returned a non-finite weight (%s) — %s; output=%s" % (where, _call_regime(call), [("%.4g" % x) for x in w.tolist()[:8]]),
                    {"solver_call": _call_replay(call)},
                )
            )
            if ctx is not None:
                ctx.count("solver:nonfinite")
            continue
        if k % step:
            continue
        K = len(call["pi"])
        if ctx is not None:
            qs = call["q"].tolist()
            if K >= 2 and len(set(qs)) >= 2:
                ctx.nontrivial("%s|%s|%r" % (call["pi"].tolist(), qs, call["lam"]))
            ctx.count("solver:K>=30" if K >= 30 else "solver:K<30")
        if has_contract_op() and K >= 1:
            lines.append("solver contract native %s %s | %s | %s" % (_lam_hex(call["lam"]), _hex32(call["pi"]), _hex32(call["q"]), _hex32(w)))
            idx.append(k)
            continue
        lam32 = td.f32(call["lam"])
        lines.append(
            "tree formula %s %s %s %d %d %s %s %s"
            % (
                td.rat(lam32), td.rat(sum_tol(K)), td.rat(RELTOL), ULPS, K,
                " ".join(td.rat(x) for x in call["pi"].tolist()),
                " ".join(td.rat(x) for x in call["q"].tolist()),
                " ".join(td.rat(x) for x in w.tolist()),
            )
        )
        idx.append(k)
    outs = driver.run_lines(lines) if lines else []
    for k, o in zip(idx, outs):
        if o == "fail:domain":
            # a prior of exactly zero or lambda = 0: outside the solver's property (C10)
            if ctx is not None:
                ctx.count("solver:outside-domain")
            continue
        if o != "ok" and not o.startswith("ok "):
            call = calls[k]
            findings.append(
                Finding(
                    "not-formula",
                    "solve_policy output is not the formula's value [%s] (%s) — %s; output sum=%.6g"
                    % (o, where, _call_regime(call), float(call["w"].sum())),
                    {"solver_call": _call_replay(call)},
                )
            )


def check_run(res, ctx=None, draws=12):
    import attrs
    import torch
    from tak import mcts

    case = res.case
    findings = []
    C = case["C"]
    rec, engine = res.rec, res.engine
    exact = td.is_exact(case)

    # (b) every solver call the search itself made
    search_calls = list(res.solver_calls)
    check_outputs(search_calls, ctx, findings, "during search", 40)
    if res.error is not None and ctx is not None:
        ctx.count("search-aborted")
    if res.tree is None or not res.phases or res.error is not None:
        return findings

    tree = res.tree
    dump = res.phases[-1]["dump"]
    root_pos = ser.pos_str(tree.position)

    # (a) arguments at every expanded node of the final tree
    nodes = _preorder_expanded(tree)
    rec.solver_calls = []
    outs_impl = []
    with rec:
        for path, node in nodes:
            n0 = len(rec.solver_calls)
            try:
                w = engine.tree_probs(node)
                err = None
            except Exception as e:
                w, err = None, "%s: %s" % (type(e).__name__, str(e)[:100])
            outs_impl.append((rec.solver_calls[n0:] , w, err))
    final_calls = list(rec.solver_calls)
    margs = _parse_args(driver.run_lines(["tree policyargs %s %s" % (td.rat(C), dump)])[0])
    if len(margs) != len(nodes):
        findings.append(Finding("solver-args", "model sees %d expanded nodes, implementation %d" % (len(margs), len(nodes))))
    for (path, node), (calls, w, err), ma in zip(nodes, outs_impl, margs):
        ps = td.path_str(path)
        if ma["path"] != path:
            findings.append(Finding("solver-args", "pre-order mismatch at %s" % ps))
            break
        if len(calls) != 1:
            findings.append(Finding("solver-args", "tree_probs at node %s made %d solver calls (visits=%d)%s" % (ps, len(calls), node.simulations, " raised " + err if err else ""), {"path": ps}))
            continue
        call = calls[0]
        pi = [Fraction(x) for x in call["pi"].tolist()]
        if pi != ma["prior"]:
            findings.append(Finding("solver-args", "node %s: pi_theta handed to the solver is not the node's child priors" % ps, {"path": ps}))
            continue
        q_impl = call["q"].tolist()
        if len(q_impl) != ma["K"]:
            findings.append(Finding("solver-args", "node %s: q has %d entries for %d children" % (ps, len(q_impl), ma["K"]), {"path": ps}))
            continue
        for i, (a, b) in enumerate(zip(q_impl, ma["q"])):
            want = td.f32(float(b))
            bad = (a != want) if exact else abs(a - float(b)) > 2e-6
            if bad:
                findings.append(
                    Finding(
                        "solver-args",
                        "node %s: q[%d] handed to the solver is %r, the formula names %s = %r (child visits=%d value=%r, node v0=%r)"
                        % (ps, i, a, b, want, node.children[i].simulations, node.children[i].value, node.v_zero),
                        {"path": ps},
                    )
                )
                break
        lam2 = Fraction(call["lam"]) ** 2
        if abs(lam2 - ma["lamsq"]) > Fraction(1, 10**12) * ma["lamsq"]:
            findings.append(
                Finding(
                    "solver-args",
                    "node %s: lambda_n=%r, squared %.15g; the formula names C^2*N/(N+K)^2 = %.15g (C=%s N=%d K=%d)"
                    % (ps, call["lam"], float(lam2), float(ma["lamsq"]), C, ma["N"], ma["K"]),
                    {"path": ps},
                )
            )
    check_outputs(final_calls, ctx, findings, "tree_probs on the final tree", 60)

    # (c) before any visit the answer is the prior
    sample = nodes[:: max(1, len(nodes) // 5)][:6]
    lines, impl_outs = [], []
    rec.solver_calls = []
    with rec:
        for path, node in sample:
            kids = [mcts.Node(position=c.position, move=c.move) for c in node.children]
            n0 = attrs.evolve(node, simulations=0, children=kids)
            before = len(rec.solver_calls)
            try:
                out = n0.policy_probs(C)
                io = "ok " + td.vec(td.tensor_list(out))
            except Exception as e:
                io = "crash " + type(e).__name__
            if len(rec.solver_calls) != before:
                io = "needs-solver"
            impl_outs.append(io)
            lines.append("tree probs0 %s %s" % (td.rat(C), td.dump_tree(n0, rec.ev_of)))
    for (path, node), io, mo in zip(sample, impl_outs, driver.run_lines(lines) if lines else []):
        if ctx is not None:
            ctx.evaluated()
            ctx.count("unvisited-probe")
        a = io.split(" ")
        b = mo.split(" ")
        same = a[0] == b[0] == "ok" and td._parse_vec(a, 1)[0] == td._parse_vec(b, 1)[0]
        if not same:
            findings.append(Finding("unvisited-not-prior", "policy_probs of node %s with simulations=0: implementation [%s], model (the prior) [%s]" % (td.path_str(path), io[:80], mo[:80]), {"path": td.path_str(path)}))

    # (d) returned moves are legal
    moves = []
    rec.sampler_backup = rec.sampler
    with rec:
        for k in range(draws):
            rec.sampler = ["torch", "uniform", "last", "first"][k % 4]
            try:
                m = engine.select_root_move(tree)
            except Exception as e:
                findings.append(Finding("illegal-move-returned", "select_root_move raised %s: %s" % (type(e).__name__, str(e)[:100])))
                break
            moves.append(("select_root_move", m))
    rec.sampler = rec.sampler_backup
    if case["budget"] <= 30 and case["evaluator"] != "network":
        ev2 = td.Recorder(td.make_evaluator(case), case["sampler"], case["sseed"] + 1)
        cfg = attrs.evolve(engine.config, simulation_limit=case["budget"])
        eng2 = mcts.MCTS(cfg, ev2)
        with ev2:
            try:
                moves.append(("get_move", eng2.get_move(res.pos)))
            except Exception as e:
                check_outputs(ev2.solver_calls, ctx, findings, "during get_move", 10)
                if not any(f.key == "solver-nonfinite" for f in findings):
                    findings.append(Finding("illegal-move-returned", "get_move raised %s: %s" % (type(e).__name__, str(e)[:100])))
    lines = []
    for how, m in moves:
        try:
            lines.append("move rules %s %s" % (root_pos, ser.move_str(m)))
        except Exception:
            lines.append("move rules %s 0 0 0 none" % root_pos)
    for (how, m), o in zip(moves, driver.run_lines(lines) if lines else []):
        if ctx is not None:
            ctx.evaluated()
            ctx.count("move:" + how)
        if not o.startswith("legal "):
            findings.append(Finding("illegal-move-returned", "%s returned %r, which the rules do not allow in [%s] (driver: %s)" % (how, m, root_pos, o)))
    return findings


def tie(ctx):
    td.single_thread()
    divs = []
    store = []
    for case in c08.plan(ctx, scale=0.8):
        ctx.count("evaluator:" + case["evaluator"])
        ctx.count("size:%d" % case["size"])
        res = td.run_case(case)
        findings = check_run(res, ctx)
        if res.phases:
            ctx.sample({"case": c08.case_label(case), "solver_calls_during_search": len(res.solver_calls)})
        for f in findings:
            store.append((case, f))
            divs.append(Divergence("corr.tree+solver", {"case": case, **f.extra}, f.what, "ok"))
        if ctx.elapsed() > (560 if ctx.thorough else 80):
            ctx.note("time budget reached; remaining cases skipped")
            break
    tie.store = store
    return divs


def search(ctx, divergences, broken):
    """Every finding above IS the property predicate (formula / args / legality evaluated by the
    driver on implementation data) failing on a concrete case, so each class becomes a violation
    with the smallest case seen."""
    store = getattr(tie, "store", [])
    by_key = {}
    for case, f in store:
        by_key.setdefault(f.key, []).append((case, f))
    for d in divergences:
        d.explained = True
    vs = []
    for key, lst in sorted(by_key.items()):
        lst.sort(key=lambda cf: (cf[0]["budget"] + (cf[0]["reuse"] or 0), cf[0]["size"]))
        case, f = lst[0]
        # smaller budget if the same class still shows
        for n in [1, 2, 3, 5, 8, 13, 21]:
            if n >= case["budget"]:
                break
            c = dict(case, budget=n, reuse=None)
            try:
                fs = check_run(td.run_case(c))
            except Exception:
                continue
            g = [x for x in fs if x.key == key]
            if g:
                case, f = c, g[0]
                break
        vs.append(Violation(key, "%s — %s (%d such findings in this run)" % (f.what, c08.case_label(case), len(lst)), {"case": case, "key": key, **f.extra}))
    if broken and not vs:
        for case in c08.plan(ctx, scale=0.4):
            for f in check_run(td.run_case(case), ctx):
                vs.append(Violation(f.key, "%s — %s" % (f.what, c08.case_label(case)), {"case": case, "key": f.key, **f.extra}))
            if vs:
                break
    return vs


def replay(ctx, data):
    r = data.get("replay", data)
    out = []
    if "case" in r:
        case = r["case"]
        for f in check_run(td.run_case(case), ctx):
            out.append(Violation(f.key, "%s — %s" % (f.what, c08.case_label(case)), r))
    elif "solver_call" in r:
        # a bare solver input (the regime in which the native solver returns inf): replayed directly
        import tak_ext
        import torch

        sc = r["solver_call"]
        pi = torch.tensor([float(td.parse_rat(x)) for x in sc["pi"]], dtype=torch.float32)
        q = torch.tensor([float(td.parse_rat(x)) for x in sc["q"]], dtype=torch.float32)
        lam = float.fromhex(sc["lambda"])
        call = {"pi": pi, "q": q, "lam": lam}
        try:
            call["w"] = tak_ext.solve_policy(pi, q, lam)
        except Exception as e:
            call["error"] = "%s: %s" % (type(e).__name__, e)
        fs = []
        check_outputs([call], ctx, fs, "corpus solver input", 1)
        out = [Violation(f.key, f.what, r) for f in fs]
    return out

"""C12 — training batches say what the transcripts say; de-duplication averages."""
from fractions import Fraction

from ..check import Divergence, Violation
from ..lib import driver, gen, ser

ID = "C12"
LEAN_MODULES = ["TakVerif.Props.C12"]
NEEDS_EXT = True
NEEDS_STUBS = True
RULE = (
    "encode_games: lists of 1..6 transcripts, each from a real random game (sizes 3..6, six play policies, a prefix "
    "of the game incl. 1-position games; candidates = a duplicate-free subset of the legal moves of the real position) or "
    "synthetic (constructed positions, candidates from the size's move table), with literal repeats and transpositions "
    "inside and across games; probabilities dyadic k/2^m summing to 1, values dyadic; compared row for row "
    "(tokens, mask, dense policy row, value, label) with Batch.encodeGames, exactly. "
    "dedup_batch: batches built with encode_batch from mixed-size positions, rows duplicated / permuted at random, "
    "padding content and padding width varied, uint8 and int64 tokens, 1-3 target columns of dyadic float32; "
    "order/tokens/mask compared exactly with Batch.dedupBatch, targets exactly when every count is a power of two and "
    "to 1e-6 relative otherwise. One evaluation = one encode_games call or one dedup_batch call. Non-trivial = a batch "
    "with at least one repeated key, or a game list with >= 2 games / a repeated position; distinct by serialised input."
)
TRUSTED = [
    "modelled, not verified: torch tensor indexing / cat / zeros_like / boolean-mask indexing, numpy view assignment, "
    "float32 arithmetic on dyadic values (exact), attrs classes",
    "the token encoding inside Batch.encodeGames is the local copy Batch.encodeTokens of encoding.encode (C06 owns encode)",
]
ASSUMPTIONS = [
    "transcripts have >= 1 position and one candidate list / probability vector / value per position; transcript lists are non-empty "
    "(positions[0] / torch.cat([]) raise otherwise; a self-played game always has a position)",
    "candidate lists carry no move twice (a repeated candidate keeps the later probability) and board sizes are 3..6 (MOVES_BY_SIZE)",
    "reserves inside the token vocabulary (0 <= stones < 50, 0 <= capstones < 2)",
]

TOL = Fraction(1, 10**6)


# ------------------------------------------------------------------ serialisation


HUGE = 10**30  # stands for a non-finite float (inf/nan) in implementation output: never a mean of the inputs


def frac(x):
    x = float(x)
    if x != x or x in (float("inf"), float("-inf")):
        return "%d/1" % (-HUGE if x < 0 else HUGE)
    f = Fraction(x)
    return "%d/%d" % (f.numerator, f.denominator)


def fracs(xs):
    xs = list(xs)
    return ";".join(frac(x) for x in xs) if xs else "*"


def move_c(m):
    if m.slides is None:
        s = "none"
    elif len(m.slides) == 0:
        s = "-"
    else:
        s = ".".join(str(d) for d in m.slides)
    return "%d:%d:%d:%s" % (m.x, m.y, m.type.value, s)


def parse_move_c(t):
    import tak

    x, y, mt, s = t.split(":")
    sl = None if s == "none" else (() if s == "-" else tuple(int(d) for d in s.split(".")))
    return tak.Move(int(x), int(y), tak.MoveType(int(mt)), sl)


def transcript_str(tr):
    import tak

    res = "N" if tr.result is None else ("W" if tr.result == tak.Color.WHITE else "B")
    parts = [res, str(len(tr.positions))]
    for i, p in enumerate(tr.positions):
        parts.append(ser.pos_str(p))
        parts.append(";".join(move_c(m) for m in tr.moves[i]) if tr.moves[i] else "*")
        parts.append(fracs(tr.probs[i]))
        parts.append(frac(tr.values[i]))
    return " ".join(parts)


def parse_transcript(toks, k=0):
    import numpy as np
    import tak
    from tak import self_play

    res, n = toks[k], int(toks[k + 1])
    k += 2
    tr = self_play.Transcript()
    tr.result = {"N": None, "W": tak.Color.WHITE, "B": tak.Color.BLACK}[res]
    for _ in range(n):
        tr.positions.append(ser.parse_pos(toks[k : k + 7]))
        ms, ps, v = toks[k + 7], toks[k + 8], toks[k + 9]
        k += 10
        tr.moves.append([] if ms == "*" else [parse_move_c(t) for t in ms.split(";")])
        tr.probs.append(np.array([] if ps == "*" else [float(Fraction(t)) for t in ps.split(";")], dtype=np.float32))
        tr.values.append(float(Fraction(v)))
    return tr, k


def toks_str(row):
    row = [int(t) for t in row]
    return ",".join(str(t) for t in row) if row else "*"


def mask_str(row):
    row = [bool(t) for t in row]
    return "".join("1" if t else "0" for t in row) if row else "*"


def sparse_str(row):
    nz = row.nonzero().flatten().tolist()
    return ";".join("%d=%s" % (i, frac(row[i])) for i in nz) if nz else "*"


def gamebatch_str(d):
    n = d["positions"].shape[0]
    parts = [str(n), "P"] + [toks_str(r.tolist()) for r in d["positions"]]
    parts += ["M"] + [mask_str(r.tolist()) for r in d["mask"]]
    parts += ["L", str(d["moves"].shape[1])] + [sparse_str(r) for r in d["moves"]]
    parts += ["V", fracs(d["values"].tolist()), "R", fracs(d["results"].tolist())]
    return " ".join(parts)


def batch_rows(batch):
    """rows of a dedup batch: (tokens, mask, all other columns flattened and concatenated)"""
    keys = [k for k in batch if k not in ("positions", "mask")]
    n = batch["positions"].shape[0]
    rows = []
    for i in range(n):
        tg = []
        for k in keys:
            tg += batch[k][i].flatten().tolist()
        rows.append("%s %s %s" % (toks_str(batch["positions"][i].tolist()), mask_str(batch["mask"][i].tolist()), fracs(tg)))
    return rows


def rows_to_batch(rows, dtype_name, shapes):
    """inverse of batch_rows for a replay: `shapes` = [(key, trailing shape)]"""
    import torch

    pos, mask, tg = [], [], []
    for r in rows:
        t, m, g = r.split(" ")
        pos.append([] if t == "*" else [int(x) for x in t.split(",")])
        mask.append([] if m == "*" else [c == "1" for c in m])
        tg.append([] if g == "*" else [float(Fraction(x)) for x in g.split(";")])
    w = len(pos[0]) if pos else 0
    batch = {
        "positions": torch.tensor(pos, dtype=getattr(torch, dtype_name)).reshape(len(rows), w),
        "mask": torch.tensor(mask, dtype=torch.bool).reshape(len(rows), w),
    }
    off = 0
    for k, shp in shapes:
        cnt = 1
        for s in shp:
            cnt *= s
        batch[k] = torch.tensor([g[off : off + cnt] for g in tg], dtype=torch.float32).reshape((len(rows),) + tuple(shp))
        off += cnt
    return batch


# ------------------------------------------------------------------ generators


def in_vocab(p):
    return all(0 <= s.stones < 50 and 0 <= s.caps < 2 for s in p.stones)


def dyadic_probs(rng, k):
    """k non-negative dyadic numbers summing to 1 (zeros allowed)"""
    import numpy as np

    m = rng.choice([1, 2, 3, 4, 6, 8, 10])
    total = 1 << m
    cuts = sorted(rng.randrange(total + 1) for _ in range(k - 1))
    parts = [b - a for a, b in zip([0] + cuts, cuts + [total])]
    return np.array([p / total for p in parts], dtype=np.float32)


def dyadic(rng, bits=6, lo=-1.0, hi=1.0):
    d = 1 << rng.choice([0, 1, 2, 3, bits])
    return rng.randrange(int(lo * d), int(hi * d) + 1) / d


def candidates(rng, pos, universe=None):
    cands = list(pos.all_moves()) if universe is None else universe
    seen, out = set(), []
    for m in cands:
        if m not in seen:
            seen.add(m)
            out.append(m)
    rng.shuffle(out)
    k = rng.choice([1, 1, 2, 3, 5, 8, len(out)])
    return out[: max(1, min(k, len(out)))]


def make_transcript(rng, positions, universe=None):
    import tak
    from tak import self_play

    tr = self_play.Transcript()
    for p in positions:
        ms = candidates(rng, p, universe)
        tr.positions.append(p)
        tr.moves.append(ms)
        tr.probs.append(dyadic_probs(rng, len(ms)))
        tr.values.append(dyadic(rng))
    tr.result = rng.choice([None, tak.Color.WHITE, tak.Color.BLACK])
    return tr


def real_game_positions(rng, size):
    import tak

    cfg = tak.Config(size=size) if rng.random() < 0.7 else tak.Config(size=size, pieces=rng.randrange(3, 49), capstones=rng.randrange(0, 2))
    policy = rng.choice(gen.POLICIES)
    game, _mvs = gen.play_random_game(rng, cfg, policy, max_plies=rng.choice([0, 1, 3, 8, 20, 60]), keep_moves=True)
    game = [p for p in game if in_vocab(p)]
    # drop terminal positions without legal moves for the side to move
    game = [p for p in game if p.all_moves()]
    return game or [tak.Position.from_config(tak.Config(size=size))]


def gen_game_list(ctx):
    """one list of transcripts (mixed lengths, repeats inside and across games)"""
    rng = ctx.rng
    logs, kinds = [], set()
    ngames = rng.choice([1, 1, 2, 3, 4, 6])
    pool = []
    for _ in range(ngames):
        size = rng.choice([3, 3, 4, 5, 6])
        r = rng.random()
        if r < 0.55:
            ps = real_game_positions(rng, size)
            if rng.random() < 0.3:
                ps = ps[:1]
            kinds.add("real")
            tr = make_transcript(rng, ps)
        elif r < 0.8:
            n = rng.choice([1, 1, 2, 4, 7])
            ps = []
            while len(ps) < n:
                p = gen.constructed_position(rng, size, tops_only=rng.random() < 0.8, derive_reserves=False)
                ps.append(p)
            kinds.add("synthetic")
            tr = make_transcript(rng, ps, universe=list(gen.wellformed_moves(size)))
        else:
            # repeats: positions taken again from earlier games / repeated literally inside the game
            src = [p for p in pool if p.size == size] or real_game_positions(rng, size)
            n = rng.choice([1, 2, 3, 5])
            ps = [rng.choice(src) for _ in range(n)]
            if len(ps) > 1 and rng.random() < 0.5:
                ps[-1] = ps[0]
            kinds.add("repeat")
            tr = make_transcript(rng, ps)
        pool += tr.positions
        logs.append(tr)
    return logs, kinds


def gen_dedup_batch(ctx):
    """a batch with an arbitrary multiset of repeated positions, varied padding width/content"""
    import torch
    from tak.model import encoding

    rng = ctx.rng
    npos = rng.choice([1, 2, 3, 4, 6, 9])
    base = []
    for _ in range(npos):
        size = rng.choice([3, 3, 4, 5, 6])
        if rng.random() < 0.5:
            ps = real_game_positions(rng, size)
            base.append(rng.choice(ps))
        else:
            p = gen.constructed_position(rng, size, derive_reserves=False)
            base.append(p)
    style = rng.choice(["nodup", "dups", "dups", "heavy", "pow2"])
    if style == "nodup":
        idx = list(range(npos))
    elif style == "pow2":
        idx = []
        for i in range(npos):
            idx += [i] * rng.choice([1, 2, 4])
    elif style == "heavy":
        idx = [rng.randrange(npos) for _ in range(rng.choice([5, 9, 14]))]
    else:
        idx = list(range(npos)) + [rng.randrange(npos) for _ in range(rng.choice([1, 2, 3, 5]))]
    rng.shuffle(idx)
    # transpositions: the same position reached twice is two equal rows already (positions are values);
    # a distinct position object with equal content:
    plist = [base[i] for i in idx]
    enc, mask = encoding.encode_batch(plist, include_sentinel=rng.random() < 0.8)
    extra = rng.choice([0, 0, 1, 3])
    if extra:
        enc = torch.cat([enc, torch.zeros((enc.shape[0], extra), dtype=enc.dtype)], dim=1)
        mask = torch.cat([mask, torch.zeros((mask.shape[0], extra), dtype=torch.bool)], dim=1)
    dtype = rng.choice(["uint8", "int64"])
    enc = enc.to(getattr(torch, dtype))
    if rng.random() < 0.5:
        # arbitrary content under the padding
        noise = torch.tensor([[rng.randrange(0, 250) for _ in range(enc.shape[1])] for _ in range(enc.shape[0])], dtype=enc.dtype).reshape(enc.shape)
        enc = torch.where(mask, enc, noise)
    n = len(idx)
    shapes = rng.choice(
        [
            [("moves", (5,)), ("values", ()), ("results", ())],
            [("values", ())],
            [("moves", (2, 3)), ("values", ())],
            [("moves", (7,)), ("results", ())],
        ]
    )
    batch = {"positions": enc, "mask": mask}
    for k, shp in shapes:
        cnt = 1
        for s in shp:
            cnt *= s
        batch[k] = torch.tensor([[dyadic(rng, 5, -4, 4) for _ in range(cnt)] for _ in range(n)], dtype=torch.float32).reshape((n,) + tuple(shp))
    return batch, dtype, shapes, style


# ------------------------------------------------------------------ running the implementation


def run_encode_games(logs):
    from tak import self_play

    try:
        d = self_play.encode_games(logs)
    except Exception as e:
        return "crash " + type(e).__name__
    return "ok " + gamebatch_str(d)


def run_dedup(batch):
    from tak.alphazero import trainer

    try:
        out = trainer.dedup_batch(batch)
    except Exception as e:
        return "crash " + type(e).__name__, None
    rows = batch_rows(out)
    return "ok " + " ".join([str(len(rows))] + rows), rows


def rows_close(impl_line, model_line, exact):
    """compare two `ok <n> <row>*n` lines: tokens/mask exactly, targets exactly or to TOL"""
    if impl_line == model_line:
        return True
    if exact:
        return False
    a, b = impl_line.split(" "), model_line.split(" ")
    if len(a) != len(b) or a[:2] != b[:2]:
        return False
    for i in range(2, len(a), 3):
        if a[i] != b[i] or a[i + 1] != b[i + 1]:
            return False
        ta = [] if a[i + 2] == "*" else a[i + 2].split(";")
        tb = [] if b[i + 2] == "*" else b[i + 2].split(";")
        if len(ta) != len(tb):
            return False
        for x, y in zip(ta, tb):
            x, y = Fraction(x), Fraction(y)
            if abs(x - y) > TOL * max(1, abs(y)):
                return False
    return True


# ------------------------------------------------------------------ tie


def tie(ctx):
    n_games = 700 if ctx.thorough else 150
    n_dedup = 5000 if ctx.thorough else 700
    divs = []

    # --- encode_games
    lines, impl, meta = [], [], []
    for _ in range(n_games):
        logs, kinds = gen_game_list(ctx)
        text = "%d %s" % (len(logs), " ".join(transcript_str(t) for t in logs))
        lines.append("batch encodegames max " + text)
        impl.append(run_encode_games(logs))
        meta.append((text, kinds, logs))
    model = driver.run_lines(lines)
    for (text, kinds, logs), io, mo in zip(meta, impl, model):
        ctx.evaluated()
        ctx.count("encode_games:" + io.split(" ", 1)[0])
        ctx.count("games:%d" % min(len(logs), 4))
        for k in kinds:
            ctx.count("games:" + k)
        nrows = sum(len(t.positions) for t in logs)
        ctx.count("rows", nrows)
        if any(len(t.positions) == 1 for t in logs):
            ctx.count("games:one-position")
        if any(t.result is None for t in logs):
            ctx.count("games:no-result")
        keys = set()
        rep = False
        for t in logs:
            for p in t.positions:
                s = ser.pos_str(p)
                rep = rep or s in keys
                keys.add(s)
        if rep:
            ctx.count("games:repeated-position")
        if len(logs) >= 2 or rep:
            ctx.nontrivial("eg|" + text)
        if io != mo:
            divs.append(Divergence("corr.batches", {"kind": "encodegames", "games": text}, io, mo))
    if meta:
        ctx.sample({"encode_games": meta[0][0][:400], "impl": impl[0][:300]})

    # --- logits alone, single transcripts (narrow head widths are not reachable in the code: `max`)
    # --- dedup_batch
    lines, impl, meta = [], [], []
    for _ in range(n_dedup):
        batch, dtype, shapes, style = gen_dedup_batch(ctx)
        rows = batch_rows(batch)
        lines.append("batch dedup %d %s" % (len(rows), " ".join(rows)))
        io, out_rows = run_dedup(batch)
        impl.append(io)
        meta.append([rows, dtype, shapes, style, None, None])
    model = driver.run_lines(lines)
    # multiplicity of every key (keys computed by the driver): sums of dyadics divided by a power of two are exact
    klines = ["batch key " + " ".join(r.split(" ")[:2]) for m in meta for r in m[0]]
    kout = iter(driver.run_lines(klines))
    for m in meta:
        counts = {}
        for _ in m[0]:
            k = next(kout)
            counts[k] = counts.get(k, 0) + 1
        m[4] = all(c & (c - 1) == 0 for c in counts.values())
        m[5] = any(c > 1 for c in counts.values())
        ctx.count("dedup:max-multiplicity-%d" % min(max(counts.values()), 5))
    for (rows, dtype, shapes, style, exact, has_dup), io, mo in zip(meta, impl, model):
        ctx.evaluated()
        ctx.count("dedup:" + style)
        ctx.count("dedup:tokens-" + dtype)
        ctx.count("dedup:exact-means" if exact else "dedup:tolerance-means")
        if has_dup:
            ctx.nontrivial("dd|" + "|".join(rows))
        if not rows_close(io, mo, exact):
            divs.append(
                Divergence(
                    "corr.batches",
                    {"kind": "dedup", "rows": rows, "dtype": dtype, "shapes": [[k, list(s)] for k, s in shapes]},
                    io,
                    mo,
                )
            )
    if meta:
        ctx.sample({"dedup_rows": meta[0][0][:6], "impl": impl[0][:300]})
    return divs


# ------------------------------------------------------------------ search / replay


def check_dedup(rows, impl_line):
    """driver-evaluated C12 predicates on the implementation's output; returns failing keys"""
    if not impl_line.startswith("ok "):
        return ["dedup-crash"]
    line = "batch check-dedup %d/%d %d %s %s" % (TOL.numerator, TOL.denominator, len(rows), " ".join(rows), impl_line[3:])
    out = driver.run_lines([line])[0]
    if out == "ok":
        return []
    if out.startswith("fail "):
        return out[5:].split(",")
    return ["driver:" + out]


def check_encodegames(text, impl_line):
    if not impl_line.startswith("ok "):
        return ["encode-games-crash"]
    out = driver.run_lines(["batch check-encodegames max %s %s" % (text, impl_line[3:])])[0]
    if out == "ok":
        return []
    if out.startswith("fail "):
        return out[5:].split(",")
    return ["driver:" + out]


def dedup_case(rows, dtype, shapes):
    batch = rows_to_batch(rows, dtype, [(k, tuple(s)) for k, s in shapes])
    io, _ = run_dedup(batch)
    return io, check_dedup(rows, io)


def shrink_dedup(rows, dtype, shapes, key):
    rows = list(rows)
    changed = True
    while changed and len(rows) > 1:
        changed = False
        for i in range(len(rows)):
            cand = rows[:i] + rows[i + 1 :]
            try:
                _, ks = dedup_case(cand, dtype, shapes)
            except Exception:
                continue
            if key in ks:
                rows = cand
                changed = True
                break
    return rows


def encodegames_case(text):
    toks = text.split(" ")
    n, k, logs = int(toks[0]), 1, []
    for _ in range(n):
        t, k = parse_transcript(toks, k)
        logs.append(t)
    io = run_encode_games(logs)
    return io, check_encodegames(text, io), logs


def shrink_games(text, key):
    toks = text.split(" ")
    n, k, logs = int(toks[0]), 1, []
    for _ in range(n):
        t, k = parse_transcript(toks, k)
        logs.append(t)

    def fails(ls):
        if not ls or any(len(t.positions) == 0 for t in ls):
            return False, None
        tx = "%d %s" % (len(ls), " ".join(transcript_str(t) for t in ls))
        try:
            io = run_encode_games(ls)
            return key in check_encodegames(tx, io), tx
        except Exception:
            return False, None

    import copy

    changed = True
    while changed:
        changed = False
        for i in range(len(logs)):
            cand = logs[:i] + logs[i + 1 :]
            ok, _ = fails(cand)
            if ok:
                logs, changed = cand, True
                break
        if changed:
            continue
        for gi, t in enumerate(logs):
            for pi in range(len(t.positions)):
                t2 = copy.copy(t)
                t2.positions = t.positions[:pi] + t.positions[pi + 1 :]
                t2.moves = t.moves[:pi] + t.moves[pi + 1 :]
                t2.probs = t.probs[:pi] + t.probs[pi + 1 :]
                t2.values = t.values[:pi] + t.values[pi + 1 :]
                cand = logs[:gi] + [t2] + logs[gi + 1 :]
                ok, _ = fails(cand)
                if ok:
                    logs, changed = cand, True
                    break
            if changed:
                break
    ok, tx = fails(logs)
    return tx if ok else text


def search(ctx, divergences, broken):
    vs, seen = [], set()
    for d in divergences:
        inp = d.input
        try:
            if inp["kind"] == "dedup":
                keys = check_dedup(inp["rows"], d.impl)
            else:
                keys = check_encodegames(inp["games"], d.impl)
        except Exception as e:
            ctx.note("search: predicate evaluation failed: %r" % (e,))
            continue
        if not keys:
            continue
        d.explained = True
        for key in keys:
            if key in seen:
                continue
            seen.add(key)
            if inp["kind"] == "dedup":
                rows = inp["rows"]
                try:
                    rows = shrink_dedup(rows, inp["dtype"], inp["shapes"], key)
                    io, _ = dedup_case(rows, inp["dtype"], inp["shapes"])
                except Exception:
                    io = d.impl
                rep = {"kind": "dedup", "rows": rows, "dtype": inp["dtype"], "shapes": inp["shapes"]}
                what = "dedup_batch on rows %s returns [%s]: clause %s of C12 fails" % (rows, io[:400], key)
            else:
                text = inp["games"]
                try:
                    text = shrink_games(text, key)
                    io = encodegames_case(text)[0]
                except Exception:
                    io = d.impl
                rep = {"kind": "encodegames", "games": text}
                what = "encode_games on [%s] returns [%s]: clause %s of C12 fails" % (text[:600], io[:400], key)
            vs.append(Violation(key, what, rep))
    return vs


def replay(ctx, data):
    r = data.get("replay", data)
    vs = []
    if r["kind"] == "dedup":
        io, keys = dedup_case(r["rows"], r["dtype"], r["shapes"])
        for k in keys:
            vs.append(Violation(k, "dedup_batch on rows %s returns [%s]: clause %s fails" % (r["rows"], io[:300], k), r))
    else:
        io, keys, _ = encodegames_case(r["games"])
        for k in keys:
            vs.append(Violation(k, "encode_games on [%s] returns [%s]: clause %s fails" % (r["games"][:300], io[:300], k), r))
    return vs

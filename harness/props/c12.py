"""C12 — training batches say what the transcripts say; de-duplication averages."""
import os
from fractions import Fraction

from ..check import Divergence, Violation
from ..lib import driver, gen, ser

ID = "C12"
LEAN_MODULES = ["TakVerif.Props.C12"]
NEEDS_EXT = True
NEEDS_STUBS = True
RULE = (
    "encode_games: lists of 1..6 transcripts, each from a real random game (sizes 3..6, six play policies, a prefix "
    "of the game incl. 1-position games; candidates = a duplicate-free subset of the legal moves of the real position) or "
    "synthetic (constructed positions, candidates from the size's move table), with literal repeats and transpositions "
    "inside and across games; probabilities dyadic k/2^m summing to 1, values dyadic; compared row for row "
    "(tokens, mask, dense policy row, value, label) with Batch.encodeGames, exactly. "
    "dedup_batch: batches built with encode_batch from mixed-size positions, rows duplicated / permuted at random, "
    "padding content and padding width varied, uint8 and int64 tokens, 1-3 target columns of dyadic float32; "
    "order/tokens/mask compared exactly with Batch.dedupBatch, targets exactly when every count is a power of two and "
    "to 1e-6 relative otherwise. Large inputs on every run: dedup_batch on batches of 300 .. 16k rows (thorough .. 50k) built from "
    "3-300 encoded positions by an index list with skewed multiplicities spread unevenly along the batch (zipf, segments with their "
    "own distributions, a key recurring at irregular intervals, early-rare/late-frequent keys), per-occurrence dyadic targets; and "
    "encode_games on one self-play step of 100-130 games (thorough: also 180-240 games, up to 70 plies). "
    "Results are values: every dict returned by encode_games / dedup_batch / encode_batch during the run is held with a deep "
    "snapshot taken at return time and re-verified after every later call (window of 30) and at the end (all held, plus "
    "re-serialisation against the text compared with the model); call sizes are interleaved (larger then smaller, smaller then "
    "larger, equal shapes). "
    "One evaluation = one encode_games call or one dedup_batch call. Non-trivial = a batch "
    "with at least one repeated key, or a game list with >= 2 games / a repeated position; distinct by serialised input."
)
TRUSTED = [
    "modelled, not verified: torch tensor indexing / cat / zeros_like / boolean-mask indexing, numpy view assignment, "
    "float32 arithmetic on dyadic values (exact), attrs classes",
    "the token encoding inside Batch.encodeGames is the local copy Batch.encodeTokens of encoding.encode (C06 owns encode)",
]
ASSUMPTIONS = [
    "transcripts have >= 1 position and one candidate list / probability vector / value per position; transcript lists are non-empty "
    "(positions[0] / torch.cat([]) raise otherwise; a self-played game always has a position)",
    "candidate lists carry no move twice (a repeated candidate keeps the later probability) and board sizes are 3..6 (MOVES_BY_SIZE)",
    "reserves inside the token vocabulary (0 <= stones < 50, 0 <= capstones < 2)",
]

TOL = Fraction(1, 10**6)


# ------------------------------------------------------------------ serialisation


HUGE = 10**30  # stands for a non-finite float (inf/nan) in implementation output: never a mean of the inputs


def frac(x):
    x = float(x)
    if x != x or x in (float("inf"), float("-inf")):
        return "%d/1" % (-HUGE if x < 0 else HUGE)
    f = Fraction(x)
    return "%d/%d" % (f.numerator, f.denominator)


def fracs(xs):
    xs = list(xs)
    return ";".join(frac(x) for x in xs) if xs else "*"


def move_c(m):
    if m.slides is None:
        s = "none"
    elif len(m.slides) == 0:
        s = "-"
    else:
        s = ".".join(str(d) for d in m.slides)
    return "%d:%d:%d:%s" % (m.x, m.y, m.type.value, s)


def parse_move_c(t):
    import tak

    x, y, mt, s = t.split(":")
    sl = None if s == "none" else (() if s == "-" else tuple(int(d) for d in s.split(".")))
    return tak.Move(int(x), int(y), tak.MoveType(int(mt)), sl)


def transcript_str(tr):
    import tak

    res = "N" if tr.result is None else ("W" if tr.result == tak.Color.WHITE else "B")
    parts = [res, str(len(tr.positions))]
    for i, p in enumerate(tr.positions):
        parts.append(ser.pos_str(p))
        parts.append(";".join(move_c(m) for m in tr.moves[i]) if tr.moves[i] else "*")
        parts.append(fracs(tr.probs[i]))
        parts.append(frac(tr.values[i]))
    return " ".join(parts)


def parse_transcript(toks, k=0):
    import numpy as np
    import tak
    from tak import self_play

    res, n = toks[k], int(toks[k + 1])
    k += 2
    tr = self_play.Transcript()
    tr.result = {"N": None, "W": tak.Color.WHITE, "B": tak.Color.BLACK}[res]
    for _ in range(n):
        tr.positions.append(ser.parse_pos(toks[k : k + 7]))
        ms, ps, v = toks[k + 7], toks[k + 8], toks[k + 9]
        k += 10
        tr.moves.append([] if ms == "*" else [parse_move_c(t) for t in ms.split(";")])
        tr.probs.append(np.array([] if ps == "*" else [float(Fraction(t)) for t in ps.split(";")], dtype=np.float32))
        tr.values.append(float(Fraction(v)))
    return tr, k


def toks_str(row):
    row = [int(t) for t in row]
    return ",".join(str(t) for t in row) if row else "*"


def mask_str(row):
    row = [bool(t) for t in row]
    return "".join("1" if t else "0" for t in row) if row else "*"


def sparse_str(row):
    nz = row.nonzero().flatten().tolist()
    return ";".join("%d=%s" % (i, frac(row[i])) for i in nz) if nz else "*"


def gamebatch_str(d):
    n = d["positions"].shape[0]
    parts = [str(n), "P"] + [toks_str(r.tolist()) for r in d["positions"]]
    parts += ["M"] + [mask_str(r.tolist()) for r in d["mask"]]
    parts += ["L", str(d["moves"].shape[1])] + [sparse_str(r) for r in d["moves"]]
    parts += ["V", fracs(d["values"].tolist()), "R", fracs(d["results"].tolist())]
    return " ".join(parts)


def batch_rows(batch):
    """rows of a dedup batch: (tokens, mask, all other columns flattened and concatenated)"""
    keys = [k for k in batch if k not in ("positions", "mask")]
    n = batch["positions"].shape[0]
    rows = []
    for i in range(n):
        tg = []
        for k in keys:
            tg += batch[k][i].flatten().tolist()
        rows.append("%s %s %s" % (toks_str(batch["positions"][i].tolist()), mask_str(batch["mask"][i].tolist()), fracs(tg)))
    return rows


def rows_to_batch(rows, dtype_name, shapes):
    """inverse of batch_rows for a replay: `shapes` = [(key, trailing shape)]"""
    import torch

    pos, mask, tg = [], [], []
    for r in rows:
        t, m, g = r.split(" ")
        pos.append([] if t == "*" else [int(x) for x in t.split(",")])
        mask.append([] if m == "*" else [c == "1" for c in m])
        tg.append([] if g == "*" else [float(Fraction(x)) for x in g.split(";")])
    w = len(pos[0]) if pos else 0
    batch = {
        "positions": torch.tensor(pos, dtype=getattr(torch, dtype_name)).reshape(len(rows), w),
        "mask": torch.tensor(mask, dtype=torch.bool).reshape(len(rows), w),
    }
    off = 0
    for k, shp in shapes:
        cnt = 1
        for s in shp:
            cnt *= s
        batch[k] = torch.tensor([g[off : off + cnt] for g in tg], dtype=torch.float32).reshape((len(rows),) + tuple(shp))
        off += cnt
    return batch


# ------------------------------------------------------------------ generators


def in_vocab(p):
    return all(0 <= s.stones < 50 and 0 <= s.caps < 2 for s in p.stones)


def dyadic_probs(rng, k):
    """k non-negative dyadic numbers (zeros allowed) summing to 1 - or, one time in four, to a little
    less or more, or to something else altogether: what a search records is whatever its solver
    returned (C10 bounds its sum only by a tolerance), and the target holds what was recorded"""
    import numpy as np

    m = rng.choice([1, 2, 3, 4, 6, 8, 10])
    total = 1 << m
    mass = total
    if rng.random() < 0.25:
        mass = max(1, rng.choice([total - 1, total + 1, total - (total >> 3), total + (total >> 2), total >> 1, 2 * total]))
    cuts = sorted(rng.randrange(mass + 1) for _ in range(k - 1))
    parts = [b - a for a, b in zip([0] + cuts, cuts + [mass])]
    return np.array([p / total for p in parts], dtype=np.float32)


def dyadic(rng, bits=6, lo=-1.0, hi=1.0):
    d = 1 << rng.choice([0, 1, 2, 3, bits])
    return rng.randrange(int(lo * d), int(hi * d) + 1) / d


def candidates(rng, pos, universe=None):
    cands = list(pos.all_moves()) if universe is None else universe
    seen, out = set(), []
    for m in cands:
        if m not in seen:
            seen.add(m)
            out.append(m)
    rng.shuffle(out)
    k = rng.choice([1, 1, 2, 3, 5, 8, len(out)])
    return out[: max(1, min(k, len(out)))]


def make_transcript(rng, positions, universe=None):
    import tak
    from tak import self_play

    tr = self_play.Transcript()
    for p in positions:
        ms = candidates(rng, p, universe)
        tr.positions.append(p)
        tr.moves.append(ms)
        tr.probs.append(dyadic_probs(rng, len(ms)))
        tr.values.append(dyadic(rng))
    tr.result = rng.choice([None, tak.Color.WHITE, tak.Color.BLACK])
    return tr


def real_game_positions(rng, size):
    import tak

    cfg = tak.Config(size=size) if rng.random() < 0.7 else tak.Config(size=size, pieces=rng.randrange(3, 49), capstones=rng.randrange(0, 2))
    policy = rng.choice(gen.POLICIES)
    game, _mvs = gen.play_random_game(rng, cfg, policy, max_plies=rng.choice([0, 1, 3, 8, 20, 60]), keep_moves=True)
    game = [p for p in game if in_vocab(p)]
    # drop terminal positions without legal moves for the side to move
    game = [p for p in game if p.all_moves()]
    return game or [tak.Position.from_config(tak.Config(size=size))]


def gen_game_list(ctx):
    """one list of transcripts (mixed lengths, repeats inside and across games)"""
    rng = ctx.rng
    logs, kinds = [], set()
    ngames = rng.choice([1, 1, 2, 3, 4, 6])
    pool = []
    for _ in range(ngames):
        size = rng.choice([3, 3, 4, 5, 6])
        r = rng.random()
        if r < 0.55:
            ps = real_game_positions(rng, size)
            if rng.random() < 0.3:
                ps = ps[:1]
            kinds.add("real")
            tr = make_transcript(rng, ps)
        elif r < 0.8:
            n = rng.choice([1, 1, 2, 4, 7])
            ps = []
            while len(ps) < n:
                p = gen.constructed_position(rng, size, tops_only=rng.random() < 0.8, derive_reserves=False)
                ps.append(p)
            kinds.add("synthetic")
            tr = make_transcript(rng, ps, universe=list(gen.wellformed_moves(size)))
        else:
            # repeats: positions taken again from earlier games / repeated literally inside the game
            src = [p for p in pool if p.size == size] or real_game_positions(rng, size)
            n = rng.choice([1, 2, 3, 5])
            ps = [rng.choice(src) for _ in range(n)]
            if len(ps) > 1 and rng.random() < 0.5:
                ps[-1] = ps[0]
            kinds.add("repeat")
            tr = make_transcript(rng, ps)
        pool += tr.positions
        logs.append(tr)
    return logs, kinds


def _note_encode_batch(ctx, positions, sentinel, enc, mask):
    led = getattr(ctx, "_c12_ledger", None)
    if led is not None:
        led.record({"op": "encode_batch", "positions": [ser.pos_str(p) for p in positions], "sentinel": sentinel}, {"positions": enc, "mask": mask})


def gen_dedup_batch(ctx):
    """a batch with an arbitrary multiset of repeated positions, varied padding width/content"""
    import torch
    from tak.model import encoding

    rng = ctx.rng
    npos = rng.choice([1, 2, 3, 4, 6, 9])
    base = []
    for _ in range(npos):
        size = rng.choice([3, 3, 4, 5, 6])
        if rng.random() < 0.5:
            ps = real_game_positions(rng, size)
            base.append(rng.choice(ps))
        else:
            p = gen.constructed_position(rng, size, derive_reserves=False)
            base.append(p)
    style = rng.choice(["nodup", "dups", "dups", "heavy", "pow2"])
    if style == "nodup":
        idx = list(range(npos))
    elif style == "pow2":
        idx = []
        for i in range(npos):
            idx += [i] * rng.choice([1, 2, 4])
    elif style == "heavy":
        idx = [rng.randrange(npos) for _ in range(rng.choice([5, 9, 14]))]
    else:
        idx = list(range(npos)) + [rng.randrange(npos) for _ in range(rng.choice([1, 2, 3, 5]))]
    rng.shuffle(idx)
    # transpositions: the same position reached twice is two equal rows already (positions are values);
    # a distinct position object with equal content:
    plist = [base[i] for i in idx]
    sentinel = rng.random() < 0.8
    enc, mask = encoding.encode_batch(plist, include_sentinel=sentinel)
    _note_encode_batch(ctx, plist, sentinel, enc, mask)
    if rng.random() < 0.3:
        # zero-extension families: token 0 is a real token (an empty square) AND the padding value,
        # so [t1..tk] and [t1..tk,0,..,0] under a longer mask are DIFFERENT positions (e.g. a 3x3
        # position with 15/0 reserves and the 4x4 position with the same first squares); their
        # keys must stay apart
        rows = [enc[i, : int(mask[i].sum())].tolist() for i in range(enc.shape[0])]
        fam = []
        for r in rng.sample(rows, min(len(rows), rng.choice([1, 2]))):
            for k in rng.sample([1, 2, 3, 7], rng.choice([1, 2])):
                fam += [r + [0] * k] * rng.choice([1, 1, 2])
        rows += fam
        rng.shuffle(rows)
        w = max(len(r) for r in rows)
        enc = torch.tensor([r + [0] * (w - len(r)) for r in rows], dtype=enc.dtype)
        mask = torch.tensor([[True] * len(r) + [False] * (w - len(r)) for r in rows], dtype=torch.bool)
        idx = list(range(len(rows)))
        style += "+zeroext"
    extra = rng.choice([0, 0, 1, 3])
    if extra:
        enc = torch.cat([enc, torch.zeros((enc.shape[0], extra), dtype=enc.dtype)], dim=1)
        mask = torch.cat([mask, torch.zeros((mask.shape[0], extra), dtype=torch.bool)], dim=1)
    dtype = rng.choice(["uint8", "int64"])
    enc = enc.to(getattr(torch, dtype))
    if rng.random() < 0.5:
        # arbitrary content under the padding
        noise = torch.tensor([[rng.randrange(0, 250) for _ in range(enc.shape[1])] for _ in range(enc.shape[0])], dtype=enc.dtype).reshape(enc.shape)
        enc = torch.where(mask, enc, noise)
    n = len(idx)
    shapes = rng.choice(
        [
            [("moves", (5,)), ("values", ()), ("results", ())],
            [("values", ())],
            [("moves", (2, 3)), ("values", ())],
            [("moves", (7,)), ("results", ())],
        ]
    )
    batch = {"positions": enc, "mask": mask}
    for k, shp in shapes:
        cnt = 1
        for s in shp:
            cnt *= s
        batch[k] = torch.tensor([[dyadic(rng, 5, -4, 4) for _ in range(cnt)] for _ in range(n)], dtype=torch.float32).reshape((n,) + tuple(shp))
    return batch, dtype, shapes, style


# ------------------------------------------------------------------ large batches (compact form)

BIG_SHAPES = [("moves", (3,)), ("values", ()), ("results", ())]


def position_pool(ctx):
    """a few hundred positions (real games on sizes 3..6 and constructed boards), made once per run"""
    pool = getattr(ctx, "_c12_pool", None)
    if pool is None:
        rng = ctx.rng
        pool = []
        for _ in range(14 if ctx.thorough else 8):
            size = rng.choice([3, 4, 5, 5, 6])
            pool += real_game_positions(rng, size)
        for _ in range(60):
            pool.append(gen.constructed_position(rng, rng.choice([3, 4, 5, 6]), derive_reserves=False))
        ctx._c12_pool = pool
    return pool


def skewed_indices(rng, nb, n):
    """n occurrences of nb base rows: skewed multiplicities, spread unevenly along the batch
    (segments with their own distributions, keys confined to a part of the batch, one key that
    recurs at irregular intervals like the empty board of every game)"""
    style = rng.choice(["zipf", "segments", "segments", "periodic", "late-burst"])
    idx = []
    if style == "zipf":
        w = [1.0 / (r + 1) ** rng.choice([0.7, 1.0, 1.5]) for r in range(nb)]
        idx = rng.choices(range(nb), w, k=n)
    elif style in ("segments", "periodic"):
        nseg = rng.choice([2, 3, 5, 8])
        cuts = sorted(rng.randrange(1, n) for _ in range(nseg - 1)) if n > nseg else []
        bounds = [0] + cuts + [n]
        for a, b in zip(bounds, bounds[1:]):
            live = rng.sample(range(nb), max(1, rng.randrange(1, nb + 1)))
            w = [rng.random() ** 3 + 0.01 for _ in live]
            idx += rng.choices(live, w, k=b - a)
        if style == "periodic":
            k, i = rng.randrange(nb), 0
            while i < n:
                idx[i] = k
                i += rng.choice([1, 7, 30, 44, 60, 150, 400])
    else:  # late-burst: rare at first, frequent at the end (and the other way round for another key)
        w = [rng.random() + 0.05 for _ in range(nb)]
        idx = rng.choices(range(nb), w, k=n)
        a, b = rng.randrange(nb), rng.randrange(nb)
        cut = rng.randrange(n // 2, n) if n > 2 else 0
        for i in range(n):
            if i >= cut and rng.random() < 0.5:
                idx[i] = a
            elif i < n - cut and rng.random() < 0.3:
                idx[i] = b
    return style, idx


def gen_big_dedup(ctx, n):
    """(base token rows, base mask rows, occurrences [(base index, target vector)])"""
    from tak.model import encoding

    rng = ctx.rng
    pool = position_pool(ctx)
    nb = rng.choice([3, 10, 40, 120, 300, 600])
    ctx._c12_big = getattr(ctx, "_c12_big", 0) + 1
    if ctx._c12_big % 3 == 1:
        nb = rng.choice([300, 600])  # every third large batch has hundreds of distinct positions
    base = [rng.choice(pool) for _ in range(nb)]
    enc, mask = encoding.encode_batch(base)
    _note_encode_batch(ctx, base, True, enc, mask)
    style, idx = skewed_indices(rng, nb, n)
    cnt = sum(_prod(shp) for _, shp in BIG_SHAPES)
    # dyadic targets k/32 in [-4, 4]: float32 sums over tens of thousands of rows stay exact
    occ = [(i, [rng.randrange(-128, 129) / 32.0 for _ in range(cnt)]) for i in idx]
    return enc, mask, occ, style


def _prod(shp):
    c = 1
    for s in shp:
        c *= s
    return c


def compact_batch(enc, mask, occ, shapes=None):
    """the torch batch of a compact description"""
    import torch

    shapes = BIG_SHAPES if shapes is None else shapes
    idx = torch.tensor([i for i, _ in occ], dtype=torch.long)
    tg = torch.tensor([t for _, t in occ], dtype=torch.float32).reshape(len(occ), -1)
    batch = {"positions": enc[idx], "mask": mask[idx]}
    off = 0
    for k, shp in shapes:
        c = _prod(shp)
        batch[k] = tg[:, off : off + c].reshape((len(occ),) + tuple(shp)).clone()
        off += c
    return batch


def compact_text(base_rows, occ):
    return "%d %s %d %s" % (len(base_rows), " ".join(base_rows), len(occ), " ".join("%d|%s" % (i, fracs(t)) for i, t in occ))


def base_rows_of(enc, mask):
    return ["%s %s" % (toks_str(enc[i].tolist()), mask_str(mask[i].tolist())) for i in range(enc.shape[0])]


def tensors_of_base_rows(base_rows):
    import torch

    pos = [[int(x) for x in r.split(" ")[0].split(",")] for r in base_rows]
    msk = [[c == "1" for c in r.split(" ")[1]] for r in base_rows]
    return torch.tensor(pos, dtype=torch.uint8), torch.tensor(msk, dtype=torch.bool)


def transcript_pool(ctx):
    """real games kept with their candidate lists, to build many-game lists cheaply"""
    pool = getattr(ctx, "_c12_games", None)
    if pool is None:
        rng = ctx.rng
        pool = []
        for _ in range(10 if ctx.thorough else 6):
            size = rng.choice([4, 5, 5, 6])
            import tak

            game, _ = gen.play_random_game(rng, tak.Config(size=size), rng.choice(gen.POLICIES), max_plies=rng.choice([30, 50, 70] if ctx.thorough else [20, 30, 40]), keep_moves=True)
            game = [p for p in game if in_vocab(p) and p.all_moves()]
            if game:
                pool.append([(p, candidates(rng, p)) for p in game])
        ctx._c12_games = pool
    return pool


def gen_many_games(ctx, ngames):
    """a self-play step: many games, each a prefix of a pooled real game with fresh search output
    (so the opening positions recur in every game, later ones in some)"""
    import tak
    from tak import self_play

    rng = ctx.rng
    pool = transcript_pool(ctx)
    logs = []
    for _ in range(ngames):
        g = rng.choice(pool)
        n = rng.randrange(1, len(g) + 1) if rng.random() < 0.3 else len(g)
        tr = self_play.Transcript()
        for p, ms in g[:n]:
            k = rng.randrange(1, len(ms) + 1)
            tr.positions.append(p)
            tr.moves.append(ms[:k])
            tr.probs.append(dyadic_probs(rng, k))
            tr.values.append(dyadic(rng))
        tr.result = rng.choice([None, tak.Color.WHITE, tak.Color.BLACK])
        logs.append(tr)
    return logs


# ------------------------------------------------------------------ results are values: the ledger


def _snapshot(t):
    """deep copy of a returned tensor (a weighted checksum for very large ones)"""
    import torch

    if t.numel() * t.element_size() <= 64 * 2**20:
        return t.clone()
    f = t.flatten().to(torch.float64)
    w = torch.arange(f.numel(), dtype=torch.float64) % 1021 + 1
    return ("checksum", tuple(t.shape), float((f * w).sum()), float(f.sum()))


def _same(t, snap):
    import torch

    if isinstance(snap, tuple):
        return _snapshot(t) == snap
    return t.shape == snap.shape and t.dtype == snap.dtype and torch.equal(t, snap)


class Ledger:
    """every dict returned by encode_games / dedup_batch / encode_batch during the run is kept
    together with a deep snapshot taken at return time; after later calls (and at the end) every
    kept tensor must still equal its snapshot"""

    def __init__(self, window=30, keep_bytes=150 * 2**20):
        self.calls = []  # [{"op":…, …description sufficient to repeat the call…}]
        self.held = []  # [{"call": index, "res": {name: tensor}, "snap": {name: snapshot}, "line": text at return}]
        self.kept = []  # long-term
        self.kept_bytes = 0
        self.window = window
        self.keep_bytes = keep_bytes
        self.mutations = []  # [(victim call index, detected after call index, tensor name)]

    def record(self, desc, res, line=None):
        idx = len(self.calls)
        self.calls.append(desc)
        self.verify(self.held)
        if res is not None:
            item = {"call": idx, "res": res, "snap": {k: _snapshot(v) for k, v in res.items()}, "line": line}
            self.held.append(item)
            while len(self.held) > self.window:
                old = self.held.pop(0)
                b = sum(v.numel() * v.element_size() for v in old["res"].values())
                if self.kept_bytes + 2 * b <= self.keep_bytes:
                    self.kept.append(old)
                    self.kept_bytes += 2 * b
        if idx % 50 == 49:
            self.verify(self.kept)
        return idx

    def verify(self, items):
        for it in items:
            if it.get("dead"):
                continue
            for k, v in it["res"].items():
                if not _same(v, it["snap"][k]):
                    it["dead"] = True
                    self.mutations.append((it["call"], len(self.calls) - 1, k))
                    break

    def verify_all(self):
        self.verify(self.kept)
        self.verify(self.held)
        # the serialisation compared with the model at return time is still what the tensors say
        for it in self.kept + self.held:
            if it.get("dead") or it["line"] is None or self.calls[it["call"]]["op"] != "encode_games":
                continue
            if sum(v.numel() for v in it["res"].values()) > 4_000_000:
                continue
            if "ok " + gamebatch_str(it["res"]) != it["line"]:
                it["dead"] = True
                self.mutations.append((it["call"], len(self.calls) - 1, "serialisation"))

    def divergences(self):
        out = []
        for victim, after, name in self.mutations:
            out.append(
                Divergence(
                    "impl.retained",
                    {"kind": "call-sequence", "calls": self.calls[victim : after + 1], "tensor": name,
                     "history": self.calls[:victim] if sum(len(str(c)) for c in self.calls[:victim]) < 3_000_000 else
                     sorted(self.calls[:victim], key=lambda c: len(str(c)), reverse=True)[:2]},
                    "tensor '%s' returned by call 0 (%s) changed while calls 1..%d ran" % (name, self.calls[victim]["op"], after - victim),
                    "a returned batch is a value: it keeps saying what its transcripts say",
                )
            )
        return out


def exec_call(desc):
    """repeat one recorded call; returns (result dict or None, line or None)"""
    import tak  # noqa
    from tak.model import encoding

    op = desc["op"]
    if op == "encode_games":
        toks = desc["games"].split(" ")
        n, k, logs = int(toks[0]), 1, []
        for _ in range(n):
            t, k = parse_transcript(toks, k)
            logs.append(t)
        from tak import self_play

        d = self_play.encode_games(logs)
        return d, "ok " + gamebatch_str(d)
    if op == "encode_batch":
        ps = [ser.parse_pos(t.split(" ")) for t in desc["positions"]]
        enc, mask = encoding.encode_batch(ps, include_sentinel=desc["sentinel"])
        return {"positions": enc, "mask": mask}, None
    from tak.alphazero import trainer

    if op == "dedup":
        out = trainer.dedup_batch(rows_to_batch(desc["rows"], desc["dtype"], [(k, tuple(s_)) for k, s_ in desc["shapes"]]))
        return out, None
    if op == "dedup-compact":
        enc, mask = tensors_of_base_rows(desc["base"])
        out = trainer.dedup_batch(compact_batch(enc, mask, parse_occ(desc["occ"]), [(k, tuple(s_)) for k, s_ in desc["shapes"]]))
        return out, None
    raise ValueError(op)


def run_sequence(calls):
    """repeat a recorded call sequence with every result held; returns the list of
    (victim index, tensor name) whose tensors no longer equal their snapshot, and for encode_games
    victims the clauses the driver finds failing on the batch as it is NOW"""
    led = Ledger(window=10**9, keep_bytes=0)
    for d in calls:
        try:
            res, line = exec_call(d)
        except Exception:
            res, line = None, None
        led.record(d, res, line)
    led.verify_all()
    out = []
    for victim, _after, name in led.mutations:
        now = []
        d = calls[victim]
        if d["op"] == "encode_games":
            it = [h for h in led.held if h["call"] == victim][0]
            try:
                now = check_encodegames(d["games"], "ok " + gamebatch_str(it["res"]))
            except Exception:
                now = ["unserialisable"]
        out.append((victim, name, now))
    return out


# ------------------------------------------------------------------ running the implementation


def run_encode_games(logs, ledger=None, text=None):
    from tak import self_play

    try:
        d = self_play.encode_games(logs)
    except Exception as e:
        return "crash " + type(e).__name__
    line = "ok " + gamebatch_str(d)
    if ledger is not None:
        ledger.record({"op": "encode_games", "games": text}, d, line)
    return line


def run_dedup(batch, ledger=None, desc=None):
    from tak.alphazero import trainer

    try:
        out = trainer.dedup_batch(batch)
    except Exception as e:
        return "crash " + type(e).__name__, None
    if ledger is not None:
        ledger.record(desc, out)
    rows = batch_rows(out)
    return "ok " + " ".join([str(len(rows))] + rows), rows


def rows_close(impl_line, model_line, exact):
    """compare two `ok <n> <row>*n` lines: tokens/mask exactly, targets exactly or to TOL"""
    if impl_line == model_line:
        return True
    if exact:
        return False
    a, b = impl_line.split(" "), model_line.split(" ")
    if len(a) != len(b) or a[:2] != b[:2]:
        return False
    for i in range(2, len(a), 3):
        if a[i] != b[i] or a[i + 1] != b[i + 1]:
            return False
        ta = [] if a[i + 2] == "*" else a[i + 2].split(";")
        tb = [] if b[i + 2] == "*" else b[i + 2].split(";")
        if len(ta) != len(tb):
            return False
        for x, y in zip(ta, tb):
            x, y = Fraction(x), Fraction(y)
            if abs(x - y) > TOL * max(1, abs(y)):
                return False
    return True


# ------------------------------------------------------------------ tie


def tie(ctx):
    n_games = 700 if ctx.thorough else 100
    n_dedup = 5000 if ctx.thorough else 450
    divs = []
    ledger = ctx._c12_ledger = Ledger()
    import time as _time

    import torch

    torch.set_num_threads(1)  # thousands of small tensor ops: thread pools only add overhead
    _t0 = _time.time()

    # --- encode_games
    lines, impl, meta = [], [], []
    for _ in range(n_games):
        logs, kinds = gen_game_list(ctx)
        text = "%d %s" % (len(logs), " ".join(transcript_str(t) for t in logs))
        lines.append("batch encodegames max " + text)
        impl.append(run_encode_games(logs, ledger, text))
        meta.append((text, kinds, logs))
    model = driver.run_lines(lines)
    for (text, kinds, logs), io, mo in zip(meta, impl, model):
        ctx.evaluated()
        ctx.count("encode_games:" + io.split(" ", 1)[0])
        ctx.count("games:%d" % min(len(logs), 4))
        for k in kinds:
            ctx.count("games:" + k)
        nrows = sum(len(t.positions) for t in logs)
        ctx.count("rows", nrows)
        if any(len(t.positions) == 1 for t in logs):
            ctx.count("games:one-position")
        if any(t.result is None for t in logs):
            ctx.count("games:no-result")
        keys = set()
        rep = False
        for t in logs:
            for p in t.positions:
                s = ser.pos_str(p)
                rep = rep or s in keys
                keys.add(s)
        if rep:
            ctx.count("games:repeated-position")
        if len(logs) >= 2 or rep:
            ctx.nontrivial("eg|" + text)
        if io != mo:
            divs.append(Divergence("corr.batches", {"kind": "encodegames", "games": text}, io, mo))
    if meta:
        ctx.sample({"encode_games": meta[0][0][:400], "impl": impl[0][:300]})

    # --- the same Transcript objects encoded twice, changed in between (a game exported while it
    #     is still being played, search probabilities revised): the batch says what the transcript
    #     says NOW
    lines, cases = [], []
    for text, kinds, logs in meta[:: (2 if ctx.thorough else 3)]:
        before = earlier_state(ctx, logs)
        try:
            io1, io2, _ = regrown_case(before, text)
        except Exception as e:
            io1 = io2 = "crash " + type(e).__name__
        lines += ["batch encodegames max " + before, "batch encodegames max " + text]
        cases.append((before, text, io1, io2))
        ctx.count("encode_games:re-encoded-after-change")
    model = driver.run_lines(lines)
    for i, (before, text, io1, io2) in enumerate(cases):
        ctx.evaluated(2)
        if io1 != model[2 * i]:
            divs.append(Divergence("corr.batches", {"kind": "encodegames", "games": before}, io1, model[2 * i]))
        if io2 != model[2 * i + 1]:
            divs.append(Divergence("corr.batches", {"kind": "encodegames-regrown", "before": before, "games": text}, io2, model[2 * i + 1]))

    ctx.note("small encode_games lists: %.1fs" % (_time.time() - _t0))
    _t0 = _time.time()
    # --- dedup_batch
    lines, impl, meta = [], [], []
    for _ in range(n_dedup):
        batch, dtype, shapes, style = gen_dedup_batch(ctx)
        rows = batch_rows(batch)
        lines.append("batch dedup %d %s" % (len(rows), " ".join(rows)))
        io, out_rows = run_dedup(batch, ledger, {"op": "dedup", "rows": rows, "dtype": dtype, "shapes": [[k, list(sh)] for k, sh in shapes]})
        impl.append(io)
        meta.append([rows, dtype, shapes, style, None, None])
    model = driver.run_lines(lines)
    # multiplicity of every key (keys computed by the driver): sums of dyadics divided by a power of two are exact
    klines = ["batch key " + " ".join(r.split(" ")[:2]) for m in meta for r in m[0]]
    kout = iter(driver.run_lines(klines))
    for m in meta:
        counts = {}
        for _ in m[0]:
            k = next(kout)
            counts[k] = counts.get(k, 0) + 1
        m[4] = all(c & (c - 1) == 0 for c in counts.values())
        m[5] = any(c > 1 for c in counts.values())
        ctx.count("dedup:max-multiplicity-%d" % min(max(counts.values()), 5))
    for (rows, dtype, shapes, style, exact, has_dup), io, mo in zip(meta, impl, model):
        ctx.evaluated()
        ctx.count("dedup:" + style)
        ctx.count("dedup:tokens-" + dtype)
        ctx.count("dedup:exact-means" if exact else "dedup:tolerance-means")
        if has_dup:
            ctx.nontrivial("dd|" + "|".join(rows))
        if not rows_close(io, mo, exact):
            divs.append(
                Divergence(
                    "corr.batches",
                    {"kind": "dedup", "rows": rows, "dtype": dtype, "shapes": [[k, list(s)] for k, s in shapes]},
                    io,
                    mo,
                )
            )
    if meta:
        ctx.sample({"dedup_rows": meta[0][0][:6], "impl": impl[0][:300]})

    ctx.note("small dedup batches: %.1fs" % (_time.time() - _t0))
    divs += tie_large(ctx)
    _t0 = _time.time()
    divs += tie_interleaved(ctx)
    ledger.verify_all()
    ctx.note("interleaved calls and final verification of %d held results: %.1fs" % (len(ledger.kept) + len(ledger.held), _time.time() - _t0))
    divs += ledger.divergences()
    ctx.count("held:calls", len(ledger.calls))
    ctx.count("held:results-until-the-end", len(ledger.kept) + len(ledger.held))
    ctx._c12_ledger = None
    return divs


def tie_interleaved(ctx):
    """calls of different sizes in both orders and of equal size, every result held: a larger batch
    then smaller ones, a smaller one then a larger one, two of the same shape with different content"""
    rng, ledger = ctx.rng, ctx._c12_ledger
    divs = []
    lines, impl, texts = [], [], []

    def call(logs):
        text = "%d %s" % (len(logs), " ".join(transcript_str(t) for t in logs))
        lines.append("batch encodegames max " + text)
        texts.append(text)
        impl.append(run_encode_games(logs, ledger, text))

    def games(n, size, plies):
        out = []
        for _ in range(n):
            ps = real_game_positions(rng, size)
            while len(ps) < plies:
                ps = ps + real_game_positions(rng, size)
            out.append(make_transcript(rng, ps[:plies]))
        return out

    for _round in range(12 if ctx.thorough else 4):
        size = rng.choice([3, 4, 5, 6])
        small_n, plies = rng.choice([1, 2]), rng.choice([1, 2, 4])
        big = games(rng.choice([4, 6, 9]), rng.choice([s_ for s_ in (4, 5, 6) if s_ >= size]), rng.choice([5, 8, 12]))
        order = rng.choice(["big-small-small", "small-big-small", "equal-equal-equal"])
        ctx.count("interleaved:" + order)
        if order == "big-small-small":
            call(big); call(games(small_n, size, plies)); call(games(small_n, size, plies))
        elif order == "small-big-small":
            call(games(small_n, size, plies)); call(big); call(games(small_n, size, plies))
        else:
            for _ in range(3):
                call(games(small_n, size, plies))
    model = driver.run_lines(lines)
    for text, io, mo in zip(texts, impl, model):
        ctx.evaluated()
        if io != mo:
            divs.append(Divergence("corr.batches", {"kind": "encodegames", "games": text}, io, mo))
    return divs


def size_plan(ctx):
    """row counts of the large dedup batches: a few in every decade up to the tier's maximum"""
    rng = ctx.rng
    if ctx.thorough:
        bands = [(300, 1500, 6), (1500, 5000, 6), (5000, 12000, 5), (12000, 30000, 4), (30000, 50000, 2)]
    else:
        bands = [(300, 1500, 3), (1500, 5000, 3), (5000, 9000, 2), (9000, 16000, 2)]
    return [rng.randrange(lo, hi) for lo, hi, k in bands for _ in range(k)]


def tie_large(ctx):
    import time

    divs = []
    # --- dedup_batch on large batches (compact form: base rows + occurrences)
    t0 = time.time()
    for n in size_plan(ctx):
        enc, mask, occ, style = gen_big_dedup(ctx, n)
        base_rows = base_rows_of(enc, mask)
        text = compact_text(base_rows, occ)
        io, _ = run_dedup(compact_batch(enc, mask, occ), ctx._c12_ledger, {"op": "dedup-compact", "base": base_rows, "occ": " ".join("%d|%s" % (i, fracs(t)) for i, t in occ), "shapes": [[k, list(sh)] for k, sh in BIG_SHAPES]})
        mo = driver.run_lines(["batch dedup-compact " + text])[0]
        keys = driver.run_lines(["batch key " + r for r in base_rows])
        counts = {}
        for i, _t in occ:
            counts[keys[i]] = counts.get(keys[i], 0) + 1
        exact = all(c & (c - 1) == 0 for c in counts.values())
        ctx.evaluated()
        ctx.count("dedup-large:" + style)
        ctx.count("dedup-large:rows-%s" % ("<1500" if n < 1500 else "<5000" if n < 5000 else "<12000" if n < 12000 else ">=12000"))
        ctx.count("dedup-large:max-multiplicity-%s" % ("<10" if max(counts.values()) < 10 else "<100" if max(counts.values()) < 100 else "<1000" if max(counts.values()) < 1000 else ">=1000"))
        ctx.count("dedup-large:rows-total", n)
        ctx.nontrivial("ddl|%d|%s" % (n, text[:2000]))
        if not rows_close(io, mo, exact):
            divs.append(Divergence("corr.batches", {"kind": "dedup-compact", "base": base_rows, "occ": " ".join("%d|%s" % (i, fracs(t)) for i, t in occ), "shapes": [[k, list(sh)] for k, sh in BIG_SHAPES]}, io[:20000], mo[:20000]))
    ctx.note("large dedup batches: %.1fs" % (time.time() - t0))

    # --- encode_games on many games (a self-play step)
    t0 = time.time()
    # (more than 2^24 / 4572 = 3670 rows in one call: a flat row*width+id index passes 2^24)
    for ngames in ([rng_pick(ctx, 200, 240), rng_pick(ctx, 320, 400)] if ctx.thorough else [rng_pick(ctx, 190, 220)]):
        logs = gen_many_games(ctx, ngames)
        text = "%d %s" % (len(logs), " ".join(transcript_str(t) for t in logs))
        io = run_encode_games(logs, ctx._c12_ledger, text)
        mo = driver.run_lines(["batch encodegames max " + text])[0]
        nrows = sum(len(t.positions) for t in logs)
        ctx.evaluated()
        ctx.count("encode_games-large:games", len(logs))
        ctx.count("encode_games-large:rows", nrows)
        ctx.nontrivial("egl|" + text[:4000])
        if io != mo:
            divs.append(Divergence("corr.batches", {"kind": "encodegames", "games": text}, io, mo))
    ctx.note("many-game encode_games: %.1fs" % (time.time() - t0))

    # --- a very large batch WITHOUT duplicates comes back unchanged (C12_dedup_id).  Hundreds of
    #     thousands of distinct short rows: any key narrower than the tokens themselves (a 32-bit
    #     fingerprint, say) merges two of them.  Tensor equality decides it; no model call needed.
    import torch

    t0 = time.time()
    rng = ctx.rng
    n = 400000 if ctx.thorough else 160000
    width = 5
    seen = set()
    while len(seen) < n:
        seen.add(tuple(rng.randrange(1, 250) for _ in range(width)))
    rows = list(seen)
    rng.shuffle(rows)
    pos = torch.tensor(rows, dtype=torch.uint8)
    batch = {"positions": pos, "mask": torch.ones((n, width), dtype=torch.bool), "values": torch.arange(n, dtype=torch.float32) % 1024}
    want_pos, want_val = pos.clone(), batch["values"].clone()
    try:
        out = trainer_dedup(batch)
        same = out["positions"].shape == want_pos.shape and bool((out["positions"] == want_pos).all()) and bool((out["values"] == want_val).all()) and bool(out["mask"].all())
        got = "%d rows" % out["positions"].shape[0]
    except Exception as e:
        same, got = False, "crash " + type(e).__name__
    ctx.evaluated()
    ctx.count("dedup-identity:distinct-rows", n)
    if not same:
        # locate the first merged pair for the replay (rows are distinct by construction)
        first = None
        try:
            k = int(out["positions"].shape[0])
            neq = (out["positions"] != want_pos[:k]).any(dim=1).nonzero()
            first = int(neq[0]) if len(neq) else k
        except Exception:
            pass
        divs.append(Divergence("impl.identity", {"kind": "dedup-identity", "n": n, "width": width, "seed": ctx.seed, "first_differing_row": first},
                               "dedup_batch of %d pairwise distinct rows returned %s" % (n, got), "the batch unchanged (%d rows)" % n))
    ctx.note("identity on %d distinct rows: %.1fs" % (n, time.time() - t0))
    return divs


def trainer_dedup(batch):
    from tak.alphazero import trainer

    return trainer.dedup_batch(batch)


def rng_pick(ctx, lo, hi):
    return ctx.rng.randrange(lo, hi)


# ------------------------------------------------------------------ search / replay


def check_dedup(rows, impl_line):
    """driver-evaluated C12 predicates on the implementation's output; returns failing keys"""
    if not impl_line.startswith("ok "):
        return ["dedup-crash"]
    line = "batch check-dedup %d/%d %d %s %s" % (TOL.numerator, TOL.denominator, len(rows), " ".join(rows), impl_line[3:])
    out = driver.run_lines([line])[0]
    if out == "ok":
        return []
    if out.startswith("fail "):
        return out[5:].split(",")
    return ["driver:" + out]


def check_encodegames(text, impl_line):
    if not impl_line.startswith("ok "):
        return ["encode-games-crash"]
    out = driver.run_lines(["batch check-encodegames max %s %s" % (text, impl_line[3:])])[0]
    if out == "ok":
        return []
    if out.startswith("fail "):
        return out[5:].split(",")
    return ["driver:" + out]


def dedup_case(rows, dtype, shapes):
    batch = rows_to_batch(rows, dtype, [(k, tuple(s)) for k, s in shapes])
    io, _ = run_dedup(batch)
    return io, check_dedup(rows, io)


def shrink_dedup(rows, dtype, shapes, key):
    rows = list(rows)
    changed = True
    while changed and len(rows) > 1:
        changed = False
        for i in range(len(rows)):
            cand = rows[:i] + rows[i + 1 :]
            try:
                _, ks = dedup_case(cand, dtype, shapes)
            except Exception:
                continue
            if key in ks:
                rows = cand
                changed = True
                break
    return rows


def parse_occ(text):
    out = []
    for o in text.split(" "):
        i, g = o.split("|")
        out.append((int(i), [float(Fraction(x)) for x in g.split(";")]))
    return out


def compact_case(base_rows, occ, shapes):
    """run the implementation on a compact batch; failing C12 clauses by the driver"""
    enc, mask = tensors_of_base_rows(base_rows)
    io, _ = run_dedup(compact_batch(enc, mask, occ, [(k, tuple(sh)) for k, sh in shapes]))
    if not io.startswith("ok "):
        return io, ["dedup-crash"]
    line = "batch check-dedup-compact %d/%d %s %s" % (TOL.numerator, TOL.denominator, compact_text(base_rows, occ), io[3:])
    out = driver.run_lines([line])[0]
    if out == "ok":
        return io, []
    return io, (out[5:].split(",") if out.startswith("fail ") else ["driver:" + out])


def compact_differs(base_rows, occ, shapes):
    """fast test used while shrinking: implementation output differs from the model's beyond TOL
    (the model meets every clause — C12_dedup_checkers — and the clauses fix the output, so this is
    the negation of the predicate; the shrunk input is confirmed with the predicate itself)"""
    enc, mask = tensors_of_base_rows(base_rows)
    io, _ = run_dedup(compact_batch(enc, mask, occ, [(k, tuple(sh)) for k, sh in shapes]))
    mo = driver.run_lines(["batch dedup-compact " + compact_text(base_rows, occ)])[0]
    return not rows_close(io, mo, False)


def shrink_compact(ctx, base_rows, occ, shapes, key, budget_s=60.0):
    """fewer rows (bisection on the prefix, then on the suffix), fewer distinct positions, one scalar
    small-integer target, a bounded chunk removal, only the base rows still used — while the
    implementation keeps failing; the result is confirmed with the driver's predicate for `key`"""
    import time

    t_end = time.time() + budget_s
    orig = (base_rows, occ, shapes)

    def fails(o, sh=None, base=None):
        if not o or time.time() > t_end:
            return False
        try:
            return compact_differs(base or base_rows, o, sh or shapes)
        except Exception:
            return False

    lo, hi = 0, len(occ)  # invariant: occ[:hi] fails
    while hi - lo > 1 and time.time() < t_end:
        mid = (lo + hi) // 2
        if fails(occ[:mid]):
            hi = mid
        else:
            lo = mid
    occ = occ[:hi]
    lo, hi = 0, len(occ)  # invariant: occ[lo:] fails
    while hi - lo > 1 and time.time() < t_end:
        mid = (lo + hi) // 2
        if fails(occ[mid:]):
            lo = mid
        else:
            hi = mid
    occ = occ[lo:]
    # fewer distinct positions: fold the base indices onto the first m base rows
    for m in (2, 3, 5, 10, 30, 100):
        if m >= len(base_rows):
            break
        cand = [(i % m, t) for i, t in occ]
        if fails(cand, base=base_rows[:m]):
            base_rows, occ = base_rows[:m], cand
            break
    # a single scalar target, then small integers
    one = [(i, t[:1]) for i, t in occ]
    if len(occ[0][1]) > 1 and fails(one, [["values", []]]):
        occ, shapes = one, [["values", []]]
    small = [(i, [float((j * 7 + 3) % 5)] + [0.0] * (len(t) - 1)) for j, (i, t) in enumerate(occ)]
    if fails(small):
        occ = small
    # bounded chunk removal (halves, quarters, eighths)
    for div in (2, 4, 8):
        chunk = max(1, len(occ) // div)
        i = 0
        while i < len(occ) and time.time() < t_end:
            cand = occ[:i] + occ[i + chunk :]
            if fails(cand):
                occ = cand
            else:
                i += chunk
    used = sorted({i for i, _ in occ})
    remap = {b: a for a, b in enumerate(used)}
    cand_base, cand_occ = [base_rows[b] for b in used], [(remap[i], t) for i, t in occ]
    if compact_differs(cand_base, cand_occ, shapes):
        base_rows, occ = cand_base, cand_occ
    try:
        if key in compact_case(base_rows, occ, shapes)[1]:
            return base_rows, occ, shapes
    except Exception:
        pass
    return orig


def encodegames_case(text):
    toks = text.split(" ")
    n, k, logs = int(toks[0]), 1, []
    for _ in range(n):
        t, k = parse_transcript(toks, k)
        logs.append(t)
    io = run_encode_games(logs)
    return io, check_encodegames(text, io), logs


def _load_games(text):
    toks = text.split(" ")
    n, k, logs = int(toks[0]), 1, []
    for _ in range(n):
        t, k = parse_transcript(toks, k)
        logs.append(t)
    return logs


def regrown_case(before, after):
    """encode the transcripts of `before`; change THE SAME Transcript objects (in place, as a game
    that is still being played does) until they read `after`; encode again.  Returns
    (impl line before, impl line after, clauses failing on the second result)."""
    logs = _load_games(before)
    io1 = run_encode_games(logs)
    new = _load_games(after)
    for t, u in zip(logs, new):
        t.positions[:] = u.positions
        t.moves[:] = u.moves
        t.probs[:] = u.probs
        t.values[:] = u.values
        t.result = u.result
    io2 = run_encode_games(logs)
    return io1, io2, check_encodegames(after, io2)


def earlier_state(ctx, logs):
    """text of an earlier state of the same games: each cut after a random ply, no result yet,
    sometimes with other search probabilities for a recorded ply"""
    from tak import self_play

    rng = ctx.rng
    out = []
    for t in logs:
        k = rng.randrange(1, len(t.positions) + 1)
        b = self_play.Transcript()
        b.positions += t.positions[:k]
        b.moves += t.moves[:k]
        b.probs += [dyadic_probs(rng, len(q)) if rng.random() < 0.3 else q for q in t.probs[:k]]
        b.values += t.values[:k]
        b.result = None if rng.random() < 0.7 else t.result
        out.append(b)
    return "%d %s" % (len(out), " ".join(transcript_str(b) for b in out))


def shrink_games(text, key):
    toks = text.split(" ")
    n, k, logs = int(toks[0]), 1, []
    for _ in range(n):
        t, k = parse_transcript(toks, k)
        logs.append(t)

    def fails(ls):
        if not ls or any(len(t.positions) == 0 for t in ls):
            return False, None
        tx = "%d %s" % (len(ls), " ".join(transcript_str(t) for t in ls))
        try:
            io = run_encode_games(ls)
            return key in check_encodegames(tx, io), tx
        except Exception:
            return False, None

    import copy
    import time as _time

    t_end = _time.time() + 90.0  # shrinking is a convenience: bounded, whatever the size of the case
    changed = True
    while changed and _time.time() < t_end:
        changed = False
        for i in range(len(logs)):
            if _time.time() > t_end:
                break
            cand = logs[:i] + logs[i + 1 :]
            ok, _ = fails(cand)
            if ok:
                logs, changed = cand, True
                break
        if changed:
            continue
        for gi, t in enumerate(logs):
            if _time.time() > t_end:
                break
            for pi in range(len(t.positions)):
                if _time.time() > t_end:
                    break
                t2 = copy.copy(t)
                t2.positions = t.positions[:pi] + t.positions[pi + 1 :]
                t2.moves = t.moves[:pi] + t.moves[pi + 1 :]
                t2.probs = t.probs[:pi] + t.probs[pi + 1 :]
                t2.values = t.values[:pi] + t.values[pi + 1 :]
                cand = logs[:gi] + [t2] + logs[gi + 1 :]
                ok, _ = fails(cand)
                if ok:
                    logs, changed = cand, True
                    break
            if changed:
                break
    ok, tx = fails(logs)
    return tx if ok else text


MUTATED = "result-mutated-by-later-call"


FRESH = """
import json, sys
from harness.lib import build, env
d, _ = build.build_ext()
env.setup_impl_path(d)
import takverif_stubs
takverif_stubs.install()
from harness.props import c12
vs = c12.replay(None, json.load(open(sys.argv[1])))
print("FRESH-RESULT", "fails" if vs else "holds")
"""


def replays_in_fresh_process(rep):
    """does the call sequence fail when replayed by a NEW interpreter (no history)?"""
    import json
    import subprocess
    import tempfile

    from ..lib import env

    with tempfile.NamedTemporaryFile("w", suffix=".json", delete=False) as f:
        json.dump({"replay": rep}, f)
        path = f.name
    try:
        r = subprocess.run([env.PYTHON, "-c", FRESH, path], cwd=env.VERIF, stdout=subprocess.PIPE, stderr=subprocess.STDOUT, text=True, timeout=600)
        return "FRESH-RESULT fails" in r.stdout
    except Exception:
        return False
    finally:
        os.unlink(path)


def _weight(c):
    return sum(len(str(v)) for v in c.values())


def shrink_sequence(ctx, history, calls):
    """a short call sequence that still shows a mutated result when replayed by a fresh interpreter:
    the victim and one later call; else preceded by one of the largest earlier calls of the run
    (state left behind by history); else the whole run up to the detection"""
    victim = calls[0]
    later = calls[1:][-3:][::-1]
    bigs = sorted(history, key=_weight, reverse=True)[:2]
    cands = [[victim, x] for x in later]
    cands += [[h, victim, x] for h in bigs for x in later[:2]]
    if sum(_weight(c) for c in history) < 3_000_000:
        cands.append(history + calls)
    for cs in cands:
        if replays_in_fresh_process({"kind": "call-sequence", "calls": cs}):
            return halve_games(cs), True
    return calls, False


def halve_games(cs, budget=8):
    """fewer games per encode_games call (first game only, else the first half), a few attempts"""
    def games_of(text):
        toks = text.split(" ")
        n, k, out = int(toks[0]), 1, []
        for _ in range(n):
            k0 = k
            k += 2 + 10 * int(toks[k + 1])
            out.append(" ".join(toks[k0:k]))
        return out

    for i in range(len(cs) - 1, -1, -1):
        if cs[i]["op"] != "encode_games":
            continue
        gs = games_of(cs[i]["games"])
        for keep in (1, (len(gs) + 1) // 2):
            if keep >= len(gs) or budget <= 0:
                continue
            budget -= 1
            cand = cs[:i] + [dict(cs[i], games="%d %s" % (keep, " ".join(gs[:keep])))] + cs[i + 1 :]
            if replays_in_fresh_process({"kind": "call-sequence", "calls": cand}):
                cs = cand
                break
    return cs


def search(ctx, divergences, broken):
    vs, seen = [], set()
    for d in divergences:
        inp = d.input
        if d.component == "impl.identity":
            d.explained = True
            vs.append(Violation("dedup-identity", "%s; C12: a batch without duplicates is returned unchanged (rows are drawn from ctx.rng with VERIF_SEED=%s: replay = this run)" % (d.impl, inp.get("seed")), dict(inp)))
            continue
        if inp.get("kind") == "call-sequence":
            if MUTATED in seen:
                d.explained = True
                continue
            try:
                res = run_sequence(inp["calls"])
            except Exception as e:
                ctx.note("search: replaying the call sequence failed: %r" % (e,))
                continue
            if not res:
                continue
            d.explained = True
            seen.add(MUTATED)
            calls, fresh = shrink_sequence(ctx, inp.get("history", []), inp["calls"])
            res = run_sequence(calls)
            vi, name, now = next(iter(res), (0, inp.get("tensor"), []))
            what = "the batch returned by call %d (%s) is changed by later calls: tensor '%s' no longer equals its value at return time%s; sequence of %d calls: %s%s" % (
                vi, calls[vi]["op"], name, (" and now fails clause(s) %s of C12" % ",".join(now)) if now else "", len(calls),
                [c["op"] + ":" + str(c.get("games", c.get("rows", c.get("positions", ""))))[:160] for c in calls[:3]],
                "" if fresh else " (needs the earlier calls of the run as history; reproduced in-process only)")
            vs.append(Violation(MUTATED, what, {"kind": "call-sequence", "calls": calls}))
            continue
        try:
            if inp["kind"] == "dedup":
                keys = check_dedup(inp["rows"], d.impl)
            elif inp["kind"] == "dedup-compact":
                if any(v.replay.get("kind") == "dedup-compact" for v in vs):
                    continue  # one large failing batch is evidence enough (each evaluation takes seconds)
                keys = compact_case(inp["base"], parse_occ(inp["occ"]), inp["shapes"])[1]
            else:
                keys = check_encodegames(inp["games"], d.impl)
                if inp["kind"] == "encodegames-regrown" and keys and not encodegames_case(inp["games"])[1]:
                    # fresh Transcript objects holding the same content are encoded correctly: the
                    # failure needs the earlier encode of the same objects -> replay = both states
                    d.explained = True
                    key = keys[0] + "-after-transcript-changed"
                    if key not in seen:
                        seen.add(key)
                        vs.append(Violation(key, "encode_games on Transcript objects that were encoded before and have changed since (then [%s…], now [%s…]) returns [%s…]: clause(s) %s of C12 fail; fresh objects with the same content are encoded correctly" % (
                            inp["before"][:200], inp["games"][:200], d.impl[:200], ",".join(keys)), {"kind": "encodegames-regrown", "before": inp["before"], "games": inp["games"]}))
                    continue
        except Exception as e:
            ctx.note("search: predicate evaluation failed: %r" % (e,))
            continue
        if not keys:
            continue
        d.explained = True
        for key in keys:
            if key in seen:
                continue
            seen.add(key)
            if inp["kind"] == "dedup-compact":
                base, occ, shapes = inp["base"], parse_occ(inp["occ"]), inp["shapes"]
                n0 = len(occ)
                try:
                    base, occ, shapes = shrink_compact(ctx, base, occ, shapes, key)
                    io = compact_case(base, occ, shapes)[0]
                except Exception:
                    io = d.impl
                rep = {"kind": "dedup-compact", "base": base, "occ": " ".join("%d|%s" % (i, fracs(t)) for i, t in occ), "shapes": shapes}
                mult = {}
                for i, _t in occ:
                    mult[i] = mult.get(i, 0) + 1
                what = "dedup_batch on a batch of %d rows (shrunk from %d; %d distinct base rows, multiplicities %s) returns [%s]: clause %s of C12 fails" % (
                    len(occ), n0, len(base), sorted(mult.values(), reverse=True)[:6], io[:300], key)
            elif inp["kind"] == "dedup":
                rows = inp["rows"]
                try:
                    rows = shrink_dedup(rows, inp["dtype"], inp["shapes"], key)
                    io, _ = dedup_case(rows, inp["dtype"], inp["shapes"])
                except Exception:
                    io = d.impl
                rep = {"kind": "dedup", "rows": rows, "dtype": inp["dtype"], "shapes": inp["shapes"]}
                what = "dedup_batch on rows %s returns [%s]: clause %s of C12 fails" % (rows, io[:400], key)
            else:
                text = inp["games"]
                try:
                    text = shrink_games(text, key)
                    io = encodegames_case(text)[0]
                except Exception:
                    io = d.impl
                rep = {"kind": "encodegames", "games": text}
                what = "encode_games on [%s] returns [%s]: clause %s of C12 fails" % (text[:600], io[:400], key)
            vs.append(Violation(key, what, rep))
    return vs


def replay(ctx, data):
    r = data.get("replay", data)
    vs = []
    if r.get("kind") == "dedup-identity":
        import random

        ctx.seed = r.get("seed", ctx.seed)
        ctx.rng = random.Random(ctx.seed * 1000003 + sum(map(ord, ctx.prop)))
        ctx._c12_ledger = None
        return search(ctx, [d for d in tie(ctx) if d.component == "impl.identity"], [])
    if r["kind"] == "call-sequence":
        for victim, name, now in run_sequence(r["calls"]):
            vs.append(Violation(MUTATED, "the batch returned by call %d (%s) is changed by later calls: tensor '%s' no longer equals its value at return time%s" % (
                victim, r["calls"][victim]["op"], name, (" and now fails clause(s) %s" % ",".join(now)) if now else ""), r))
            break
    elif r["kind"] == "encodegames-regrown":
        io1, io2, keys = regrown_case(r["before"], r["games"])
        for k in keys[:1]:
            vs.append(Violation(k + "-after-transcript-changed", "encode_games after the same Transcript objects changed returns [%s…]: clause(s) %s fail" % (io2[:300], ",".join(keys)), r))
    elif r["kind"] == "dedup-compact":
        occ = parse_occ(r["occ"])
        io, keys = compact_case(r["base"], occ, r["shapes"])
        for k in keys:
            vs.append(Violation(k, "dedup_batch on a batch of %d rows (%d base rows) returns [%s]: clause %s fails" % (len(occ), len(r["base"]), io[:300], k), r))
    elif r["kind"] == "dedup":
        io, keys = dedup_case(r["rows"], r["dtype"], r["shapes"])
        for k in keys:
            vs.append(Violation(k, "dedup_batch on rows %s returns [%s]: clause %s fails" % (r["rows"], io[:300], k), r))
    else:
        io, keys, _ = encodegames_case(r["games"])
        for k in keys:
            vs.append(Violation(k, "encode_games on [%s] returns [%s]: clause %s fails" % (r["games"][:300], io[:300], k), r))
    return vs

"""C18 — a self-play batch returns exactly N games or fails loudly; it never hangs.

Tie (`corr.pool`): the REAL `tak.self_play.MultiprocessSelfPlayEngine` (spawned workers, real queues) is
driven through scenarios — W workers, consecutive `play_many(N1)`, `play_many(N2)` on one engine, a fault
script — each in its own subprocess (harness/lib/pool_scenario.py, engines from
harness/bootstrap/takverif_factories.py).  The observed outcome sequence must be one the Lean model
(`Tak.Pool.step?`, explored exhaustively by `pool predict`, failCode = 1 = the repaired `entrypoint`) admits.
Search: the property's verdict on every observation is computed by the driver (`Tak.Pool.verdict`).
"""
import concurrent.futures
import json
import os
import signal
import subprocess
import sys
import threading

from ..check import Divergence, Violation
from ..lib import driver, env
from ..lib.pool_factories import canon, scenario_sort_key

ID = "C18"
NEEDS_EXT = True
NEEDS_STUBS = True
LEAN_MODULES = ["TakVerif.Props.C18"]
RULE = (
    "scenario = (W workers, consecutive play_many requests N1,N2 on ONE real MultiprocessSelfPlayEngine, fault script: "
    "factory:j raises | game:j:k the k-th game of worker j raises in analyze | killplay:j:k SIGKILL mid-game | "
    "killwait:j:r SIGKILL while idle before request r). One evaluation = one observed request (returned n / raised after ms / "
    "still blocked T=10 s after max(call, workers ready, last fault)), plus one per stop()/teardown — stop() is also called after a "
    "request has RAISED (as play_many_games/the trainer do in finally) and must come back within the same bound; api=play_many_games "
    "scenarios drive ONE call of the public entry point and bound the WHOLE call; backlog scenarios have N > 2W with an early fault "
    "and fast or slow (1.2 s/ply) survivors, so cmd is still full when the failure is noticed. The observed outcome "
    "sequence must be in the set the Lean model admits under ALL interleavings (pool predict, failCode=1); transcripts are "
    "tagged worker/pid/seq/start-time to detect duplicates and carry-over. Non-trivial = a fault fired, or N > 2W (cmd queue "
    "full), or a second request on the same engine; distinct by scenario text + observed sequence."
)
TRUSTED = [
    "modelled, not verified: multiprocessing.Queue is a bounded FIFO (put blocks / raises Full at maxsize, get(timeout) raises Empty), "
    "Process.exitcode is None while alive, 0 / n after exit, -9 after SIGKILL; Event.set wakes every waiter",
    "the interleaving explorer of the driver (Driver/Pool.lean `explore`) built on the proved `step?`",
    "scripted stand-in engines (harness/bootstrap/takverif_factories.py) instead of MCTS: game CONTENT is C11's business",
]
ASSUMPTIONS = [
    "an engine's analyze() returns or raises (a worker looping for ever inside a game is outside the model)",
    "not exhibited by the model: a worker dying inside a pipe write / while holding a queue lock other than as 'killed', OS scheduling",
    "worker failures are Exceptions (caught by entrypoint) or SIGKILL; BaseException/sys.exit in a worker gives its own non-zero code",
]

T_BOUND = 10.0
HARD_TIMEOUT = 300
_POOL = None
_FUT = {}
_LOCK = threading.Lock()
_OBS = {}  # canon(scenario) -> result


# ---------------------------------------------------------------- running scenarios


def _run_subprocess(scn):
    arg = json.dumps(dict(scn, T=T_BOUND))
    p = subprocess.Popen(
        [env.PYTHON, "-m", "harness.lib.pool_scenario", arg],
        cwd=env.VERIF,
        stdout=subprocess.PIPE,
        stderr=subprocess.DEVNULL,
        start_new_session=True,
        text=True,
    )
    try:
        out, _ = p.communicate(timeout=HARD_TIMEOUT)
    except subprocess.TimeoutExpired:
        out = ""
    finally:
        try:
            os.killpg(p.pid, signal.SIGKILL)
        except (ProcessLookupError, PermissionError):
            pass
    for line in out.splitlines():
        if line.startswith("C18RESULT "):
            res = json.loads(line[len("C18RESULT "):])
            if res.get("error"):
                raise RuntimeError("scenario %s: runner error: %s" % (canon(scn), res["error"]))
            return res
    raise RuntimeError("scenario %s produced no result (machinery failure)" % canon(scn))


def _submit(scn):
    global _POOL
    with _LOCK:
        if _POOL is None:
            _POOL = concurrent.futures.ThreadPoolExecutor(max_workers=max(2, min(8, (os.cpu_count() or 4) // 2)))
        k = canon(scn)
        if k not in _FUT:
            _FUT[k] = _POOL.submit(_run_subprocess, scn)
        return _FUT[k]


def observe(scn):
    res = _submit(scn).result()
    _OBS[canon(scn)] = (scn, res)
    return res


# ---------------------------------------------------------------- scenario lists


def scenarios(ctx):
    rng = ctx.rng
    out = []

    def add(W, reqs, faults=(), slow=0.0, api="play_many", pause=0.0, compress=1, **extra):
        s = {"W": W, "requests": list(reqs), "faults": list(faults)}
        s.update(extra)
        if pause:
            s["pause"], s["compress"] = pause, compress
        if slow:
            s["slow"] = slow
        if api != "play_many":
            s["api"] = api
        if canon(s) not in {canon(x) for x in out}:
            out.append(s)

    nxt = {1: 2, 2: 5, 5: 1, 3: 8, 8: 3}
    if not ctx.thorough:
        for W in (1, 2, 3):
            for N in (1, 2, 5):
                add(W, [N, nxt[N]])
        add(1, [2], ["factory:0"])
        add(2, [2], ["factory:0", "factory:1"])
        add(3, [5, 2], ["factory:1"])
        add(1, [1], ["game:0:1"])
        add(1, [5], ["game:0:3"])
        add(2, [2], ["game:0:1", "game:1:1"])
        add(1, [2, 2], ["game:0:3"])
        add(3, [5], ["game:2:1"], slow=0.2)
        add(1, [2], ["killplay:0:1"])
        add(2, [5], ["killplay:1:1"], slow=0.2)
        add(1, [1], ["killwait:0:1"])
        add(2, [2, 2], ["killwait:0:2"])
        # a long-lived engine left idle between two requests (the trainer trains between rollout
        # batches): 3 s of pause, timed waits of the workers 100x faster = five idle minutes
        add(2, [3, 3], pause=3.0, compress=100)
        # one very large request (thousands of commands: more than any pipe or queue buffers at once),
        # fault-free and with a factory that raises
        add(2, [5000])
        add(2, [4500], ["factory:0", "factory:1"])
        # many games, every transcript kept by the caller, few file descriptors; games cut by the ply limit
        add(2, [150, 60], nofile=160)
        add(2, [6, 3], ply_limit=0)
        # a worker killed while it is still starting up (inside its engine factory)
        add(1, [2], ["killinit:0"])
        add(2, [5], ["killinit:1"], slow=0.2)
        add(3, [5], ["killinit:0"], api="play_many_games")
        # backlog (N > 2W) with an early fault: `cmd` is still full when the failure is noticed
        add(1, [8], ["game:0:1"])
        add(2, [12], ["game:0:1"], slow=1.2)
        # the public entry point: play_many_games = engine + play_many + finally stop(), as ONE call
        pmg = "play_many_games"
        add(2, [5], api=pmg)
        add(1, [8], ["game:0:1"], api=pmg)
        add(2, [12], ["game:0:1", "game:1:1"], api=pmg)
        add(2, [12], ["game:1:1"], slow=1.2, api=pmg)
        add(1, [5], ["factory:0"], api=pmg)
        add(1, [8], ["killplay:0:1"], api=pmg)
        # failures that are not a ScriptedFaultError: what an evaluator that talks to a server raises
        add(3, [12], ["game:1:2"], slow=0.2, exc="ConnectionResetError")
        add(1, [2], ["game:0:1"], exc=rng.choice(["EOFError", "BrokenPipeError", "TimeoutError", "OSError"]))
        add(2, [5], ["factory:0"], exc="ConnectionRefusedError")
        # abrupt death by other signals than KILL
        add(2, [5], ["killplay:0:1"], slow=0.2, sig="TERM")
        add(1, [2], ["killplay:0:2"], sig=rng.choice(["SEGV", "ABRT", "HUP"]))
        add(2, [2, 2], ["killwait:1:2"], sig="TERM")
    else:
        for W in (1, 2, 3, 4):
            for N in (1, 2, 3, 5, 8):
                add(W, [N, rng.choice([1, 2, 3, 5, 8])])
        for rep in range(2):
            for W in (1, 2, 3, 4):
                js = list(range(W))
                for j in js:
                    add(W, [rng.choice([1, 2, 5]), 2], ["factory:%d" % j])
                add(W, [rng.choice([2, 5])], ["factory:%d" % j for j in js])
                for j in js:
                    for k in (1, 2, 3):
                        N = rng.choice([2, 5, 8])
                        add(W, [N], ["game:%d:%d" % (j, k)], slow=0.1 if W > 1 else 0.0)
                    add(W, [2, 3], ["game:%d:%d" % (j, rng.choice([1, 2, 3]))], slow=0.1 if W > 1 else 0.0)
                    for k in (1, 2):
                        add(W, [rng.choice([2, 5])], ["killplay:%d:%d" % (j, k)], slow=0.1 if W > 1 else 0.0)
                    add(W, [rng.choice([2, 5])], ["killplay:%d:%d" % (j, rng.choice([1, 2]))], slow=0.1 if W > 1 else 0.0, sig=rng.choice(["TERM", "SEGV", "ABRT", "HUP"]))
                    add(W, [rng.choice([1, 2, 5]), 2], ["killwait:%d:%d" % (j, rng.choice([1, 2]))], sig=rng.choice(["TERM", "HUP"]))
                    for r in (1, 2):
                        add(W, [rng.choice([1, 2, 5]), 2], ["killwait:%d:%d" % (j, r)])
                    if rng.random() < 0.5:
                        add(W, [rng.choice([1, 2, 5]), 2], ["killinit:%d" % j], slow=rng.choice([0.0, 0.2]))
                    else:
                        add(W, [rng.choice([1, 2, 5])], ["killinit:%d" % j], slow=rng.choice([0.0, 0.2]), api="play_many_games")
                add(W, [5], ["game:%d:1" % j for j in js])
                add(W, [rng.choice([2, 5, 8])], ["game:%d:%d" % (rng.randrange(W), rng.choice([1, 2]))], slow=0.1 if W > 1 else 0.0, exc=rng.choice(["ConnectionResetError", "EOFError", "BrokenPipeError", "TimeoutError", "OSError", "KeyError", "ConnectionRefusedError"]))
                add(W, [rng.choice([2, 5])], ["factory:%d" % rng.randrange(W)], exc=rng.choice(["ConnectionRefusedError", "EOFError", "OSError"]))
                add(W, [2, 3, 2], pause=rng.choice([2.0, 4.0]), compress=rng.choice([100, 1000]))
                add(W, [rng.choice([100, 200]), 50], nofile=rng.choice([128, 200]))
                add(W, [5, 2], ply_limit=rng.choice([0, 1]))
                add(W, [8, 2], ["killwait:0:1", "game:%d:2" % (W - 1)])
                # backlogs (N > 2W), early faults, fast and slow survivors; both entry points
                big = 2 * W + rng.choice([2, 4, 6])
                pmg = "play_many_games"
                add(W, [big], api=pmg)
                add(W, [big], ["game:%d:1" % j for j in js], api=rng.choice(["play_many", pmg]))
                add(W, [big], ["factory:%d" % j for j in js], api=pmg)
                for j in js:
                    k = rng.choice([1, 1, 2])
                    add(W, [big], ["game:%d:%d" % (j, k)], slow=1.2 if W > 1 else 0.0, api=pmg)
                    add(W, [big], ["game:%d:%d" % (j, k)], slow=1.2 if W > 1 else 0.0)
                    add(W, [big], ["killplay:%d:1" % j], slow=1.2 if W > 1 else 0.0, api=rng.choice(["play_many", pmg]))
    return out


# ---------------------------------------------------------------- model side


def predict_line(scn, failcode=1, op=None):
    return "pool %s %d %d %s %s" % (
        op or ("predict-call" if scn.get("api") == "play_many_games" else "predict"),
        scn["W"],
        failcode,
        ",".join(str(n) for n in scn["requests"]),
        " ".join(scn["faults"]),
    )


def observed_seq(res, detail=False):
    """`raises` = the request raised and the stop() after it came back (returned or raised: both loud);
    detail=True keeps which of the two (compared with `predict-stop`, for the evidence only)"""
    words = []
    st = res.get("stop") or {}
    for o in res["requests"]:
        if o["outcome"] == "returned":
            w = "returns" if o["n"] == o["N"] else "returns(%d/%d)" % (o["n"], o["N"])
            if o.get("dups"):
                w += "+dup%d" % o["dups"]
            if o.get("carried"):
                w += "+carried%d" % o["carried"]
        elif o["outcome"] == "raised":
            w = "raises"
            if res.get("api", "play_many") == "play_many":  # what the stop() after the failure did
                so = st.get("outcome", "blocked")
                if so == "blocked" or detail:
                    w += "/stop-" + {"returned": "returns", "raised": "raises", "blocked": "hangs"}[so]
        else:
            w = "hangs"
        words.append(w)
    return ",".join(words)


def verdict_lines(scn, res):
    lines, meta = [], []
    for o in res["requests"]:
        if o["outcome"] == "returned":
            tail = "returned %d %d %d" % (o["n"], o.get("dups", 0), o.get("carried", 0))
        elif o["outcome"] == "raised":
            tail = "raised %d 0 0" % o["ms"]
        else:
            tail = "blocked 0 0 0"
        lines.append("pool verdict %d %s %s" % (o["N"], o["fault"], tail))
        meta.append(("request", o))
    st = res.get("stop")
    if st is not None:
        after = "returned" if st["after"] == "returned" else "raised"
        lines.append("pool stopverdict %d %d %s %s" % (res["W"], st["exited"], after, st.get("outcome", "returned")))
        meta.append(("stop", st))
    return lines, meta


def judge(scn, res):
    """property verdicts (computed by the Lean driver) on one scenario's observations"""
    lines, meta = verdict_lines(scn, res)
    outs = driver.run_lines(lines)
    vs = []
    for (kind, o), out in zip(meta, outs):
        if out == "ok":
            continue
        if not out.startswith("violation "):
            raise driver.DriverError("unexpected verdict %r" % out)
        key = out.split(" ", 1)[1]
        if kind == "request":
            codes = o.get("exitcodes")
            what = "%sW=%d requests=%s faults=%s: request %d (N=%d) %s" % (
                "play_many_games: " if scn.get("api") == "play_many_games" else "",
                scn["W"],
                scn["requests"],
                scn["faults"] or "none",
                o["request"],
                o["N"],
                {
                    "blocked": "is still blocked %.0f s after %s (worker exit codes %s)"
                    % (o.get("blocked_s", T_BOUND), "the fault" if o["fault"] != "none" else "every worker was ready", codes),
                    "raised": "raised %s %d ms after the reference time" % (o.get("exc"), o.get("ms", 0)),
                    "returned": "returned %s transcripts (dups=%s carried=%s)" % (o.get("n"), o.get("dups"), o.get("carried")),
                }[o["outcome"]],
            )
            if o["outcome"] == "blocked" and codes:
                bad = sorted({c for c in codes if c is not None and c >= 0})
                if bad:
                    m = driver.run_lines([predict_line(scn, bad[0])])[0]
                    what += "; model with failCode=%d admits: %s" % (bad[0], m)
        else:
            what = "W=%d requests=%s faults=%s: stop() after the request %s: %s; %d of %d workers have an exit code (%s)" % (
                scn["W"],
                scn["requests"],
                scn["faults"] or "none",
                o.get("after"),
                {"blocked": "still blocked when the bound expired", "raised": "raised %s" % o.get("exc"), "returned": "returned"}[
                    o.get("outcome", "returned")
                ],
                o["exited"],
                res["W"],
                o.get("exitcodes"),
            )
        vs.append(Violation(key, what, {"scenario": scn, "observed": res}))
    return vs


# ---------------------------------------------------------------- protocol entry points


def tie(ctx):
    scns = scenarios(ctx)
    for s in scns:
        _submit(s)
    preds = driver.run_lines([predict_line(s) for s in scns])
    fine = driver.run_lines([predict_line(s, op="predict-stop") for s in scns])
    divs = []
    for s, pred, fpred in zip(scns, preds, fine):
        res = observe(s)
        if not pred.startswith("ok "):
            raise driver.DriverError("predict answered %r for %s" % (pred, canon(s)))
        admitted = pred[3:].split("|")
        seq = observed_seq(res)
        for o in res["requests"]:
            ctx.evaluated()
            ctx.count("outcome:" + o["outcome"])
            ctx.count("fault-fired:" + o["fault"])
        ctx.count("W=%d" % s["W"])
        if res.get("stop"):
            ctx.evaluated()
            ctx.count("teardown:" + res["stop"]["after"])
        nontrivial = (
            any(o["fault"] != "none" for o in res["requests"])
            or any(n > 2 * s["W"] for n in s["requests"])
            or len(res["requests"]) > 1
        )
        if nontrivial:
            ctx.nontrivial(canon(s) + "|" + seq)
        if scns.index(s) % 4 == 1:
            ctx.sample({"scenario": canon(s), "observed": seq, "model_admits": admitted})
        if res.get("api", "play_many") == "play_many" and "raises" in seq:
            ctx.count("stop-after-raise:" + ("as-modelled" if observed_seq(res, True) in fpred[3:].split("|") else "other-loud-way"))
        if seq not in admitted:
            divs.append(Divergence("corr.pool", s, seq, pred[3:]))
        st = res.get("stop")
        if st is not None and (st["exited"] != res["W"] or st.get("outcome") == "blocked"):
            divs.append(
                Divergence(
                    "corr.pool.stop",
                    s,
                    "stop %s, exited %d/%d" % (st.get("outcome"), st["exited"], res["W"]),
                    "stop() comes back and all workers exit (C18_stop_joins, C18_stop_after_raise)",
                )
            )
    raise_ms = [o["ms"] for _, r in _OBS.values() for o in r["requests"] if o["outcome"] == "raised"]
    ctx.extra["pool"] = {
        "scenarios": len(scns),
        "max_raise_ms_after_fault": max(raise_ms) if raise_ms else None,
        "max_request_seconds": max([o["seconds"] for _, r in _OBS.values() for o in r["requests"]] or [0]),
        "max_stop_seconds": max([r["stop"]["seconds"] for _, r in _OBS.values() if r.get("stop")] or [0]),
        "bound_T_s": T_BOUND,
    }
    ctx.note("pool: %d scenarios, %d requests observed" % (len(scns), sum(len(r["requests"]) for _, r in _OBS.values())))
    return divs


def search(ctx, divergences, broken):
    found = {}
    bad_scn = set()
    for k, (scn, res) in sorted(_OBS.items(), key=lambda kv: scenario_sort_key(kv[1][0])):
        for v in judge(scn, res):
            bad_scn.add(k)
            found.setdefault(v.key, v)
    for d in divergences:
        if canon(d.input) in bad_scn:
            d.explained = True
    return list(found.values())


def replay(ctx, data):
    r = data.get("replay", data)
    scn = r.get("scenario", r)
    scn = json.loads(canon(scn))
    if not _FUT and "--replay" not in sys.argv:
        # first corpus replay of a run: start the whole tie workload now, so it overlaps with the corpus
        try:
            for s in scenarios_prefetch(ctx):
                _submit(s)
        except Exception:
            pass
    res = observe(scn)
    return judge(scn, res)


def scenarios_prefetch(ctx):
    """the tie's scenario list, computed WITHOUT consuming ctx.rng (tie must see the same stream)"""
    import copy
    import random

    class _C:
        pass

    c = _C()
    c.thorough = ctx.thorough
    c.rng = random.Random()
    c.rng.setstate(copy.deepcopy(ctx.rng.getstate()))
    return scenarios(c)

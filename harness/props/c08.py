"""C08 — search-tree bookkeeping is exact and every expansion is legal."""
import json
from fractions import Fraction

from ..check import Divergence, Violation
from ..lib import driver, ser
from ..lib import treedump as td

ID = "C08"
LEAN_MODULES = ["TakVerif.Props.C08"]
NEEDS_EXT = True
NEEDS_STUBS = True
RULE = (
    "One evaluation = one search phase of the real tak.mcts.MCTS (time_limit=0, simulation_limit=n; a fresh analyze(p) "
    "or analyze_tree on the tree of the previous phase with a larger limit) replayed in the Lean model "
    "(Tree.analyzeTree fed the recorded torch.multinomial draws, evaluator answers and Dirichlet sample) and compared as a "
    "WHOLE tree (structure, moves, positions, visits exact; values exact for the dyadic harness evaluators; priors 2e-6 "
    "relative), plus the Lean predicate TreeInv evaluated by the driver on the dumped implementation tree, the root visit "
    "count, and a snapshot comparison of the searched position. Cases: sizes 3..6; start positions = initial + random "
    "legal play (6 policies, standard+custom reserves, many close to the end so finished games occur inside the tree); "
    "evaluators uniform / random dyadic / adversarial (mass on illegal ids, exactly at and one ulp below the cutoff, "
    "vectors wider and shorter than the id range) / real tiny transformer through ModelWrapper; budgets 1..400; root "
    "noise on/off; samplers real multinomial and forced first/last/greedy/uniform draws. Non-trivial = a tree with at "
    "least two expanded nodes; distinct by tree text."
)
TRUSTED = [
    "modelled, not verified: IEEE float32/float64 arithmetic of the statistics (harness evaluators return dyadic values so "
    "that every float sum is exact; priors compared to 2e-6 relative because child_probs /= sum is a float32 division), "
    "torch tensor indexing/nonzero/comparison semantics, torch.multinomial and Dirichlet.sample as oracles whose draws are recorded",
    "the driver adjudicates with Impl.winner (Model/Winner.lean; equal to Spec.outcome by C02_winner_spec); the move-id table handed to the "
    "driver is the implementation's own decode_move table, whose identity with Gen.allMovesForSize (the table of the …_real corollaries) is C07's exhaustive tie",
    "legality of expansions rests on Tak.C01.C01_move_refines_rules (imported from Props/C01.lean, no hypothesis left open)",
]
ASSUMPTIONS = [
    "time_limit = 0 (with a wall-clock limit the visit count is schedule dependent)",
    "the evaluator gives at least one legal move the cutoff probability at every expanded node",
    "root_noise_mix is a dyadic rational in the exact comparisons (mix*noise + (1-mix)*p is then exact up to one float32 rounding)",
]

CLAUSE_KEY = {
    "root-visits": "root-visits",
    "visit-sum": "visit-sum",
    "unexpanded-visited": "visit-sum",
    "value-sum": "value-sum",
    "own-evaluation": "value-sum",
    "terminal-value": "terminal-value",
    "terminal-expanded": "terminal-value",
    "children-not-legal-set": "children-not-legal-set",
    "noise-not-configured": "priors-not-renormalised",
    "noise-below-root": "priors-not-renormalised",
    "priors-not-renormalised": "priors-not-renormalised",
    "child-position": "child-position",
    "position-ill-formed": "child-position",
    "no-evaluation-recorded": "model-mismatch",
}


# ------------------------------------------------------------------ plan

def _descend(rng, prob):
    """continue the search from a child of the tree (and possibly from a grandchild) as the new root"""
    if rng.random() >= prob:
        return None
    return [{"pick": rng.randrange(1000), "extra": rng.choice([0, 1, 2, 5, 12])} for _ in range(rng.choice([1, 1, 2]))]


def plan_sessions(ctx):
    """ONE engine object searching several positions in a row: boards of different sizes (smaller
    first, larger first, interleaved), different reserve configurations.  Every tree is dumped,
    replayed in the model and put to TreeInv like any other."""
    rng = ctx.rng
    orders = [[3, 5], [5, 3], [3, 4, 3], [4, 6, 4], [6, 3, 5], [3, 3, 4], [5, 4, 5, 3]]
    if ctx.thorough:
        orders = orders * 4
    out = []
    for sizes in orders:
        evaluator = rng.choice(["uniform", "random", "adversarial", "uniform"])
        eseed = rng.randrange(1 << 30)
        sess = []
        for size in sizes:
            pos = rng.choice(td.start_positions(rng, size, 3, custom_prob=0.3))
            n = rng.choice([1, 2, 4, 9] if size <= 4 else [1, 2, 5])
            c = td.make_case(rng, size, pos, evaluator, n, rng.random() < 0.3, n + 2 if rng.random() < 0.3 else None, _descend(rng, 0.2))
            c["eseed"] = eseed
            c["family"] = "one-engine:" + "-".join(str(x) for x in sizes)
            sess.append(c)
        out.append(sess)
    return out


def plan(ctx, scale=1.0):
    """list of cases (dicts), deterministic in ctx.rng"""
    rng = ctx.rng
    cases = []
    if ctx.thorough:
        sizes = {3: 300, 4: 170, 5: 80, 6: 30}
        budgets = {3: [1, 2, 3, 5, 8, 13, 25, 50, 100, 200, 400], 4: [1, 2, 4, 9, 20, 50, 120, 400], 5: [1, 3, 7, 20, 60, 150], 6: [1, 2, 5, 15, 40, 100]}
        big = [(3, 400), (4, 400), (5, 400), (6, 400)]
    else:
        sizes = {3: 60, 4: 30, 5: 13, 6: 6}
        budgets = {3: [1, 2, 3, 5, 8, 13, 25, 50, 100, 200], 4: [1, 2, 4, 9, 20, 50, 120], 5: [1, 3, 7, 20, 40], 6: [1, 2, 5, 12]}
        big = [(3, 400)]
    for size, count in sizes.items():
        count = max(1, int(count * scale))
        std = td.start_positions(rng, size, max(3, count // 3), custom_prob=0.0)
        anyp = td.start_positions(rng, size, max(3, count // 2), custom_prob=0.3)
        for k in range(count):
            evaluator = td.EVALUATORS[k % 4] if k >= 4 else td.EVALUATORS[k]
            pos = rng.choice(std if evaluator == "network" else anyp)
            n = rng.choice(budgets[size])
            if evaluator == "network":
                n = min(n, 60 if size <= 4 else 20)
            reuse = None
            if rng.random() < 0.35:
                # the same tree searched again: with a larger budget, or with the budget it has already
                # used up (then nothing may happen)
                reuse = n + rng.choice([0, 0, 1, 2, 5, max(1, n // 2)])
            cases.append(td.make_case(rng, size, pos, evaluator, n, rng.random() < 0.4, reuse, _descend(rng, 0.25)))
    # searches rooted one to three plies before the end of a game, every kind of ending
    for size, per_class in ({3: 8, 4: 5, 5: 2} if ctx.thorough else {3: 3, 4: 2}).items():
        per_class = max(1, int(per_class * scale))
        for cls, pos in td.endgame_positions(rng, size, per_class):
            n = rng.choice([4, 12, 30, 60] if size == 3 else [8, 25, 60])
            reuse = n + rng.choice([3, 10]) if rng.random() < 0.3 else None
            c = td.make_case(rng, size, pos, rng.choice(["uniform", "random", "adversarial", "uniform"]), n, rng.random() < 0.45, reuse, _descend(rng, 0.6))
            c["family"] = "endgame:" + cls
            cases.append(c)
    # searches rooted at constructed positions built around the rarely reached rules (capstone on a
    # stack next to a wall, stacks taller than the board, empty flat reserve): one visit expands the
    # root, whose children must be exactly the legal moves
    for size, cnt in ({3: 14, 4: 14, 5: 16, 6: 10} if ctx.thorough else {3: 3, 4: 3, 5: 5, 6: 3}).items():
        for label, pos in td.tactical_positions(rng, size, max(1, int(cnt * scale))):
            n = rng.choice([1, 2, 6] if size >= 5 else [1, 3, 12, 30])
            c = td.make_case(rng, size, pos, rng.choice(["uniform", "uniform", "random"]), n, rng.random() < 0.25, None, _descend(rng, 0.3))
            c["family"] = label
            cases.append(c)
    # the evaluator fails once in the middle of a search (a remote evaluator whose connection drops);
    # the caller keeps the tree and asks again: visits, values and the reported distributions must be
    # those of a tree that never saw the failure
    for size, cnt in ({3: 12, 4: 8, 5: 4} if ctx.thorough else {3: 3, 4: 2, 5: 1}).items():
        for pos in td.start_positions(rng, size, max(2, int(cnt * scale)), custom_prob=0.3)[: max(1, int(cnt * scale))]:
            n = rng.choice([6, 15, 40] if size <= 4 else [5, 12])
            c = td.make_case(rng, size, pos, rng.choice(["uniform", "random"]), n, False, n + 5 if rng.random() < 0.4 else None, None)
            c["fault_at"] = rng.randrange(0, max(1, n - 2))
            c["family"] = "evaluator-fails-once"
            cases.append(c)
    for size, n in big:
        pos = td.start_positions(rng, size, 2, custom_prob=0.0)[0]
        cases.append(td.make_case(rng, size, pos, rng.choice(["uniform", "random"]), n, size == 3, None))
    # cheap cases first within a shuffled order, so that a run cut short by the time budget has seen
    # every family
    rng.shuffle(cases)
    cases.sort(key=lambda c: (c["budget"] + (c["reuse"] or 0)) * c["size"] ** 2 > 4000)
    return cases


# ------------------------------------------------------------------ one case

class Finding:
    def __init__(self, kind, key, what, phase=None, path=None, explained_by_predicate=False):
        self.kind = kind  # "divergence" (model vs impl) | "predicate" (property predicate failed on impl data)
        self.key = key
        self.what = what
        self.phase = phase
        self.path = path
        self.session = None


def check_run(res, ctx=None):
    """Everything C08 looks at for one run.  Returns (findings, parsed impl trees per phase)."""
    case = res.case
    findings = []
    ptol, vtol = td.tolerances(case)
    cfgt = td.cfg_text(case, ptol, vtol)
    if getattr(res, "scribble", None):
        ph = res.phases[-1]
        o = driver.run_lines(["tree inv %s %d %s" % (cfgt, max(ph["budget"], ph["prev_sims"]), res.scribble["after"])])[0]
        clause = o.split(":", 2)[2] if o.startswith("fail:") else "tree changed"
        findings.append(Finding("predicate", CLAUSE_KEY.get(clause, "priors-not-renormalised"),
                                "after the caller wrote into the distributions tree_probs() had returned, the tree itself changed (TreeInv: %s)" % o[:120]))
    if res.pos_after != res.pos_before:
        findings.append(Finding("predicate", "position-mutated", "searched position changed from [%s] to [%s]" % (res.pos_before, res.pos_after)))
    if res.error is not None and getattr(res, "unreadable", None) is not None:
        u = res.unreadable
        legal = None
        if u["parent"] and u["move"]:
            legal = driver.run_lines(["move rules %s %s" % (u["parent"], u["move"])])[0]
        findings.append(Finding(
            "predicate",
            "children-not-legal-set" if legal == "illegal" else "child-position",
            "the returned tree has a child (node %s) for move [%s] of position [%s] whose position cannot be read (%s); by the rules that move is %s there" % (
                "/".join(map(str, u["path"])), u["move"], u["parent"], u["exc"], "ILLEGAL" if legal == "illegal" else "legal"),
            path="/".join(map(str, u["path"]))))
    elif res.error is not None:
        if res.nonfinite or "NonFinite" in res.error:
            # the native solver returned inf/nan and the sampler refused it: C09/C10's finding (F9)
            findings.append(Finding("aborted", "solver-nonfinite", "the search did not return: " + res.error))
        else:
            key, why = "root-visits", "no tree to inspect"
            if res.partial is not None:
                o = driver.run_lines(["tree inv %s - %s" % (cfgt, res.partial["dump"])])[0]
                if o.startswith("fail:"):
                    _, path, clause = o.split(":", 2)
                    key = CLAUSE_KEY.get(clause, "model-mismatch")
                    why = "TreeInv fails on the tree as it stood at node %s: clause %s" % (path, clause)
                else:
                    why = "TreeInv holds on the tree as it stood (root visits %d)" % res.partial["visits"]
            findings.append(Finding("predicate", key, "the search raised instead of delivering its visits (%s); %s" % (res.error, why)))
    lines = []
    for ph in res.phases:
        lines.append(td.inv_line(cfgt, ph) if ph.get("no_replay") else td.replay_line(cfgt, ph))
        lines.append(td.inv_line(cfgt, ph))
    outs = driver.run_lines(lines) if lines else []
    trees = []
    for k, ph in enumerate(res.phases):
        ro, io = outs[2 * k], outs[2 * k + 1]
        impl = td.parse_tree(ph["dump"])
        trees.append(impl)
        if ctx is not None:
            ctx.evaluated()
            nodes, exp, depth, term, draws = td.tree_shape(impl)
            ctx.count("finished-games-visited", term)
            ctx.count("drawn-games-visited", draws)
            if term:
                ctx.count("trees-with-finished-games")
            ctx.count("phase:%s" % {"fresh": "fresh", "same": "reused-same-root", "child": "reused-child-as-root"}[ph.get("how", "fresh" if k == 0 else "same")])
            ctx.count("nodes", nodes)
            ctx.count("expanded", exp)
            ctx.count("depth>=5" if depth >= 5 else "depth<5")
            if exp >= 2:
                ctx.nontrivial(ph["dump"])
        # the property predicate, evaluated by the driver on the implementation's tree
        if io != "ok":
            if io.startswith("fail:"):
                _, path, clause = io.split(":", 2)
                findings.append(
                    Finding(
                        "predicate",
                        CLAUSE_KEY.get(clause, "model-mismatch"),
                        "TreeInv fails on the implementation's tree at node %s: clause %s (phase %d, budget %d)" % (path, clause, k, ph["budget"]),
                        phase=k,
                        path=path,
                    )
                )
            else:
                findings.append(Finding("divergence", "model-mismatch", "driver could not read the implementation tree: " + io[:80], phase=k))
        # correspondence with the model
        if ph.get("no_replay"):
            if ctx is not None:
                ctx.count("phase:resumed-after-evaluator-failure")
            continue
        if not ro.startswith("ok "):
            findings.append(Finding("divergence", "model-mismatch", "model replay answered [%s] where the implementation returned a tree (phase %d, budget %d)" % (ro[:60], k, ph["budget"]), phase=k))
            continue
        model = td.parse_tree(ro[3:])
        d = td.diff_trees(impl, model, td.is_exact(case), ptol, vtol)
        if d is not None:
            path, field, a, b = d
            findings.append(
                Finding(
                    "divergence",
                    "model-mismatch",
                    "implementation and model trees differ at node %s field %s: impl=%s model=%s (phase %d, budget %d)"
                    % (td.path_str(path), field, _short(a), _short(b), k, ph["budget"]),
                    phase=k,
                    path=td.path_str(path),
                )
            )
    return findings, trees


def _short(x):
    if isinstance(x, Fraction):
        return "%s (%.9g)" % (x, float(x)) if len(str(x)) < 40 else "%.12g" % float(x)
    s = str(x)
    return s if len(s) < 100 else s[:100] + "…"


def case_label(case):
    return "size=%d evaluator=%s eseed=%d budget=%d reuse=%s descend=%s noise=%s mix=%s sampler=%s sseed=%d C=%s pos=[%s]" % (
        case["size"], case["evaluator"], case["eseed"], case["budget"], case["reuse"], case.get("descend"), case["noise_alpha"], case["mix"],
        case["sampler"], case["sseed"], case["C"], case["pos"],
    )


# ------------------------------------------------------------------ protocol

def tie(ctx):
    td.single_thread()
    divs = []
    ctx.extra.setdefault("c08_findings", [])
    store = []
    sessions = {}
    work = []
    for k, sess in enumerate(plan_sessions(ctx)):
        sessions[k] = sess
        shared = {}
        for case in sess:
            work.append((case, k, shared))
    work += [(case, None, None) for case in plan(ctx)]
    tie.sessions = sessions
    for case, sid, shared in work:
        ctx.count("evaluator:" + case["evaluator"])
        ctx.count("size:%d" % case["size"])
        if case.get("family"):
            ctx.count("start:" + case["family"])
        ctx.count("noise:%s" % ("on" if case["noise_alpha"] is not None else "off"))
        ctx.count("sampler:" + case["sampler"])
        res = td.run_case(case, shared=shared)
        findings, trees = check_run(res, ctx)
        if sid is not None:
            for f in findings:
                f.session = sid
        for t in trees[:1]:
            ctx.sample({"case": case_label(case), "root_visits": t["sims"], "root_value": str(t["value"]), "children": len(t["children"] or [])})
        for f in findings:
            if f.kind == "aborted":
                ctx.count("aborted:" + f.key)
                ctx.note("search aborted (%s) on %s" % (f.what[:160], case_label(case)))
                continue
            store.append((case, f))
            divs.append(Divergence("pred.tree-inv" if f.kind == "predicate" else "corr.tree", {"case": case, "phase": f.phase, "path": f.path}, f.what, "ok"))
        if ctx.elapsed() > (560 if ctx.thorough else 200):
            ctx.note("time budget reached; remaining cases skipped")
            break
    tie.store = store
    if hasattr(td.HarnessEvaluator, "modes"):
        pass
    return divs


def _shrink(case, key):
    """smaller budget / no re-use / no noise while the same finding class persists"""
    best = dict(case)

    def fails(c):
        try:
            fs, _ = check_run(td.run_case(c))
        except Exception:
            return False
        return any(f.key == key and f.kind != "aborted" for f in fs)

    if best.get("descend"):
        for dd in (None, best["descend"][:1]):
            c = dict(best, descend=dd)
            if c != best and fails(c):
                best = c
                break
    if best.get("reuse"):
        c = dict(best, reuse=None)
        if fails(c):
            best = c
    if best["noise_alpha"] is not None:
        c = dict(best, noise_alpha=None)
        if fails(c):
            best = c
    for n in [1, 2, 3, 4, 5, 6, 8, 10, 15, 20, 30, 50]:
        if n >= best["budget"]:
            break
        c = dict(best, budget=n)
        if c.get("reuse") and c["reuse"] <= n:
            c["reuse"] = n + 1
        if fails(c):
            best = c
            break
    return best


def search(ctx, divergences, broken):
    """Turn findings into violations.  A finding whose property predicate (TreeInv / root visits /
    position snapshot, all evaluated on implementation data) fails is a violation of that class; a
    tree that differs from the model's although the predicate holds is reported as
    `model-mismatch` with the concrete case."""
    store = getattr(tie, "store", [])
    by_key = {}
    for case, f in store:
        by_key.setdefault(f.key, []).append((case, f))
    # a model mismatch that coincides with a predicate failure in the same case is explained by it
    pred_cases = {json.dumps(c, sort_keys=True) for c, f in store if f.kind == "predicate"}
    for d in divergences:
        cj = json.dumps(d.input["case"], sort_keys=True)
        if d.component == "pred.tree-inv" or cj in pred_cases:
            d.explained = True
    vs = []
    order = sorted(by_key, key=lambda k: (k == "model-mismatch", k))
    for key in order:
        lst = by_key[key]
        if key == "model-mismatch" and all(json.dumps(c, sort_keys=True) in pred_cases for c, f in lst):
            continue
        lst.sort(key=lambda cf: (cf[0]["budget"] + (cf[0]["reuse"] or 0), cf[0]["size"]))
        case, f = lst[0]
        if f.session is not None:
            sess = getattr(tie, "sessions", {}).get(f.session, [case])
            vs.append(
                Violation(
                    key,
                    "%s — search %d of %d made by ONE engine object (boards %s); this search: %s (%d such findings in this run)"
                    % (f.what, sess.index(case) + 1 if case in sess else 0, len(sess), [c["size"] for c in sess], case_label(case), len(lst)),
                    {"session": sess, "key": key},
                )
            )
            continue
        small = _shrink(case, key)
        what = f.what
        if small != case:
            fs, _ = check_run(td.run_case(small))
            for g in fs:
                if g.key == key:
                    what = g.what
                    break
            case = small
        vs.append(Violation(key, "%s — %s (%d such findings in this run)" % (what, case_label(case), len(lst)), {"case": case, "key": key}))
        for d in divergences:
            if key == "model-mismatch" and d.component == "corr.tree":
                d.explained = True
    if broken and not vs:
        # proof or build broken but the implementation agrees with the model on everything tried:
        # widen the search once before giving up
        for case in plan(ctx, scale=0.5):
            findings, _ = check_run(td.run_case(case), ctx)
            for f in findings:
                if f.kind != "aborted":
                    vs.append(Violation(f.key, "%s — %s" % (f.what, case_label(case)), {"case": case, "key": f.key}))
            if vs:
                break
    return vs


def replay(ctx, data):
    r = data.get("replay", data)
    if "session" in r:
        out, shared = [], {}
        for case in r["session"]:
            findings, _ = check_run(td.run_case(case, shared=shared), ctx)
            out += [Violation(f.key, "%s — %s" % (f.what, case_label(case)), r) for f in findings if f.kind != "aborted"]
        return out
    case = r["case"]
    res = td.run_case(case)
    findings, _ = check_run(res, ctx)
    return [Violation(f.key, "%s — %s" % (f.what, case_label(case)), r) for f in findings if f.kind != "aborted"]

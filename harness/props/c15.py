"""C15 — board symmetries commute with the rules."""
from ..check import Divergence, Violation
from ..lib import driver, gen, implrun, ser

ID = "C15"
LEAN_MODULES = ["TakVerif.Props.C15"]
# cross-operation sessions (lib/session.py): which operations this property judges
SESSION = {"kinds": {"tpos", "variants"}, "lineage_kinds": {"tpos", "copy"}}
RULE = (
    "matrices: the values of SYMMETRIES and the affine maps observed through transform_move on basis moves, compared as a SET "
    "with the model's eight (the property does not fix the enumeration order); transform_move: EVERY well-formed move of sizes "
    "3..8 under every matrix (exhaustive) plus an ill-formed stream, and every transformed table move must be equal (==, hash) "
    "to a table move and be a key of MOVES_TO_ID where that table exists; transform_position / symmetries: reachable and constructed positions, sizes 3..8, standard "
    "AND custom reserves, plus NEAR-SYMMETRIC positions: for every one of the eight a board symmetrised over the orbits of the "
    "subgroup it generates (identity: the whole group) with ONE orbit member changed minimally (one buried flat added / removed / "
    "recoloured of either colour, top kind or colour changed, part below the top reversed, bottom duplicated, square emptied), and the "
    "same shape reached by legal play from the initial position (flats laid on two orbits, one piece slid onto one member while the "
    "opponent moves a piece away and back); orbits come from the Lean model via the driver; commutation square run directly on the implementation: transform-then-play vs play-then-transform for "
    "every matrix x sampled position x every well-formed move of the size (size 8 quick tier: a sample) plus ill-formed moves; "
    "invariance of winner(), to_move(), ply, stones, size. One evaluation = one compared output. Non-trivial = a commutation "
    "square whose move was accepted, a transformed position that differs from its source, or a variants list with 1 < n < 8 or n = 8 entries."
)
TRUSTED = [
    "modelled, not verified: numpy integer matmul on 3x3 matrices and the float->int conversion of the index grid in transform_position; attrs.evolve",
]
ASSUMPTIONS = [
    "positions are well-formed (board of size*size squares); coordinates fit int64 (numpy matmul)",
    "game outcome: C15_winner_invariant / C15_hasRoad_invariant are over Impl.winner / Impl.hasRoad (via C02_winner_spec); "
    "the harness additionally checks winner() invariance on the implementation directly",
]

KEYS = ("reserves-changed", "commute-fails", "not-a-group", "variants-wrong", "outcome-changed", "transformed-move-unknown")


# ------------------------------------------------------------------ implementation access


def _S():
    import tak.symmetry as S

    return S


def mat_list(sym):
    """a matrix of the implementation as 9 Python ints (row major)"""
    return [int(v) for row in sym for v in row]


def mat_str(vals):
    return ",".join(str(v) for v in vals)


def mat_np(vals):
    import numpy as np

    return np.array([vals[0:3], vals[3:6], vals[6:9]], dtype=int)


def tpos_out(sym, pos):
    try:
        q = _S().transform_position(sym, pos)
    except Exception as e:
        return "crash " + type(e).__name__, None
    try:
        return "ok " + ser.pos_str(q), q
    except Exception as e:
        return "crash-ser " + type(e).__name__, None


def tmove_out(sym, m, size):
    try:
        t = _S().transform_move(sym, m, size)
    except Exception as e:
        return "crash " + type(e).__name__, None
    try:
        return "ok " + ser.move_str(t), t
    except Exception as e:
        return "crash-ser " + type(e).__name__, None


def winner_str(pos):
    try:
        w = pos.winner()
    except Exception as e:
        return "crash " + type(e).__name__
    col = "N" if w[0] is None else ("W" if w[0].value == 0 else "B")
    why = "N" if w[1] is None else w[1].name
    return col + " " + why


def observed_matrix(sym):
    """rows 1-2 observed through transform_move on basis moves (size 2: w = 1), directions
    through the slide types; row 3 from the value itself (not observable through behaviour)"""
    import tak

    S = _S()
    o = S.transform_move(sym, tak.Move(0, 0), 2)
    ex = S.transform_move(sym, tak.Move(1, 0), 2)
    ey = S.transform_move(sym, tak.Move(0, 1), 2)
    a02, a12 = o.x, o.y
    a00, a10 = ex.x - o.x, ex.y - o.y
    a01, a11 = ey.x - o.x, ey.y - o.y
    vals = mat_list(sym)
    return [a00, a01, a02, a10, a11, a12] + vals[6:9]


def square(sym, pos, m, tp=None, base=None):
    """(transform-then-play, play-then-transform) canonical outputs"""
    size = pos.size
    if tp is None:
        to, tp = tpos_out(sym, pos)
    else:
        to = "ok"
    tmo, tm = tmove_out(sym, m, size)
    if tp is None:
        lhs = "tpos-" + to
    elif tm is None:
        lhs = "tmove-" + tmo
    else:
        lhs = implrun.move_out(tp, tm)
    if base is None:
        base = _base(pos, m)
    bo, q = base
    if q is None:
        rhs = bo
    else:
        rhs, _ = tpos_out(sym, q)
    return lhs, rhs


def _base(pos, m):
    import tak

    try:
        q = pos.move(m)
    except tak.IllegalMove:
        return "illegal", None
    except Exception as e:
        return "crash " + type(e).__name__, None
    return "ok", q


def invariants(sym, pos, tq=None):
    """list of (name, before, after) that differ under the transformation"""
    if tq is None:
        _, tq = tpos_out(sym, pos)
    if tq is None:
        return [("transform", "ok", "crash")]
    bad = []
    for name, f in (
        ("stones", lambda p: str([(s.stones, s.caps) for s in p.stones])),
        ("ply", lambda p: str(p.ply)),
        ("size", lambda p: str(p.size)),
        ("to_move", lambda p: str(p.to_move().value)),
        ("winner", winner_str),
    ):
        a, b = f(pos), f(tq)
        if a != b:
            bad.append((name, a, b))
    return bad


# ------------------------------------------------------------------ inputs


def _positions(ctx, size, ngames, ncons):
    """reachable + constructed, and always some with custom reserves"""
    rng = ctx.rng
    out = gen.sample_positions(rng, [size], ngames, per_game=4, constructed_per_size=ncons, custom_prob=0.5)
    # one explicit custom-reserve game per size (small reserves so that exhaustion happens)
    import tak

    cfg = tak.Config(size=size, pieces=rng.choice([2, 3, size, size + 2]), capstones=rng.choice([0, 1, 2, 3]))
    game = gen.play_random_game(rng, cfg, "drain", max_plies=4 * size)
    out.append(("reach:custom", game[0]))
    out.append(("reach:custom", game[len(game) // 2]))
    out.append(("reach:custom", game[-1]))
    return out


def _is_custom(pos):
    """reserves differ from what the standard piece set would leave for this board"""
    import tak

    try:
        std = tak.Position.from_squares(tak.Config(size=pos.size), list(pos.board), pos.ply)
    except Exception:
        return True
    return std.stones != pos.stones


# ------------------------------------------------------------------ near-symmetric positions
#
# A position invariant under a subgroup H of the eight (built by putting the same stack on every
# square of an H-orbit), then ONE orbit member perturbed minimally.  Such a position differs from
# some of its images in a single square and in the smallest possible way, which is where a
# de-duplication (or any comparison of variants) that looks at less than the whole position goes
# wrong.  The action of the eight on squares is taken from the Lean model through the driver
# (`tmove` on a placement), not from a table kept here.


def _sigma_maps(size):
    """maps[k][(x, y)] = image of the square under the k-th matrix of the model"""
    sqs = [(x, y) for x in range(size) for y in range(size)]
    lines = ["symmetry tmove %d %d %d %d 1 none" % (k, size, x, y) for k in range(8) for (x, y) in sqs]
    outs = driver.run_lines(lines)
    maps = []
    it = iter(outs)
    for k in range(8):
        m = {}
        for sq in sqs:
            t = next(it).split(" ")
            m[sq] = (int(t[1]), int(t[2]))
        maps.append(m)
    return maps


def _orbits(size, gens):
    """orbits of the squares under the group generated by the maps `gens`"""
    seen, out = set(), []
    for x in range(size):
        for y in range(size):
            if (x, y) in seen:
                continue
            orb, todo = {(x, y)}, [(x, y)]
            while todo:
                a = todo.pop()
                for g in gens:
                    b = g[a]
                    if b not in orb:
                        orb.add(b)
                        todo.append(b)
            seen |= orb
            out.append(sorted(orb))
    return out


def _piece(col, kind):
    from tak import pieces

    return pieces.Piece.cached(pieces.Color(col), pieces.Kind(kind))


def _perturbations(st):
    """every minimal change of one stack (top first): (name, new stack)"""
    col = lambda pc: pc.color.value
    out = []
    top, below = st[0], st[1:]
    for c in (0, 1):
        out.append(("bottom+%s" % "WB"[c], st + [_piece(c, 0)]))
        out.append(("under-top+%s" % "WB"[c], [top] + [_piece(c, 0)] + below))
    out.append(("dup-bottom", st + [_piece(col(st[-1]), 0)]))
    out.append(("top-kind", [_piece(col(top), (top.kind.value + 1) % 3)] + below))
    out.append(("top-colour", [_piece(1 - col(top), top.kind.value)] + below))
    out.append(("emptied", []))
    if below:
        out.append(("remove-bottom", st[:-1]))
        out.append(("remove-under-top", [top] + below[1:]))
        out.append(("recolour-bottom", st[:-1] + [_piece(1 - col(st[-1]), 0)]))
        out.append(("recolour-under-top", [top, _piece(1 - col(below[0]), 0)] + below[1:]))
        if list(reversed(below)) != below:
            out.append(("reverse-below-top", [top] + list(reversed(below))))
    return out


def _mk_position(rng, size, board):
    import tak

    return tak.Position(
        size=size,
        stones=(
            tak.StoneCounts(rng.randrange(0, 40), rng.randrange(0, 3)),
            tak.StoneCounts(rng.randrange(0, 40), rng.randrange(0, 3)),
        ),
        ply=rng.choice([2, 3, 4, 7, 10, 21]),
        board=board,
    )


def near_symmetric_constructed(rng, size, maps, per_sigma=2):
    """for every sigma of the eight: bases invariant under <sigma> (identity: the whole group), one
    orbit member perturbed in every minimal way"""
    out = []
    for k in range(8):
        gens = [maps[k]]
        if all(maps[k][a] == a for a in maps[k]):
            gens = maps  # the identity: symmetrise under the whole group instead
        orbits = _orbits(size, gens)
        big = [o for o in orbits if len(o) >= 2]
        if not big:
            continue
        for b in range(per_sigma):
            board = [[] for _ in range(size * size)]
            chosen = rng.sample(orbits, min(len(orbits), rng.choice([1, 2, 3])))
            target = rng.choice(big)
            if target not in chosen:
                chosen.append(target)
            for orb in chosen:
                # base 0: single pieces; later bases: taller stacks (buried pieces are flats)
                h = 1 if (b == 0 and orb is not target) else rng.choice([1, 2, 2, 3, 4])
                if orb is target:
                    h = 1 if b == 0 else rng.choice([2, 3, 4])
                st = [_piece(rng.randrange(2), rng.choice([0, 0, 0, 1, 2]))] + [_piece(rng.randrange(2), 0) for _ in range(h - 1)]
                for (x, y) in orb:
                    board[x + y * size] = list(st)
            ax, ay = rng.choice(target)
            base_stack = board[ax + ay * size]
            out.append(("nearsym:symmetric-base", _mk_position(rng, size, [list(q) for q in board])))
            for name, st2 in _perturbations(base_stack):
                b2 = [list(q) for q in board]
                b2[ax + ay * size] = list(st2)
                out.append(("nearsym:" + name, _mk_position(rng, size, b2)))
    return out


def near_symmetric_reachable(rng, size, maps):
    """the same shape reached by legal play from the initial position (standard and custom reserves):
    Black's and White's flats are laid on two <sigma>-orbits of equal size; then one side puts a piece next
    to one of its orbit members and slides it onto that member, while the other side moves one of its own
    pieces away and back.  Result: sigma-symmetric except for ONE extra piece in ONE stack."""
    import tak

    MT = tak.MoveType
    dirs = {(-1, 0): MT.SLIDE_LEFT, (1, 0): MT.SLIDE_RIGHT, (0, 1): MT.SLIDE_UP, (0, -1): MT.SLIDE_DOWN}

    def chain(sig, o):  # the orbit in the order sigma runs through it
        c, a = [o[0]], sig[o[0]]
        while a != o[0]:
            c.append(a)
            a = sig[a]
        return c

    out = []
    for k in range(8):
        sig = maps[k]
        if all(sig[a] == a for a in sig):
            continue
        orbits = [o for o in _orbits(size, [sig]) if len(o) >= 2]
        for white_stacks in (True, False):
            rng.shuffle(orbits)
            pairs = [(ou, ov) for ou in orbits for ov in orbits if ou is not ov and len(ou) == len(ov)]
            for ou, ov in pairs:
                used = set(ou) | set(ov)
                cu, cv = chain(sig, ou), chain(sig, ov)  # Black's flats go on u, White's on v
                r = len(cu)

                def free_nb(a, avoid):
                    for (dx, dy) in dirs:
                        b = (a[0] + dx, a[1] + dy)
                        if 0 <= b[0] < size and 0 <= b[1] < size and b not in used and b not in avoid:
                            return b, (dx, dy)
                    return None

                tgt, oth = (cv[0], cu[0]) if white_stacks else (cu[0], cv[0])
                fd = free_nb(tgt, set())
                fn = free_nb(oth, {fd[0]} if fd else set())
                if fd is None or fn is None:
                    continue
                (d, dd), (n, dn) = fd, fn
                cfg = rng.choice([tak.Config(size=size), tak.Config(size=size, pieces=r + 3, capstones=rng.choice([0, 1, 2]))])
                # ply 0 (White) lays Black's flat on u, ply 1 (Black) lays White's flat on v; from ply 2 on
                # each side lays its own colour: White continues on v, Black on u.  After 2r plies: White to move.
                seq = [tak.Move(cu[0][0], cu[0][1]), tak.Move(cv[0][0], cv[0][1])]
                for i in range(1, r):
                    seq.append(tak.Move(cv[i][0], cv[i][1]))
                    seq.append(tak.Move(cu[i][0], cu[i][1]))
                kind = rng.choice([MT.PLACE_FLAT, MT.PLACE_FLAT, MT.PLACE_STANDING])
                place = tak.Move(d[0], d[1], kind)  # a piece next to the target ...
                onto = tak.Move(d[0], d[1], dirs[(-dd[0], -dd[1])], (1,))  # ... slid onto it
                away = tak.Move(oth[0], oth[1], dirs[dn], (1,))  # the other side: away ...
                back = tak.Move(n[0], n[1], dirs[(-dn[0], -dn[1])], (1,))  # ... and back
                seq += [place, away, onto, back] if white_stacks else [away, place, back, onto]
                pos = tak.Position.from_config(cfg)
                try:
                    for m in seq:
                        pos = pos.move(m)
                except tak.IllegalMove:
                    continue
                out.append(("nearsym-reach:%s-slides-onto-orbit-member" % ("white" if white_stacks else "black"), pos))
                break
    return out


# ------------------------------------------------------------------ tie


def tie(ctx):
    import tak

    S = _S()
    divs = []
    rng = ctx.rng

    # ---- A. matrices (as a set; identity first is checked through `variants`)
    model_m = driver.run_lines(["symmetry matrices"])[0]
    model_mats = [[int(v) for v in t.split(",")] for t in model_m[len("ok "):].split(";")] if model_m.startswith("ok ") else []
    impl_syms = list(S.SYMMETRIES)
    impl_vals = []
    kmap = []  # index in the model list of the i-th implementation matrix (None if unknown)
    for sym in impl_syms:
        ctx.evaluated()
        try:
            vals = mat_list(sym)
            obs = observed_matrix(sym)
        except Exception as e:
            vals, obs = None, "crash " + type(e).__name__
        impl_vals.append(vals)
        if vals is not None and obs == vals and vals in model_mats:
            kmap.append(model_mats.index(vals))
        else:
            kmap.append(None)
            divs.append(Divergence("corr.symmetry.matrices", {"kind": "group", "value": vals, "observed": obs}, str(obs), "one of " + model_m))
    if sorted(map(str, impl_vals)) != sorted(map(str, model_mats)) and not any(d.component == "corr.symmetry.matrices" for d in divs):
        divs.append(Divergence("corr.symmetry.matrices", {"kind": "group", "value": impl_vals}, str(impl_vals), model_m))
    ctx.count("matrices", len(impl_syms))
    usable = [(i, sym, kmap[i]) for i, sym in enumerate(impl_syms) if kmap[i] is not None]

    # ---- C. transform_move: every well-formed move of every size (exhaustive) + ill-formed stream
    lines, impl_out, meta = [], [], []
    unknown = {}
    for size in range(3, 9):
        universe = gen.wellformed_moves(size)
        index = {m: m for m in universe}
        ill = gen.illformed_moves(rng, size, 300 if ctx.thorough else 100)
        for i, sym, k in usable:
            vals = impl_vals[i]
            for m in universe:
                o, t = tmove_out(sym, m, size)
                ms = ser.move_str(m)
                lines.append("symmetry tmove %d %d %s" % (k, size, ms))
                impl_out.append(o)
                meta.append((vals, size, ms))
                # "the same move": equal to, hashing like, and typed like a table move
                if t is not None:
                    twin = index.get(t)
                    if twin is None or hash(twin) != hash(t):
                        unknown.setdefault((tuple(vals), size), (ms, o))
            for m in ill:
                o, t = tmove_out(sym, m, size)
                ms = ser.move_str(m)
                lines.append("symmetry tmove %d %d %s" % (k, size, ms))
                impl_out.append(o)
                meta.append((vals, size, ms))
                ctx.count("tmove:illformed")
        ctx.count("tmove:size%d" % size, len(universe) * len(usable))
    model_out = driver.run_lines(lines)
    for (vals, size, ms), io, mo in zip(meta, impl_out, model_out):
        ctx.evaluated()
        if io != mo:
            divs.append(Divergence("corr.symmetry.tmove", {"kind": "tmove", "sym": vals, "size": size, "move": ms}, io, mo))
    for (vals, size), (ms, o) in unknown.items():
        divs.append(Divergence("prop.moveid", {"kind": "moveid", "sym": list(vals), "size": size, "move": ms}, o, "a move of the size's table (==, hash)"))
    # move-id tables of the implementation where they exist (sizes 3..6)
    try:
        from tak.model import encoding

        for size in range(3, min(9, len(encoding.MOVES_TO_ID))):
            table = encoding.MOVES_TO_ID[size]
            for i, sym, k in usable:
                for m in table:
                    ctx.evaluated()
                    o, t = tmove_out(sym, m, size)
                    if t is None or t not in table:
                        divs.append(Divergence("prop.moveid", {"kind": "moveid", "sym": impl_vals[i], "size": size, "move": ser.move_str(m)}, o, "a key of MOVES_TO_ID[%d]" % size))
                        break
            ctx.count("moveid:size%d" % size, len(table) * len(usable))
    except ImportError:
        ctx.count("moveid:table-unavailable")
    ctx.exhaustive = True  # the move table x matrices part is complete for sizes 3..8

    # ---- B, D, E. positions
    if ctx.thorough:
        plan = {3: (60, 20, None), 4: (40, 14, None), 5: (22, 8, None), 6: (9, 5, None), 7: (3, 2, None), 8: (1, 2, None)}
        ill_n = 200
    else:
        plan = {3: (5, 3, None), 4: (3, 3, None), 5: (2, 2, None), 6: (1, 1, None), 7: (0, 1, 8000), 8: (0, 1, 5000)}
        ill_n = 60
    lines, impl_out, meta = [], [], []
    vlines, vmeta = [], []
    for size, (ngames, ncons, cap) in plan.items():
        universe = gen.wellformed_moves(size)
        sample = _positions(ctx, size, ngames, ncons)
        # squares are expensive: all positions get tpos/variants/invariants, a subset gets the full square
        nsq = max(2, len(sample) // 3) if not ctx.thorough else max(3, len(sample) // 2)
        sq_idx = set(rng.sample(range(len(sample)), min(nsq, len(sample))))
        # near-symmetric positions (constructed for every sigma x every minimal perturbation, and reached by play)
        maps = _sigma_maps(size)
        near = near_symmetric_constructed(rng, size, maps, per_sigma=4 if ctx.thorough else 2) + near_symmetric_reachable(rng, size, maps)
        near_from = len(sample)
        sample = sample + near
        near_sq = rng.sample(range(near_from, len(sample)), min(len(near), 6 if ctx.thorough else 2))
        sq_idx |= set(near_sq)
        if near:
            sq_idx.add(len(sample) - 1)  # a reached one
        near_cap = 4000 if ctx.thorough else 700
        # make sure a custom-reserve position is among them
        customs = [j for j, (_, p) in enumerate(sample) if _is_custom(p)]
        if customs:
            sq_idx.add(rng.choice(customs))
        for j, (label, pos) in enumerate(sample):
            ps = ser.pos_str(pos)
            custom = _is_custom(pos)
            ctx.count("pos:size%d" % size)
            ctx.count("pos:" + label.split(":")[0])
            if label.startswith("nearsym"):
                ctx.count(label)
            ctx.count("pos:custom-reserves" if custom else "pos:standard-reserves")
            tps = {}
            for i, sym, k in usable:
                if (i + j) % 2:
                    # the same group element as a FRESH array (what a caller gets from a product or an
                    # inverse of symmetries): a temporary, dropped as soon as the call returns
                    import numpy as _np

                    o, tq = tpos_out(_np.array(sym, copy=True), pos)
                    ctx.count("tpos:symmetry-passed-as-a-fresh-array")
                else:
                    o, tq = tpos_out(sym, pos)
                tps[i] = tq
                lines.append("symmetry tpos %d %s" % (k, ps))
                impl_out.append(o)
                meta.append((impl_vals[i], ps))
                if o != "ok " + ps:
                    ctx.nontrivial("tpos|%s|%s" % (mat_str(impl_vals[i]), ps))
                # invariance of winner/to_move/ply/stones/size, directly on the implementation
                ctx.evaluated()
                for name, a, b in invariants(sym, pos, tq):
                    divs.append(Divergence("prop.invariant", {"kind": "invariant", "sym": impl_vals[i], "pos": ps, "what": name}, b, a))
            # variants
            try:
                out = S.symmetries(pos)
                vtxt = [(mat_list(s_), ser.pos_str(p_)) for s_, p_ in out]
                vo = "ok"
            except Exception as e:
                vtxt, vo = [], "crash " + type(e).__name__
            vlines.append("symmetry variants " + ps)
            # every entry (sigma, q) must have q = T sigma pos (sigma looked up by value, not by position in the list)
            pair_ok = all(v_ in impl_vals and tps.get(impl_vals.index(v_)) is not None and ser.pos_str(tps[impl_vals.index(v_)]) == p_ for v_, p_ in vtxt)
            vmeta.append((ps, vtxt, vo if pair_ok else vo + " (an entry is not the image under its own matrix)"))
            n = len(vtxt)
            ctx.count("variants:n=%d" % n)
            if label.startswith("nearsym"):
                ctx.count("nearsym:variants:n=%d" % n)
            if n > 1:
                ctx.nontrivial("variants|" + ps)
            # commutation square
            if j not in sq_idx:
                continue
            ctx.count("square:positions")
            moves = universe
            cap_j = cap
            if j >= near_from:
                cap_j = min(cap, near_cap) if cap is not None else near_cap
            if cap_j is not None and len(universe) > cap_j:
                legal = []
                try:
                    legal = [m for m in pos.all_moves()]
                except Exception:
                    pass
                moves = legal + rng.sample(universe, cap_j)
            moves = list(moves) + gen.illformed_moves(rng, size, ill_n, pos)
            for m in moves:
                base = _base(pos, m)
                for i, sym, k in usable:
                    if tps[i] is None:
                        continue
                    lhs, rhs = square(sym, pos, m, tp=tps[i], base=base)
                    ctx.evaluated()
                    if base[1] is not None:
                        ctx.nontrivial("sq|%s|%s|%s" % (mat_str(impl_vals[i]), ps, ser.move_str(m)))
                        ctx.count("square:accepted")
                    else:
                        ctx.count("square:" + base[0].split(" ")[0])
                    if lhs != rhs:
                        divs.append(
                            Divergence(
                                "prop.commute",
                                {"kind": "commute", "sym": impl_vals[i], "pos": ps, "move": ser.move_str(m)},
                                "transform-then-play: " + lhs,
                                "play-then-transform: " + rhs,
                            )
                        )
    model_out = driver.run_lines(lines)
    for (vals, ps), io, mo in zip(meta, impl_out, model_out):
        ctx.evaluated()
        if io != mo:
            divs.append(Divergence("corr.symmetry.tpos", {"kind": "tpos", "sym": vals, "pos": ps}, io, mo))
    vmodel = driver.run_lines(vlines)
    for (ps, vtxt, vo), mo in zip(vmeta, vmodel):
        ctx.evaluated()
        mset = sorted(t.split(" ", 1)[1] for t in mo[len("ok "):].split(" ; ")) if mo.startswith("ok ") else None
        iset = sorted(p_ for _, p_ in vtxt)
        first_ok = bool(vtxt) and vtxt[0][1] == ps
        nodup = len(set(iset)) == len(iset)
        if vo != "ok" or mset != iset or not first_ok or not nodup:  # vo != "ok" also covers a wrong (sigma, q) pairing
            divs.append(
                Divergence("corr.symmetry.variants", {"kind": "variants", "pos": ps}, vo + " " + " ; ".join(p_ for _, p_ in vtxt), mo)
            )
    for d in divs[:3]:
        ctx.sample(d.to_json())
    if not divs and meta:
        for (vals, ps), io in list(zip(meta, impl_out))[:: max(1, len(meta) // 4)]:
            ctx.sample({"sym": mat_str(vals), "pos": ps, "transform_position": io})
    return divs


# ------------------------------------------------------------------ property predicates on one input


def _check(r):
    """Evaluate the property on one replay record using the implementation (and the driver for the
    decidable predicates).  Returns (key, text) or None."""
    S = _S()
    kind = r.get("kind")
    if kind == "group":
        vals = [mat_list(s) for s in S.SYMMETRIES]
        obs = [observed_matrix(s) for s in S.SYMMETRIES]
        ans = driver.run_lines(["symmetry checkgroup " + " ".join(mat_str(v) for v in vals)])[0]
        if ans != "true" or obs != vals:
            return "not-a-group", "SYMMETRIES = %s (observed through transform_move: %s) is not the dihedral group of the square (driver: %s)" % (vals, obs, ans)
        return None
    if kind in ("tmove", "moveid"):
        sym = mat_np(r["sym"])
        size = int(r["size"])
        m = ser.parse_move(r["move"].split(" "))
        o, t = tmove_out(sym, m, size)
        if t is None:
            return "commute-fails", "transform_move(%s, [%s], %d) raises: %s" % (r["sym"], r["move"], size, o)
        universe = {u: u for u in gen.wellformed_moves(size)}
        if m in universe:
            twin = universe.get(t)
            if twin is None or hash(twin) != hash(t):
                return "transformed-move-unknown", "transform_move(%s, [%s], %d) = %r is not (==, hash) a move of the size's table" % (r["sym"], r["move"], size, t)
        return None
    if kind == "variants":
        pos = ser.parse_pos(r["pos"].split(" "))
        try:
            out = S.symmetries(pos)
            toks = " ".join(mat_str(mat_list(s_)) + " " + ser.pos_str(p_) for s_, p_ in out)
        except Exception as e:
            return "variants-wrong", "symmetries([%s]) raises %s" % (r["pos"], type(e).__name__)
        rec = _reserves(S, pos)
        if rec:
            return rec
        ans = driver.run_lines(["symmetry checkvariants %s %s" % (r["pos"], toks)])[0]
        if ans != "true":
            return "variants-wrong", "symmetries([%s]) = %d entries [%s]: not (position itself first, no duplicates, all eight images) (driver: %s)" % (
                r["pos"], len(out), " ; ".join(ser.pos_str(p_) for _, p_ in out), ans)
        return None
    # the remaining kinds transform a position with one matrix
    pos = ser.parse_pos(r["pos"].split(" "))
    # history: the other symmetries have been applied before, each handed over as a temporary array that
    # is gone by now (the tie does this too); on code that only looks at the VALUE of the matrix it changes nothing
    import numpy as _np

    for s_ in S.SYMMETRIES:
        if mat_list(s_) != list(r["sym"]):
            try:
                S.transform_position(_np.array(s_, copy=True), pos)
            except Exception:
                pass
    sym = mat_np(r["sym"])
    o, tq = tpos_out(sym, pos)
    if tq is None:
        return "commute-fails", "transform_position(%s, [%s]) raises: %s" % (r["sym"], r["pos"], o)
    bad = invariants(sym, pos, tq)
    names = [b[0] for b in bad]
    if "stones" in names:
        b = bad[names.index("stones")]
        return "reserves-changed", "transform_position(%s, [%s]) changes the reserves %s -> %s (result [%s])" % (r["sym"], r["pos"], b[1], b[2], o[3:])
    for n_ in ("ply", "size", "to_move"):
        if n_ in names:
            b = bad[names.index(n_)]
            return "commute-fails", "transform_position(%s, [%s]) changes %s: %s -> %s" % (r["sym"], r["pos"], n_, b[1], b[2])
    if "winner" in names:
        b = bad[names.index("winner")]
        return "outcome-changed", "winner() of [%s] is %s but of its image under %s it is %s" % (r["pos"], b[1], r["sym"], b[2])
    if kind == "commute" or r.get("move"):
        m = ser.parse_move(r["move"].split(" "))
        lhs, rhs = square(sym, pos, m)
        if lhs != rhs:
            return "commute-fails", "sym=%s pos=[%s] move=[%s]: transform-then-play gives [%s], play-then-transform gives [%s]" % (r["sym"], r["pos"], r["move"], lhs, rhs)
    return None


def _reserves(S, pos):
    for s_ in S.SYMMETRIES:
        _, tq = tpos_out(s_, pos)
        if tq is not None and tq.stones != pos.stones:
            return "reserves-changed", "transform_position(%s, [%s]) changes the reserves %s -> %s" % (
                mat_list(s_), ser.pos_str(pos), [(s.stones, s.caps) for s in pos.stones], [(s.stones, s.caps) for s in tq.stones])
    return None


def _find_commute_failure(sym_vals, ps):
    """a tpos divergence that keeps every invariant: look for a move on which the square breaks"""
    sym = mat_np(sym_vals)
    pos = ser.parse_pos(ps.split(" "))
    _, tp = tpos_out(sym, pos)
    if tp is None:
        return None
    cands = []
    try:
        cands = list(pos.all_moves())
    except Exception:
        pass
    cands += gen.wellformed_moves(pos.size)
    for m in cands:
        lhs, rhs = square(sym, pos, m, tp=tp)
        if lhs != rhs:
            return ser.move_str(m)
    return None


def _size_of(r):
    if "pos" in r:
        return (len(r["pos"]), len(r.get("move", "")))
    return (0, len(r.get("move", "")))


def _shrink(r, key):
    """empty squares / simplify while the same failure class persists"""
    if "pos" not in r:
        return r
    toks = r["pos"].split(" ")
    board = toks[6].split(",")
    cur = dict(r)
    for i in range(len(board)):
        if board[i] == "_":
            continue
        b2 = list(board)
        b2[i] = "_"
        cand = dict(cur)
        cand["pos"] = " ".join(toks[:6] + [",".join(b2)])
        try:
            res = _check(cand)
        except Exception:
            res = None
        if res and res[0] == key:
            board = b2
            cur = cand
    return cur


SEARCH_BUDGET_S = 150.0
PER_COMPONENT = 30


def search(ctx, divergences, broken):
    """Every divergence is a candidate failing input.  They are examined smallest first, component by
    component; once a component has produced PER_COMPONENT confirmed failures (or the time budget is
    spent) the rest of that component is left unexamined (and therefore not marked explained)."""
    import time

    t0 = time.time()
    found = {}
    by_comp = {}
    for d in divergences:
        by_comp.setdefault(d.component, []).append(d)
    for comp, lst in sorted(by_comp.items()):
        lst.sort(key=lambda d: _size_of(d.input))
        hits = 0
        for d in lst:
            if hits >= PER_COMPONENT or time.time() - t0 > SEARCH_BUDGET_S:
                break
            r = dict(d.input)
            try:
                res = _check(r)
                if res is None and r.get("kind") == "tpos":
                    mv = _find_commute_failure(r["sym"], r["pos"])
                    if mv is not None:
                        r = dict(r, kind="commute", move=mv)
                        res = _check(r)
                if res is None and r.get("kind") == "tmove":
                    # transform_move differs from the model: look for a position where the square breaks with it
                    w = _tmove_witness(ctx, r)
                    if w:
                        r, res = w
            except Exception as e:  # the machinery, not the property
                ctx.note("search: %s on %s" % (type(e).__name__, r))
                res = None
            if res:
                hits += 1
                d.explained = True
                found.setdefault(res[0], []).append((r, res[1]))
        ctx.count("search:%s:examined" % comp, min(len(lst), hits if hits >= PER_COMPONENT else len(lst)))
    vs = []
    for key, lst in found.items():
        lst.sort(key=lambda c: _size_of(c[0]))
        r, text = lst[0]
        try:
            r2 = _shrink(r, key)
            res2 = _check(r2)
            if res2 and res2[0] == key:
                r, text = r2, res2[1]
        except Exception:
            pass
        vs.append(Violation(key, "%s (%d confirmed inputs of this class; %d divergences in this run)" % (text, len(lst), len(divergences)), r))
    return vs


def _tmove_witness(ctx, r):
    """the implementation's transform_move disagrees with the model on (sym, size, move):
    build positions in which that move is accepted and test the square there"""
    import tak

    size = int(r["size"])
    m = ser.parse_move(r["move"].split(" "))
    if not (0 <= m.x < size and 0 <= m.y < size):
        return None
    W = tak.Piece(tak.Color.WHITE, tak.Kind.FLAT)
    B = tak.Piece(tak.Color.BLACK, tak.Kind.FLAT)
    tries = []
    if m.type.is_slide():
        if not m.slides:
            return None
        h = sum(m.slides)
        for ply, top in ((2, W), (3, B)):
            board = [[] for _ in range(size * size)]
            board[m.x + m.y * size] = [top] * h
            tries.append(tak.Position.from_squares(tak.Config(size=size, pieces=60, capstones=2), board, ply))
    else:
        tries.append(tak.Position.from_squares(tak.Config(size=size, pieces=60, capstones=2), [[] for _ in range(size * size)], 2))
    for pos in tries:
        cand = {"kind": "commute", "sym": r["sym"], "pos": ser.pos_str(pos), "move": r["move"]}
        res = _check(cand)
        if res:
            return cand, res
    return None


def replay(ctx, data):
    r = data.get("replay", data)
    res = _check(r)
    if res:
        return [Violation(res[0], res[1], r)]
    return []

"""C19 — training state survives snapshots, mode switches and interruption.

Tie (`corr.snapshot`): the real `SavingHook` / `save_snapshot` / `load_or_init_model` /
`load_state` / `serve_mode` / `train_mode` / `train_step` on a tiny transformer with a
PolicyValue head and AdamW carrying non-trivial state.  For each scripted history the saving
process runs under `strace`; its successful system calls on the run directory, abstracted to the
model's operation alphabet, must be the model's operation list; then the process is killed on
entry to EVERY one of those calls (and, with a file in flight, the file is cut to several
prefixes), the run directory is compared with the model's crash-prefix state, and the real
resume logic, in a new process on a fresh TrainingRun, must give the outcome the model predicts.
The property predicate of the failing-input search (`snapshot verdict`) is evaluated by the Lean
driver on the observed outcomes."""
import json
import os
import re
import shutil
import tempfile

from ..check import Divergence, Violation
from ..lib import driver, snap_pool, snap_trace

ID = "C19"
LEAN_MODULES = ["TakVerif.Props.C19"]
NEEDS_EXT = True
NEEDS_STUBS = True
RULE = (
    "scripted histories of trainer processes (first save, periodic, SAVE_NOW, after_step+after_run of the same step, "
    "resume then train then save, resume then re-save, stale step_N.tmp, orphan step_N, stale latest.tmp, crashed first "
    "save); for each, EVERY successful file-system call of the final process is a crash point (kill on entry via strace "
    "inject), plus prefixes of the file in flight. One evaluation = one (history, crash point[, cut]) compared with the "
    "model (run directory + how a fresh run starts) under one of the three resume configurations the code distinguishes "
    "(load_model unset / a model-only directory / a full snapshot of another run with opt.pt), ALL four restored components "
    "compared bit-exactly; or one serve/train round trip for one of the 16 (train_dtype, serve_dtype) pairs over "
    "float64/float32/bfloat16/float16 on weights with tiny/denormal/huge magnitudes (direct and through the real train_step), "
    "or one save->load into fresh objects for a model configuration (positional encoding sin/learned/none x PolicyValue/text head "
    "x shapes; every tensor of state_dict), or one window step. Non-trivial = a crash point after the "
    "first operation, a mode switch that changed bits, a window push that evicted."
)
TRUSTED = [
    "modelled, not verified: POSIX rename/symlink/unlink/mkdir semantics incl. atomic rename, torch.save/torch.load and "
    "yaml dump/load being mutually inverse on complete files, sequential writes leaving a prefix when killed",
    "strace (system call log and kill injection on syscall entry)",
]
ASSUMPTIONS = [
    "no power-loss reordering (no fsync is claimed); one trainer process per run directory at a time",
    "config.run_dir set; config.load_model unset, a complete model-only directory, or a complete snapshot of another run",
]

# ---------------------------------------------------------------------------------------------
# scripted histories


def P(*actions):
    return {"kind": "proc", "actions": [list(a) for a in actions]}


def C(after, *actions):
    """a process killed right after its first operation matching `after`"""
    return {"kind": "crash", "after": after, "actions": [list(a) for a in actions]}


SAVE1 = P(["init", 1, 5], ["hook", "after_step", 5])

HISTORIES = [
    {"name": "first-save", "pre": [], "final": [["init", 1, 5], ["hook", "after_step", 5]]},
    {"name": "periodic", "pre": [SAVE1], "final": [["init", 2, 10], ["hook", "after_step", 5]]},
    {"name": "save-now", "pre": [SAVE1, "touch"], "final": [["init", 2, 7], ["hook", "after_step", 5]]},
    {
        "name": "end-of-run-resave",
        "pre": [SAVE1],
        "final": [["init", 2, 10], ["hook", "after_step", 5], ["hook", "after_run", 5]],
    },
    {
        "name": "resume-train-save",
        "pre": [SAVE1],
        "final": [["resume"], ["train", 31, 3], ["hook", "after_step", 1], ["hook", "after_run", 1]],
    },
    {"name": "resume-resave", "pre": [SAVE1], "final": [["resume"], ["hook", "after_run", 5]]},
    {
        "name": "tmp-debris",
        "pre": [SAVE1, C(r"create:step_000010(\.tmp)?/opt\.pt$", ["init", 2, 10], ["hook", "after_step", 5])],
        "final": [["resume"], ["init", 3, 10], ["hook", "after_step", 5]],
    },
    {
        "name": "orphan-step",
        "pre": [SAVE1, C(r"rename:step_000010\.tmp:step_000010$", ["init", 2, 10], ["hook", "after_step", 5])],
        "final": [["resume"], ["init", 3, 10], ["hook", "after_step", 5]],
    },
    {
        "name": "latest-tmp-debris",
        "pre": [SAVE1, C(r"symlink:step_000010:latest\.tmp$", ["init", 2, 10], ["hook", "after_step", 5])],
        "final": [["resume"], ["init", 3, 15], ["hook", "after_run", 5]],
    },
    {
        "name": "first-save-crashed",
        "pre": [C(r"create:step_000005(\.tmp)?/replay_buffer\.pt$", ["init", 1, 5], ["hook", "after_step", 5])],
        "final": [["resume"], ["init", 2, 5], ["hook", "after_step", 5]],
    },
]

THOROUGH_HISTORIES = [
    {
        "name": "chain",
        "pre": [
            SAVE1,
            P(["resume"], ["init", 2, 10], ["hook", "after_step", 5], ["hook", "after_run", 5]),
            C(r"finish:step_000015(\.tmp)?/model\.pt$", ["resume"], ["init", 3, 15], ["hook", "after_step", 5]),
            C(r"rename:step_000015\.tmp:step_000015$", ["resume"], ["init", 4, 15], ["hook", "after_step", 5]),
        ],
        "final": [["resume"], ["init", 5, 15], ["hook", "after_step", 5], ["hook", "after_run", 5]],
    },
    {
        "name": "save-now-and-periodic",
        "pre": [SAVE1, "touch"],
        "final": [["init", 2, 10], ["hook", "after_step", 5], ["init", 3, 11], ["hook", "after_step", 5]],
    },
    {
        "name": "orphan-then-resave-twice",
        "pre": [SAVE1, C(r"rmdir:step_000010$|rename:step_000010\.tmp:step_000010$", ["init", 2, 10], ["hook", "after_run", 5])],
        "final": [["resume"], ["init", 3, 10], ["hook", "after_run", 5], ["hook", "after_run", 5]],
    },
    {
        "name": "killed-inside-orphan-rmtree",
        "pre": [
            SAVE1,
            C(r"rename:step_000010\.tmp:step_000010$", ["init", 2, 10], ["hook", "after_step", 5]),
            C(r"unlinkin:step_000010/", ["resume"], ["init", 3, 10], ["hook", "after_step", 5]),
        ],
        "final": [["resume"], ["init", 4, 10], ["hook", "after_step", 5]],
    },
    {
        "name": "killed-inside-tmp-rmtree",
        "pre": [
            SAVE1,
            C(r"create:step_000010(\.tmp)?/replay_buffer\.pt$", ["init", 2, 10], ["hook", "after_step", 5]),
            C(r"unlinkin:step_000010\.tmp/", ["resume"], ["init", 3, 10], ["hook", "after_step", 5]),
        ],
        "final": [["resume"], ["init", 4, 10], ["hook", "after_step", 5]],
    },
]

QUICK_EXTRA = ["killed-inside-orphan-rmtree", "killed-inside-tmp-rmtree"]

LETTER = {"model.pt": "m", "config.yaml": "c", "opt.pt": "o", "replay_buffer.pt": "r", "elapsed.yaml": "e"}


class Skip(Exception):
    """the history cannot be staged on this implementation; `failed`: because one of its
    processes died on its own (reported as a divergence), not because an operation is absent"""

    def __init__(self, msg, failed=False):
        Exception.__init__(self, msg)
        self.failed = failed


def proc_failure(r):
    if r["code"] == 0 and r["out"] and r["out"].get("completed"):
        return None
    why = ""
    for a in (r["out"] or {}).get("actions", []):
        if a.get("resume") and a["resume"][0] == "error":
            why = "its resume raised %s; " % a["resume"][1]
    try:
        log = open(r["spec"]["log"]).read()[-500:]
    except OSError:
        log = ""
    return "%sexit code %s signal %s %s" % (why, r["code"], r["sig"], log.replace("\n", " | "))


class Lab:
    """working directory, process pool, and what has been observed about states and files"""

    def __init__(self, ctx):
        self.ctx = ctx
        self.dir = tempfile.mkdtemp(prefix="c19-")
        self.pool = snap_pool.Pool(self.dir)
        self.n = 0
        self.catalogue = {}  # (params, opt, replay, counters) digests -> "id:step"
        self.components = {}  # (component, digest) -> {state ids}
        self.components_of_lm = None
        self.param_fps = {}  # state id -> {state_dict key: tensor digest}
        self.names = {}  # "id:step" -> digests, to notice a state that is not reproducible
        self.config_digest = None
        self.lm = {"unset": None, "model": None, "full": None}  # config.load_model per configuration
        self.bad_reference = []  # an uninterrupted first save into an empty directory did not round-trip

    def close(self):
        try:
            self.pool.close()
        finally:
            if os.environ.get("VERIF_C19_KEEP") != "1":
                shutil.rmtree(self.dir, ignore_errors=True)

    def fresh(self, label):
        self.n += 1
        d = os.path.join(self.dir, "%s-%04d" % (label, self.n))
        return d

    def copy(self, src, label):
        d = self.fresh(label)
        shutil.copytree(src, d, symlinks=True)
        return d

    def spec(self, run_dir, actions, trace=False, inject=None):
        s = {"mode": "proc", "run_dir": run_dir, "actions": actions, "trace": None, "inject": inject}
        if trace:
            s["trace"] = run_dir + ".trace"
        return s

    # -- what the processes reported -------------------------------------------------------
    def register(self, sid, fp):
        key = (fp["params"], fp["opt"], fp["replay"], fp["counters"])
        name = "%d:%d" % (sid, fp["step"])
        other = self.names.get(name)
        if other is not None and other != key:
            # the machinery, not the implementation: scripted states must be reproducible
            raise RuntimeError("state %s is not the same in two processes of this run (%s vs %s)" % (name, other, key))
        self.names[name] = key
        self.catalogue[key] = name
        for comp in ("params", "opt", "replay", "counters"):
            self.components.setdefault((comp, fp[comp]), set()).add(sid)
        if fp.get("param_fps"):
            self.param_fps[sid] = fp["param_fps"]

    LM_SID = 900  # the state held by the `load_model` directories

    def classify(self, res, cfg="unset"):
        """what a fresh run got from `load_or_init_model`, named by comparing ALL FOUR restored
        components bit-exactly with what some process reported having held:
        fresh | warm:model | warm:full | loaded:<id>:<step> | error |
        loaded:mixed (a combination of complete components that was never saved together) |
        loaded:partial (a component nobody ever held: partial data was accepted)"""
        kind, detail = res[0], res[1]
        base = res[2] if len(res) > 2 else None
        if kind == "error":
            return "error", detail
        key = (detail["params"], detail["opt"], detail["replay"], detail["counters"])
        untouched = base is not None and (detail["opt"], detail["replay"], detail["counters"]) == (
            base["opt"],
            base["replay"],
            base["counters"],
        )
        if kind == "fresh" and (untouched or base is None):
            return "fresh", None
        if kind != "fresh" and key in self.catalogue:
            return "loaded:" + self.catalogue[key], None
        lm = self.components_of_lm
        if kind != "fresh" and base is not None and lm and detail["params"] == lm["params"]:
            if (detail["replay"], detail["counters"]) == (base["replay"], base["counters"]):
                if detail["opt"] == base["opt"]:
                    return "warm:model", None
                if detail["opt"] == lm["opt"]:
                    return "warm:full", None
        parts, known = [], True
        for i, comp in enumerate(("params", "opt", "replay", "counters")):
            owners = sorted("%d" % x for x in self.components.get((comp, key[i]), ()))
            if base is not None and comp != "params" and key[i] == base[comp]:
                owners.append("new")
            if kind == "fresh" and comp == "params":
                owners.append("init_weights")
            if not owners:
                known = False
            parts.append("%s=%s" % (comp, "|".join(owners) if owners else "?"))
        return ("loaded:mixed" if known else "loaded:partial"), ",".join(parts)

    COMPONENT = {"model.pt": "params", "opt.pt": "opt", "replay_buffer.pt": "replay", "elapsed.yaml": "counters"}

    def tagger(self, digests):
        """names the content of a file from what a fresh process read out of it"""

        def tag_of(rel):
            dig = digests.get(rel)
            f = rel.split("/", 1)[1]
            if dig is None:
                return "p"
            if f == "config.yaml":
                return "cfg" if dig == self.config_digest else "p"
            if f == "model.pt":
                ids = [sid for sid, fps in self.param_fps.items() if all(fps.get(k) == v for k, v in dig.items())]
                return "|".join("s%d" % i for i in sorted(ids)) if ids else "p"
            ids = self.components.get((self.COMPONENT.get(f), dig))
            return "|".join("s%d" % i for i in sorted(ids)) if ids else "p"

        return tag_of


def hook_states(lab, actions, out):
    """[(trigger token, sid, step)] for the hook actions of a process, from what it reported"""
    cur = None
    res = []
    recs = out["actions"] if out else []
    for i, act in enumerate(actions):
        rec = recs[i] if i < len(recs) else None
        if act[0] == "init":
            cur = (int(act[1]), int(act[2]))
            if rec:
                lab.register(cur[0], rec["fp"])
        elif act[0] == "train":
            if rec:
                cur = (int(act[2]), int(rec["fp"]["step"]))
                lab.register(cur[0], rec["fp"])
        elif act[0] == "resume":
            if rec:
                c, _ = lab.classify(rec["resume"])
                m = re.match(r"loaded:(\d+):(\d+)$", c)
                cur = (int(m.group(1)), int(m.group(2))) if m else None
        elif act[0] == "hook":
            trig = "run" if act[1] == "after_run" else "step%d" % int(act[2])
            if cur is None:
                raise Skip("hook without a known state")
            res.append((trig, cur[0], cur[1]))
    return res


def reference_states(lab, hists):
    """one uninterrupted save of every `init` state: its fingerprint and the bytes of its files"""
    todo = {}
    for h in hists:
        procs = [e for e in h["pre"] if isinstance(e, dict)] + [{"actions": h["final"]}]
        for p in procs:
            for a in p["actions"]:
                if a[0] == "init":
                    todo[(int(a[1]), int(a[2]))] = 1
    if lab.lm["full"] is None:
        d = lab.fresh("lmrun")
        os.makedirs(d)
        mdir = lab.fresh("lmmodel")
        r = lab.pool.run(lab.spec(d, [["init", lab.LM_SID, 2], ["save_model", mdir], ["hook", "after_run", 1]]))
        if proc_failure(r):
            raise RuntimeError("could not stage the load_model directories: " + proc_failure(r))
        fp = r["out"]["actions"][0]["fp"]
        lab.register(lab.LM_SID, fp)
        lab.components_of_lm = fp
        lab.lm.update(model=mdir, full=os.path.join(d, "step_000002"))
        if sorted(os.listdir(mdir)) != ["config.yaml", "model.pt"] or not os.path.isfile(os.path.join(lab.lm["full"], "opt.pt")):
            raise RuntimeError("load_model directories are not what they are meant to be")
    specs = []
    for sid, step in sorted(todo):
        d = lab.fresh("ref")
        os.makedirs(d)
        specs.append(lab.spec(d, [["init", sid, step], ["hook", "after_run", 1]]))
    for (sid, step), r in zip(sorted(todo), lab.pool.map(specs)):
        if r["code"] != 0 or not r["out"] or not r["out"]["completed"]:
            raise RuntimeError("reference save failed: %s" % open(r["spec"]["log"]).read()[-1500:])
        lab.register(sid, r["out"]["actions"][0]["fp"])
    # the reference files are what they are taken for only if a fresh process resumes that state
    dirs = [s["run_dir"] for s in specs]
    for (sid, step), d, r in zip(sorted(todo), dirs, lab.pool.map([{"mode": "resume", "dirs": [d]} for d in dirs])):
        oc, _ = lab.classify(r["out"]["resume"][d]["unset"]) if r["out"] else ("error", None)
        if oc == "loaded:%d:%d" % (sid, step):
            lab.config_digest = r["out"]["files"][d].get("step_%06d/config.yaml" % step, lab.config_digest)
        else:  # shows up as `roundtrip-mismatch` at the end of the histories that save this state
            lab.bad_reference.append((sid, step, oc))
            lab.ctx.note("uninterrupted save of state %d at step %d into an empty directory resumes as %s" % (sid, step, oc))


def describe(call, run_dir):
    return "%s(%s)" % (call.name, ",".join(os.path.relpath(p, run_dir) if p.startswith("/") else p for p in call.paths))


def inject_of(step):
    return "%s:signal=KILL:when=%d" % (step.sys.name, step.sys.ordinal)


def traced(lab, run_dir):
    calls = snap_trace.parse(open(run_dir + ".trace").read())
    return calls, snap_trace.effective(calls, run_dir)


def check_killed(r, step, run_dir, soft=False):
    """the killed process must have died on entry to exactly the intended call"""
    calls = snap_trace.parse(open(run_dir + ".trace").read())
    last = calls[-1] if calls else None
    want = step.sys
    ok = (
        r["sig"] == 9
        and last is not None
        and last.killed
        and last.name == want.name
        and [os.path.basename(x) for x in last.paths] == [os.path.basename(x) for x in want.paths]
    )
    if not ok and not soft:
        raise RuntimeError(
            "kill injection did not hit the intended call: wanted %r, trace ends with %r (sig=%s)" % (want, last, r["sig"])
        )
    return ok


def build_template(lab, hist):
    """run the processes of `pre` for real; -> (directory, driver tokens)"""
    tdir = lab.fresh("tpl-" + hist["name"])
    os.makedirs(tdir)
    toks = []
    for ev in hist["pre"]:
        if ev == "touch":
            open(os.path.join(tdir, "SAVE_NOW"), "w").close()
            toks.append("T")
        elif ev["kind"] == "proc":
            r = lab.pool.run(lab.spec(tdir, ev["actions"]))
            if proc_failure(r):
                raise Skip("a process of the history failed: " + proc_failure(r), failed=True)
            hs = hook_states(lab, ev["actions"], r["out"])
            for trig, sid, step in hs:
                toks.append("S:%s:%d:%d" % (trig, sid, step))
        else:
            probe = lab.copy(tdir, "probe")
            r0 = lab.pool.run(lab.spec(probe, ev["actions"], trace=True))
            if proc_failure(r0):
                raise Skip("a process of the history failed: " + proc_failure(r0), failed=True)
            hs = hook_states(lab, ev["actions"], r0["out"])
            _, steps = traced(lab, probe)
            idx = [i for i, st in enumerate(steps) if st.op and re.search(ev["after"], st.op)]
            if not idx or idx[0] + 1 >= len(steps):
                raise Skip("no operation matching %s in this implementation" % ev["after"])
            j = idx[0] + 1
            rk = lab.pool.run(lab.spec(tdir, ev["actions"], trace=True, inject=inject_of(steps[j])))
            if not check_killed(rk, steps[j], tdir, soft=True):
                # strace counts system calls by name: a stray write (a warning on stderr under load)
                # shifts the ordinal.  Not an observation of the implementation: this history is left out.
                raise Skip("the kill injection did not land on the intended call of this history's preparation")
            trig, sid, step = hs[0]
            toks += scan_orders(steps)
            toks.append("C:%s:%d:%d:%d" % (trig, sid, step, snap_trace.model_index(steps, j)))
    return tdir, toks


def scan_orders(steps):
    """the directory scan order rmtree used, per directory (an oracle input of the model)"""
    per = {}
    for st in steps:
        if st.op and st.op.startswith("unlinkin:"):
            d, f = st.op[len("unlinkin:") :].split("/", 1)
            per.setdefault(d, [])
            if f in LETTER:
                per[d].append(LETTER[f])
    return ["ord@%s=%s" % (d, "".join(ls)) for d, ls in sorted(per.items())]


def hook_ranges(calls, steps):
    """step-index range [a, b) of each hook call, from the MARK lines the process wrote"""
    marks = [c.line_no for c in calls if c.name == "write" and '"MARK hook-begin' in c.args]
    ends = [c.line_no for c in calls if c.name == "write" and '"MARK hook-end' in c.args]
    rng = []
    for b, e in zip(marks, ends):
        inside = [i for i, st in enumerate(steps) if b < st.sys.line_no < e]
        rng.append((inside[0], inside[-1] + 1) if inside else None)
    return rng


class HistoryRun:
    def __init__(self, hist):
        self.hist = hist
        self.name = hist["name"]
        self.skipped = None
        self.points = []  # dicts: j, trunc, e, fs, outcome, detail
        self.impl_ops = []
        self.model_ops = None
        self.failed = False
        self.hooks = []  # (trig, sid, step)
        self.ranges = []
        self.script = ""
        self.n_steps = 0


def cuts_for(fname, n, thorough):
    cuts = {0, 1, n // 2}
    if fname.endswith(".pt"):
        cuts.add(n - 1)
    if thorough:
        cuts |= {n * i // 8 for i in range(1, 8)}
        if fname.endswith(".pt"):
            cuts |= {n - 2, n - 22}
    return sorted(c for c in cuts if 0 <= c < n)


def run_history(lab, hist, only=None):
    """only = (j, trunc) restricts the enumeration to one crash point (replay)"""
    ctx = lab.ctx
    hr = HistoryRun(hist)
    try:
        tdir, toks = build_template(lab, hist)
    except Skip as e:
        hr.skipped = str(e)
        hr.failed = e.failed
        return hr
    base = lab.copy(tdir, "base-" + hist["name"])
    r0 = lab.pool.run(lab.spec(base, hist["final"], trace=True))
    if proc_failure(r0):
        hr.skipped = "the final process failed without being killed: " + proc_failure(r0)
        hr.failed = True
        return hr
    try:
        hr.hooks = hook_states(lab, hist["final"], r0["out"])
    except Skip as e:
        hr.skipped = str(e)
        return hr
    calls, steps = traced(lab, base)
    hr.n_steps = len(steps)
    hr.impl_ops = snap_trace.abstract_ops(steps)
    hr.ranges = hook_ranges(calls, steps)
    hr.script = " ".join(
        ["repaired"] + toks + scan_orders(steps) + ["E:%s:%d:%d" % h for h in hr.hooks]
    )
    # crash points: before every effective call, and after the last one
    js = list(range(len(steps) + 1))
    if only is not None:
        js = [only[0]]
    specs, meta = [], []
    for j in js:
        if j == len(steps):
            meta.append((j, base))
            continue
        d = lab.copy(tdir, "k-%s-%d" % (hist["name"], j))
        specs.append(lab.spec(d, hist["final"], trace=True, inject=inject_of(steps[j])))
        meta.append((j, d))
    results = lab.pool.map(specs)
    it = iter(results)
    dirs = []
    for j, d in meta:
        if j < len(steps):
            hit = check_killed(next(it), steps[j], d, soft=True)
            for attempt in range(2):
                if hit:
                    break
                # strace counts system calls by name: a stray write (a warning on stderr under load)
                # shifts the ordinal.  The crash point is tried again on a fresh copy; if the kill still
                # lands elsewhere the point is left out (and counted), it is not an observation.
                d = lab.copy(tdir, "k-%s-%d-again%d" % (hist["name"], j, attempt))
                hit = check_killed(lab.pool.run(lab.spec(d, hist["final"], trace=True, inject=inject_of(steps[j]))), steps[j], d, soft=True)
            if not hit:
                lab.ctx.count("crash-point-not-hit-by-the-injection(left out)")
                continue
        dirs.append((j, None, d))
        # a file in flight: the kill may also have landed inside any of its writes
        if j < len(steps) and steps[j].inflight and steps[j].op and steps[j].op.startswith("finish:"):
            rel = steps[j].inflight
            dname, fname = rel.split("/", 1)
            src = None
            for cand in (os.path.join(base, dname, fname), os.path.join(base, dname.replace(".tmp", ""), fname)):
                if os.path.isfile(cand):
                    src = cand
            if src is None:
                continue
            data = open(src, "rb").read()
            for cut in cuts_for(fname, len(data), ctx.thorough):
                if only is not None and only[1] is not None and cut != only[1]:
                    continue
                dv = lab.copy(d, "cut-%s-%d-%d" % (hist["name"], j, cut))
                with open(os.path.join(dv, rel), "wb") as f:
                    f.write(data[:cut])
                dirs.append((j, cut, dv))
    if only is not None and only[1] is not None:
        dirs = [x for x in dirs if x[1] == only[1]]
    # the real resume logic, one new process per directory
    configs = [{"name": n, "load_model": lab.lm[n]} for n in CONFIGS]
    rspecs = [{"mode": "resume", "dirs": [d], "configs": configs} for (_, _, d) in dirs]
    classified = []
    for (j, cut, d), r in zip(dirs, lab.pool.map(rspecs)):
        if r["code"] != 0 or not r["out"]:
            raise RuntimeError("resume process failed: %s" % open(r["spec"]["log"]).read()[-1500:])
        per = {n: lab.classify(r["out"]["resume"][d][n], n) for n in CONFIGS}
        oc, detail = per["unset"]
        classified.append((j, cut, d, oc, detail, r["out"]["files"][d], per))
    for j, cut, d, oc, detail, digests, per in classified:
        hr.points.append(
            {
                "j": j,
                "trunc": cut,
                "e": snap_trace.model_index(steps, j),
                "fs": snap_trace.fs_text(d, lab.tagger(digests)),
                "outcome": oc,
                "detail": detail,
                "starts": per,  # load_model configuration -> (start, detail)
                "at": (describe(steps[j].sys, base) if j < len(steps) else "end"),
            }
        )
    return hr


CONFIGS = ("unset", "model", "full")  # config.load_model: unset / model-only directory / full snapshot


def canon_outcome(oc):
    """`loaded:partial` = partial data accepted silently; like a loud error it means `latest`
    designated a partial snapshot.  (`loaded:mixed` = complete components that were never saved
    together: the wrong state, not a partial one.)"""
    return "error" if oc == "loaded:partial" else oc


def compare_with_model(ctx, hr, divs):
    lines = ["snapshot ops " + hr.script, "snapshot fsafter " + hr.script]
    lines += ["snapshot predict " + hr.script.replace("repaired", "repaired lm=" + n, 1) for n in CONFIGS]
    outs = driver.run_lines(lines)
    ops_l, fs_l = outs[0], outs[1]
    preds = {n: o.split(" ") for n, o in zip(CONFIGS, outs[2:])}
    m = re.match(r"n=(\d+) marks=(\S*) ops=(.*)$", ops_l)
    if not m:
        divs.append(Divergence("corr.snapshot:script", {"history": hr.name, "script": hr.script}, "-", ops_l))
        return False
    hr.model_ops = m.group(3).split(" ") if m.group(3) else []
    impl_ops = list(hr.impl_ops)
    ctx.evaluated()
    if impl_ops != hr.model_ops:
        k = next((i for i, (a, b) in enumerate(zip(impl_ops, hr.model_ops)) if a != b), min(len(impl_ops), len(hr.model_ops)))
        divs.append(
            Divergence(
                "corr.snapshot:ops-mismatch",
                {"history": hr.name, "first_difference_at": k, "script": hr.script},
                " ".join(impl_ops),
                " ".join(hr.model_ops),
            )
        )
        # the crash points are still evaluated against the property itself (search)
        ctx.evaluated(len(hr.points))
        for p in hr.points:
            ctx.count("outcome:" + canon_outcome(p["outcome"]).split(":")[0])
            if p["j"] > 0:
                ctx.nontrivial("%s|%s|%s" % (hr.name, p["j"], p["trunc"]))
        return False
    fss = fs_l.split(" ")
    for p in hr.points:
        mf = snap_trace.canon_model_fs(fss[p["e"]])
        for n in CONFIGS:
            ctx.evaluated()
            if p["j"] > 0:
                ctx.nontrivial("%s|%s|%s|%s" % (hr.name, p["j"], p["trunc"], n))
            mo = preds[n][p["e"]]
            start, detail = p["starts"][n]
            io = canon_outcome(start)
            ctx.count("start[load_model=%s]:%s" % (n, io.split(":")[0] if io.startswith("loaded") else io))
            if io != mo or (n == "unset" and p["fs"] != mf):
                divs.append(
                    Divergence(
                        "corr.snapshot:crash",
                        {"history": hr.name, "crash": p["j"], "trunc": p["trunc"], "at": p["at"], "load_model": n},
                        "%s%s | %s" % (start, (" (%s)" % detail) if detail else "", p["fs"]),
                        "%s | %s" % (mo, mf),
                    )
                )
    return True


def where_text(hr, p):
    if p["at"] == "end":
        return "history %s, saving process ran to its end" % hr.name
    cut = (", file in flight cut to %d bytes" % p["trunc"]) if p["trunc"] is not None else ""
    return "history %s, saving process killed on entry to call #%d %s%s" % (hr.name, p["j"], p["at"], cut)


def verdicts(hr):
    """the property on the OBSERVED starts, under every `load_model` configuration, evaluated by
    the driver.  -> [(key, point, text)]"""
    by_j = {}
    for p in hr.points:
        if p["trunc"] is None:
            by_j[p["j"]] = p
    # hook calls that issued no call at all (not due) have no range
    active = [(i, r) for i, r in enumerate(hr.ranges) if r is not None]
    lines, meta = [], []
    for n in CONFIGS:
        for p in hr.points:
            j = p["j"]
            obs, detail = p["starts"][n]
            cases = []
            own = [(i, r) for i, r in active if r[0] <= j < r[1]]
            if own:
                cases.append((own[0][0], own[0][1][0], 0))
            if p["trunc"] is None:
                cases += [(i, a, 1) for i, (a, b) in active if j == b]
            for i, a, done in cases:
                prev = by_j.get(a)
                if prev is None:
                    continue
                trig, sid, step = hr.hooks[i]
                lines.append(
                    "snapshot verdict %s %d %d %d %s"
                    % (canon_outcome(prev["starts"][n][0]), sid, step, done, canon_outcome(obs))
                )
                where = ("after hook call %d (%s of state %d at step %d) completed" if done else "inside hook call %d (%s of state %d at step %d)") % (i, trig, sid, step)
                meta.append((p, n, where, prev["starts"][n][0], obs, detail))
    outs = driver.run_lines(lines)
    bad = []
    for (p, n, where, prev, obs, detail), o in zip(meta, outs):
        if o != "ok":
            bad.append(
                (
                    o,
                    p,
                    "%s: a fresh run with load_model=%s gets %s%s, before the call it got %s"
                    % (where, {"unset": "None", "model": "<model-only directory>", "full": "<full snapshot of another run>"}[n], obs, (" (" + str(detail) + ")") if detail else "", prev),
                )
            )
    # the same failure under several configurations: report the plainest one first
    bad.sort(key=lambda x: 0 if "load_model=None" in x[2] else 1)
    return bad


# ---------------------------------------------------------------------------------------------
# serve/train mode, replay window (in-process, real code)


DTYPES = ("float64", "float32", "bfloat16", "float16")

# magnitudes that a cast to another floating format does not survive: below the normal range of
# float16 / bfloat16 / float32, denormals, between representable neighbours, above float16's and
# float32's largest value
SPECIAL = [
    0.0, -0.0, 5e-324, 1e-300, -2.5e-310, 1e-45, -4.2e-45, 1e-40, -3e-39, 1.1754942e-38, 9.2e-41,
    5.9e-8, 6.0e-8, -1.2e-7, -1.993030309677124e-07, 2.0 ** -17, 2.0 ** -24, 1.5 * 2.0 ** -25, 3.1e-6, 7.6e-6,
    6.0e-5, 6.1035e-5, 6.104e-5, 1.0 + 2.0 ** -7, 1.0 + 2.0 ** -8, 1.0 + 2.0 ** -10, 1.0 + 2.0 ** -11, 1.0 + 2.0 ** -23,
    1.0 + 2.0 ** -24, 1.0 + 2.0 ** -52, 0.1, -0.3, 1.0009765625, 255.9, 2049.0, 65504.0, 65519.0, 65520.0, 70000.0, -1.0e5,
    1.0e30, 3.3e38, -3.4028234e38, 1.0e39, 1.0e300,
]


def inject_special(sc, model, tiny_only=False):
    """overwrite the leading elements of every floating tensor of the model with `SPECIAL`
    (those that are finite in the tensor's own dtype)"""
    torch = sc.mods().torch
    vals = [v for v in SPECIAL if (abs(v) < 1e-4 or not tiny_only)]
    with torch.no_grad():
        for k, t in model.state_dict().items():
            if not t.is_floating_point() or t.numel() == 0:
                continue
            v = torch.tensor(vals, dtype=torch.float64).to(t.dtype)
            v = v[torch.isfinite(v)]
            n = min(t.numel(), v.numel())
            # rotate so that short tensors (biases of one or two elements) get different values
            off = (len(k) * 7) % max(1, v.numel() - n + 1)
            t.view(-1)[:n] = v[off : off + n]


def finite(torch, model):
    """two AdamW steps in float16 can leave NaNs; weights are meant to be numbers"""
    with torch.no_grad():
        for t in model.state_dict().values():
            if t.is_floating_point():
                t.nan_to_num_(nan=0.25, posinf=1.0, neginf=-1.0)


def clone_sd(model):
    return {k: v.detach().clone() for k, v in model.state_dict().items()}


def diff_sd(torch, got, want):
    """tensors of `got` that are not bit for bit (and dtype for dtype) those of `want`"""
    out = []
    for k in sorted(set(got) | set(want)):
        if k not in got or k not in want:
            out.append("%s: %s" % (k, "missing" if k not in got else "unexpected"))
            continue
        a, b = got[k].detach().cpu().contiguous(), want[k].detach().cpu().contiguous()
        if a.dtype != b.dtype or a.shape != b.shape:
            out.append("%s: %s%s instead of %s%s" % (k, a.dtype, tuple(a.shape), b.dtype, tuple(b.shape)))
            continue
        if a.numel() == 0:
            continue
        ab = a.reshape(-1).view(torch.uint8).reshape(a.numel(), -1)
        bb = b.reshape(-1).view(torch.uint8).reshape(b.numel(), -1)
        bad = (ab != bb).any(1)
        n = int(bad.sum())
        if n:
            i = int(bad.nonzero()[0])
            out.append("%s: %d/%d elements differ (first: %r -> %r)" % (k, n, a.numel(), b.reshape(-1)[i].item(), a.reshape(-1).double()[i].item() if a.is_floating_point() else a.reshape(-1)[i].item()))
    return out


def modes_case(ctx, sc, tr, sv, sid, divs):
    m = sc.mods()
    torch = m.torch
    inp = {"kind": "modes", "train_dtype": tr, "serve_dtype": sv, "sid": sid}

    def report(via, diffs, extra=""):
        divs.append(
            Divergence(
                "corr.snapshot:modes",
                dict(inp, via=via, tensor=diffs[0].split(":")[0]),
                "%d tensors not restored bit for bit%s: %s" % (len(diffs), extra, "; ".join(diffs[:3])),
                "every tensor of state_dict unchanged",
            )
        )

    # (1) serve_mode; train_mode, repeated, on weights with awkward magnitudes
    run = sc.fresh_run(None, {"train_dtype": tr, "serve_dtype": sv})
    sc.init_state(run, sid, 1)
    finite(torch, run.state.model)
    inject_special(sc, run.state.model)
    ref = clone_sd(run.state.model)
    for rep in range(3):
        run.serve_mode()
        served = run.state.model.state_dict()
        changed = bool(diff_sd(torch, {k: v.to(ref[k].dtype) for k, v in served.items()}, ref))
        run.train_mode()
        ctx.evaluated()
        ctx.count("modes:cast-changed-bits" if changed else "modes:cast-exact")
        if changed:
            ctx.nontrivial("modes|%s|%s|%d|%d" % (tr, sv, sid, rep))
        diffs = diff_sd(torch, run.state.model.state_dict(), ref)
        if diffs:
            report("serve_mode;train_mode (round trip %d)" % (rep + 1), diffs)
            return
    # (2) through the real train_step (tiny learning rate, so that tiny weights stay tiny)
    run = sc.fresh_run(None, {"train_dtype": tr, "serve_dtype": sv, "lr": 1e-9, "train_positions": 4, "train_batch": 4})
    sc.init_state(run, sid, 1)
    finite(torch, run.state.model)
    inject_special(sc, run.state.model, tiny_only=True)
    cls = type(run)
    orig_serve, orig_train = cls.serve_mode, cls.train_mode
    seen = {}

    def serve_rec(self):
        seen["before_serve"] = clone_sd(self.state.model)
        return orig_serve(self)

    def train_rec(self):
        r = orig_train(self)
        seen["after_train"] = clone_sd(self.state.model)
        return r

    steps = 2 if ctx.thorough else 1
    try:
        before = clone_sd(run.state.model)
        run.serve_mode()
        cls.serve_mode, cls.train_mode = serve_rec, train_rec
        for i in range(steps):
            b = sc.make_batch(500 + sid + i)
            b["moves"] = b["moves"].to(run.config.train_dtype)
            b["values"] = b["values"].to(run.config.train_dtype)
            try:
                run.train_step(b)
            except Exception as e:  # e.g. a kernel that does not exist for this dtype on this device
                ctx.count("modes:train_step-not-feasible[%s]" % tr)
                ctx.note("train_step with train_dtype=%s raised %s: %s" % (tr, type(e).__name__, str(e)[:120]))
                return
            ctx.evaluated(2)
            # what train_step's train_mode restored = what was there before the switch to serving
            diffs = diff_sd(torch, seen["after_train"], before)
            if diffs:
                report("serve_mode; train_step's train_mode (step %d)" % (i + 1), diffs)
                return
            # what train_step trained = what the next train_mode restores
            before = seen["before_serve"]
            cls.serve_mode, cls.train_mode = orig_serve, orig_train
            run.train_mode()
            diffs = diff_sd(torch, run.state.model.state_dict(), before)
            if diffs:
                report("train_step (ends in serve_mode); train_mode (step %d)" % (i + 1), diffs)
                return
            run.serve_mode()
            cls.serve_mode, cls.train_mode = serve_rec, train_rec
        ctx.count("modes:through-train_step")
    finally:
        cls.serve_mode, cls.train_mode = orig_serve, orig_train


def check_modes(ctx, divs, pairs=None):
    """every (train_dtype, serve_dtype) pair over the four floating formats — narrower, wider,
    same width but different format, identical"""
    from ..lib import snap_common as sc

    for tr in DTYPES:
        for sv in DTYPES:
            if pairs is not None and (tr, sv) not in pairs:
                continue
            for sid in (11, 12) if ctx.thorough else (11,):
                modes_case(ctx, sc, tr, sv, sid, divs)


# ---------------------------------------------------------------------------------------------
# save -> load into FRESH objects, for every model configuration the code distinguishes

SHAPES = [
    {"n_layer": 1, "d_model": 8, "d_head": 4, "n_ctx": 16},
    {"n_layer": 2, "d_model": 16, "d_head": 8, "n_ctx": 12, "autoregressive_mask": False},
    {"n_layer": 1, "d_model": 12, "d_head": 4, "n_ctx": 7},
]


def model_configs(ctx):
    shapes = SHAPES if ctx.thorough else SHAPES[:2]
    return [
        dict(sh, positional_encoding=pe, head=head)
        for pe in ("sin", "learned", "none")
        for head in ("policy", "text")
        for sh in shapes
    ]


def model_roundtrip_case(ctx, sc, mopts, sid, divs):
    import contextlib
    import io

    m = sc.mods()
    torch = m.torch
    d = tempfile.mkdtemp(prefix="c19-rt-")
    inp = {"kind": "model-roundtrip", "model": mopts, "sid": sid}

    def report(path, diffs):
        divs.append(
            Divergence(
                "corr.snapshot:roundtrip",
                dict(inp, path=path, tensor=diffs[0].split(":")[0]),
                "; ".join(diffs[:4]),
                "every tensor of state_dict (parameters and buffers), optimiser state, replay buffer and counters identical",
            )
        )

    try:
        opts = {"model": mopts}
        run = sc.fresh_run(os.path.join(d, "run"), opts)
        sc.init_state(run, sid, 3)
        saved = clone_sd(run.state.model)
        fp = sc.fingerprint(run.state)
        hook = m.saving.SavingHook(freq=1)
        hook.before_run(run.state, run.config)
        with contextlib.redirect_stdout(io.StringIO()):
            hook.after_run(run.state)
        m.xformer.loading.save_model(run.state.model, os.path.join(d, "model_only"))
        ctx.nontrivial("roundtrip|%s|%d" % (json.dumps(mopts, sort_keys=True), sid))
        ctx.count("roundtrip:pe=%s,head=%s" % (mopts["positional_encoding"], mopts["head"]))

        def other(got_fp):
            return ["%s differs" % c for c in ("opt", "replay", "counters") if got_fp[c] != fp[c]]

        # (A) the snapshot, resumed by a fresh TrainingRun / model / optimiser
        ctx.evaluated()
        run2, (kind, detail, _) = sc.resume_outcome(os.path.join(d, "run"), opts)
        if kind != "loaded":
            report("SavingHook.after_run -> load_or_init_model", ["resume: %s %s" % (kind, detail if kind == "error" else "")])
        else:
            diffs = diff_sd(torch, run2.state.model.state_dict(), saved) + other(detail)
            if diffs:
                report("SavingHook.after_run -> load_or_init_model", diffs)
        # (B) the snapshot as a model directory: xformer.loading.load_model builds the model from config.yaml
        for name, path in (("snapshot", os.path.join(d, "run", "latest")), ("save_model output", os.path.join(d, "model_only"))):
            ctx.evaluated()
            try:
                mdl = m.xformer.loading.load_model(path)
                diffs = diff_sd(torch, mdl.state_dict(), saved)
            except Exception as e:
                diffs = ["load_model raised %s: %s" % (type(e).__name__, str(e)[:100])]
            if diffs:
                report("%s -> xformer.loading.load_model" % name, diffs)
        # (C) a run started with config.load_model = the model-only directory / the snapshot
        for name, path in (("save_model output", os.path.join(d, "model_only")), ("snapshot", os.path.join(d, "run", "latest"))):
            ctx.evaluated()
            run3, (kind, detail, base) = sc.resume_outcome(os.path.join(d, "empty"), dict(opts, load_model=path))
            if kind != "loaded":
                report("%s as config.load_model -> load_or_init_model" % name, ["start: %s %s" % (kind, detail if kind == "error" else "")])
                continue
            diffs = diff_sd(torch, run3.state.model.state_dict(), saved)
            want_opt = fp["opt"] if name == "snapshot" else base["opt"]
            if detail["opt"] != want_opt:
                diffs.append("opt differs")
            if diffs:
                report("%s as config.load_model -> load_or_init_model" % name, diffs)
    finally:
        shutil.rmtree(d, ignore_errors=True)


def check_hook_histories(ctx, divs, only=None):
    """(a) ONE SavingHook object serves two runs with different run directories in one process (a sweep);
    (b) the step counter passes 999 999 -> 1 000 000 (seven digits in `step_%06d`).  After every save a
    fresh TrainingRun on the directory resumes exactly what was saved there."""
    import contextlib
    import io

    from ..lib import snap_common as sc

    m = sc.mods()
    opts = {"model": dict(SHAPES[0], positional_encoding="sin", head="policy")}

    def cmp(what, d, fp, inp):
        ctx.evaluated()
        _run, (kind, detail, _) = sc.resume_outcome(d, opts)
        if kind != "loaded":
            diffs = ["a fresh run on the directory %s" % ("starts from scratch" if kind == "fresh" else "fails: %s" % detail)]
        else:
            diffs = ["%s differs" % c for c in ("params", "opt", "replay", "counters") if detail[c] != fp[c]]
            if diffs and detail.get("step") != fp.get("step"):
                diffs.append("resumed at step %s, saved at step %s" % (detail.get("step"), fp.get("step")))
        if diffs:
            divs.append(Divergence("corr.snapshot:roundtrip", dict(inp, what=what), "; ".join(diffs), "the saved state, exactly"))

    top = tempfile.mkdtemp(prefix="c19-hh-")
    try:
        if only in (None, "shared-hook"):
            inp = {"kind": "hook-history", "case": "shared-hook"}
            hook = m.saving.SavingHook(freq=1)
            fps = []
            for name, sid, step in (("A", 51, 3), ("B", 52, 5)):
                run = sc.fresh_run(os.path.join(top, name), opts)
                sc.init_state(run, sid, step)
                hook.before_run(run.state, run.config)
                with contextlib.redirect_stdout(io.StringIO()):
                    hook.after_run(run.state)
                fps.append((name, sc.fingerprint(run.state)))
            ctx.count("hook-history:one-hook-two-runs")
            ctx.nontrivial("hook-history|shared")
            for name, fp in fps:
                cmp("run %s of two runs that shared one SavingHook object" % name, os.path.join(top, name), fp, inp)
        if only in (None, "million-steps"):
            inp = {"kind": "hook-history", "case": "million-steps"}
            d = os.path.join(top, "M")
            run = sc.fresh_run(d, opts)
            sc.init_state(run, 53, 999_990)
            hook = m.saving.SavingHook(freq=1)
            hook.before_run(run.state, run.config)
            for step in (999_991, 999_993, 999_994, 999_995, 999_996, 999_997, 999_998, 999_999, 1_000_000, 1_000_001, 1_000_002):
                run.state.elapsed.step = step
                run.state.elapsed.positions += 7
                with contextlib.redirect_stdout(io.StringIO()):
                    hook.after_step(run.state)
                ctx.count("hook-history:saves-around-step-1000000")
                ctx.nontrivial("hook-history|%d" % step)
                cmp("after the save at step %d" % step, d, sc.fingerprint(run.state), inp)
    finally:
        shutil.rmtree(top, ignore_errors=True)


def check_model_roundtrip(ctx, divs, only=None):
    from ..lib import snap_common as sc

    for mopts in model_configs(ctx) if only is None else [only]:
        for sid in (41, 42) if ctx.thorough else (41,):
            model_roundtrip_case(ctx, sc, mopts, sid, divs)


def window_case(k, n, reuse=False):
    """`reuse`: the producer refills ONE preallocated batch in place for every step (what the window
    holds must not follow the producer's buffer)"""
    from ..lib import snap_common as sc

    run = sc.fresh_run(None, {"replay_buffer_steps": k, "train_positions": 4, "train_batch": 4})
    sc.init_state(run, 20 + k, 0)
    run.state.replay_buffer = []
    run.serve_mode()
    obs = []
    buf = sc.make_batch(1) if reuse else None
    for i in range(n):
        if reuse:
            fresh = sc.make_batch(i + 1)
            for key in buf:
                buf[key].copy_(fresh[key])
            run.train_step(buf)
        else:
            run.train_step(sc.make_batch(i + 1))
        obs.append([int(b["positions"][0, 0]) - 1 for b in run.state.replay_buffer])
    return obs


def check_window(ctx, divs):
    ks = (1, 2, 3, 4, 6) if ctx.thorough else (1, 3)
    for k in ks:
      for reuse in (False, True):
        n = 2 * k + 3
        try:
            obs = window_case(k, n, reuse)
        except Exception as e:
            divs.append(Divergence("corr.snapshot:window", {"kind": "window", "k": k, "reused_batch_buffer": reuse}, "crash " + type(e).__name__, "the window after every push"))
            continue
        model = driver.run_lines(["snapshot window %d %d" % (k, i + 1) for i in range(n)])
        for i, (o, mo) in enumerate(zip(obs, model)):
            ctx.evaluated()
            io = ",".join(map(str, o))
            if i + 1 > k:
                ctx.nontrivial("window|%d|%d|%s" % (k, i, reuse))
            ctx.count("window:evicting" if i + 1 > k else "window:filling")
            if reuse:
                ctx.count("window:producer-reuses-one-batch-buffer")
            if io != mo:
                divs.append(Divergence("corr.snapshot:window", {"kind": "window", "k": k, "pushes": i + 1, "reused_batch_buffer": reuse}, io, mo))
                break


def observe_serve_precision(ctx, divs):
    """Observation (DESIGN.md note): hooks run after `train_step` has put the model back into
    SERVE precision, so model.pt holds the serving cast, not the training parameters."""
    from ..lib import snap_common as sc

    d = tempfile.mkdtemp(prefix="c19-prec-")
    try:
        m = sc.mods()
        run = sc.fresh_run(d, {"serve_dtype": "bfloat16"})
        sc.init_state(run, 30, 0)
        run.serve_mode()
        seen = {}
        orig = run.serve_mode

        def recording_serve_mode():
            seen["fp"] = sc.params_fp(run.state.model.state_dict())
            return orig()

        cls = type(run)
        cls_orig = cls.serve_mode
        cls.serve_mode = lambda self: recording_serve_mode()
        try:
            run.train_step(sc.make_batch(77))
        finally:
            cls.serve_mode = cls_orig
        hook = m.saving.SavingHook(freq=1)
        hook.before_run(run.state, run.config)
        import contextlib
        import io

        with contextlib.redirect_stdout(io.StringIO()):
            hook.after_step(run.state)
        run2, (kind, detail, _) = sc.resume_outcome(d, {"serve_dtype": "bfloat16"})
        same = kind == "loaded" and sc.params_fp(run2.state.model.state_dict()) == seen["fp"]
        ctx.count("observation:snapshot-in-serve-precision" if not same else "observation:snapshot-in-train-precision")
        if not same:
            ctx.note(
                "observation: with serve_dtype != train_dtype the snapshot holds the serving-precision parameters "
                "(hooks run after train_step's serve_mode); not counted as a violation (VERIF_C19_STRICT_PRECISION=1 to count)"
            )
            if os.environ.get("VERIF_C19_STRICT_PRECISION") == "1":
                divs.append(
                    Divergence(
                        "corr.snapshot:serve-precision",
                        {"kind": "serve-precision", "serve_dtype": "bfloat16"},
                        "resumed parameters != the parameters train_step had trained",
                        "equal",
                    )
                )
    finally:
        shutil.rmtree(d, ignore_errors=True)


def check_startup_sequence(ctx, divs):
    """The start-up sequence of a run, as `run_async` performs it - `load_or_init_model()`, then
    `serve_mode()` - followed by the first `train_mode()` of a training step, on a directory that
    holds a snapshot with full-precision parameters: the parameters trained on are the snapshot's,
    bit for bit, whatever the serving precision (resume and the mode switch compose)."""
    import contextlib
    import io

    from ..lib import snap_common as sc

    m = sc.mods()
    for serve in ("bfloat16", "float16", "float32"):
        for via in ("resume", "load_model"):
            d = tempfile.mkdtemp(prefix="c19-start-")
            try:
                run = sc.fresh_run(d, {"serve_dtype": serve})
                sc.init_state(run, 41, 3)
                want = sc.params_fp(run.state.model.state_dict())  # training precision
                hook = m.saving.SavingHook(freq=1)
                hook.before_run(run.state, run.config)
                with contextlib.redirect_stdout(io.StringIO()):
                    hook.after_step(run.state)
                opts = {"serve_dtype": serve}
                if via == "load_model":
                    # a new run directory initialised from the snapshot's model (`--load-model`)
                    opts["load_model"] = os.path.realpath(os.path.join(d, "latest"))
                    d2 = tempfile.mkdtemp(prefix="c19-start2-")
                else:
                    d2 = d
                try:
                    run2, (kind, detail, _) = sc.resume_outcome(d2, opts)
                    got_loaded = sc.params_fp(run2.state.model.state_dict()) if kind in ("loaded", "fresh") else None
                    err = None
                    try:
                        run2.serve_mode()
                        run2.train_mode()
                        got = sc.params_fp(run2.state.model.state_dict())
                    except Exception as e:
                        got, err = None, type(e).__name__
                finally:
                    if d2 != d:
                        shutil.rmtree(d2, ignore_errors=True)
                ctx.evaluated()
                ctx.count("startup-sequence:%s:%s" % (via, serve))
                if via == "resume" and got == want and serve == "float32":
                    # the same process saves a LATER step into the same directory and resumes once
                    # more (`latest` is re-pointed): what comes back is the later step
                    try:
                        sc.init_state(run2, 43, 7)
                        want2 = sc.params_fp(run2.state.model.state_dict())
                        hook2 = m.saving.SavingHook(freq=1)
                        hook2.before_run(run2.state, run2.config)
                        with contextlib.redirect_stdout(io.StringIO()):
                            hook2.after_step(run2.state)
                        run3, (kind3, _d3, _b3) = sc.resume_outcome(d, opts)
                        got3 = sc.params_fp(run3.state.model.state_dict()) if kind3 == "loaded" else kind3
                    except Exception as e:
                        want2, got3 = "ok", "crash " + type(e).__name__
                    ctx.evaluated()
                    ctx.count("startup-sequence:second-resume-in-one-process")
                    if got3 != want2:
                        divs.append(
                            Divergence(
                                "corr.snapshot:startup",
                                {"kind": "startup-sequence", "serve_dtype": serve, "via": via, "second_resume": True},
                                "a second resume in the same process, after a later step was saved into the same run directory, gives %s" % ("the parameters of the EARLIER step" if got3 == want else got3 if isinstance(got3, str) and len(got3) < 40 else "other parameters"),
                                "the later step's parameters, bit for bit",
                            )
                        )
                if got != want:
                    divs.append(
                        Divergence(
                            "corr.snapshot:startup",
                            {"kind": "startup-sequence", "serve_dtype": serve, "via": via},
                            "after load_or_init_model(); serve_mode(); train_mode() the parameters %s (right after loading they %s the snapshot's)%s"
                            % ("differ from the snapshot's" if got is not None else "could not be read", "equal" if got_loaded == want else "already differ from", " [%s]" % err if err else ""),
                            "the snapshot's parameters, bit for bit",
                        )
                    )
            finally:
                shutil.rmtree(d, ignore_errors=True)


# ---------------------------------------------------------------------------------------------

_RUNS = []
_LAB = []


def get_lab(ctx):
    if not _LAB:
        import atexit

        lab = Lab(ctx)
        _LAB.append(lab)
        atexit.register(close_lab)
    _LAB[0].ctx = ctx
    return _LAB[0]


def close_lab():
    while _LAB:
        _LAB.pop().close()


def selected_histories(ctx):
    hs = list(HISTORIES)
    if ctx.thorough:
        hs += THOROUGH_HISTORIES
    else:
        hs += [h for h in THOROUGH_HISTORIES if h["name"] in QUICK_EXTRA]
    return hs


def tie(ctx):
    divs = []
    del _RUNS[:]
    lab = get_lab(ctx)
    try:
        hists = selected_histories(ctx)
        reference_states(lab, hists)
        total_points = 0
        for h in hists:
            hr = run_history(lab, h)
            _RUNS.append(hr)
            if hr.skipped:
                ctx.count("history-skipped")
                ctx.note("history %s not run: %s" % (h["name"], hr.skipped[:200]))
                if hr.failed:
                    divs.append(Divergence("corr.snapshot:process-failed", {"history": h["name"]}, hr.skipped, "runs to its end"))
                continue
            ctx.count("history")
            ctx.count("crash-points", len(hr.points))
            total_points += len(hr.points)
            compare_with_model(ctx, hr, divs)
            ctx.sample({"history": h["name"], "script": hr.script, "operations": len(hr.impl_ops), "crash_points": len(hr.points)}, limit=20)
        ctx.note("snapshot: %d histories, %d crash points (every successful call of the saving process, plus cuts)" % (len(_RUNS), total_points))
        # one crash point with a new interpreter per job (no fork server), to tie the two ways of running
        if ctx.thorough:
            os.environ["VERIF_C19_NOFORK"] = "1"
            try:
                lab2 = Lab(ctx)
                try:
                    # (this lab learns its states from its own processes; what is compared is the
                    #  outcome and the directory listing)
                    reference_states(lab2, [HISTORIES[1]])
                    hr = run_history(lab2, HISTORIES[1], only=(13, None))
                    for p in hr.points:
                        ref = [q for q in _RUNS[1].points if q["j"] == p["j"] and q["trunc"] is None]
                        ctx.evaluated()
                        if ref and (ref[0]["outcome"], ref[0]["fs"]) != (p["outcome"], p["fs"]):
                            # the two ways of RUNNING the processes disagree: the machinery's problem,
                            # never reported as a finding about the implementation
                            raise RuntimeError("fork server and one-interpreter-per-job disagree: %s vs %s" % (p, ref[0]))
                finally:
                    lab2.close()
            finally:
                del os.environ["VERIF_C19_NOFORK"]
    finally:
        close_lab()
    for part, comp, kind in (
        (check_modes, "corr.snapshot:modes", "modes"),
        (check_model_roundtrip, "corr.snapshot:roundtrip", "model-roundtrip"),
        (check_hook_histories, "corr.snapshot:roundtrip", "hook-history"),
        (check_window, "corr.snapshot:window", "window"),
        (observe_serve_precision, "corr.snapshot:window", "window"),  # it drives train_step
        (check_startup_sequence, "corr.snapshot:startup", "startup-sequence"),
    ):
        try:
            part(ctx, divs)
        except (ImportError, SyntaxError, KeyboardInterrupt, SystemExit, MemoryError):
            raise
        except Exception as e:
            # an exception out of the implementation is an observation, not a failure of the machinery
            import traceback

            tb = traceback.extract_tb(e.__traceback__)
            where = "%s:%d" % (os.path.basename(tb[-1].filename), tb[-1].lineno) if tb else "?"
            if tb and "/harness/" in tb[-1].filename:
                raise
            divs.append(Divergence(comp, {"kind": kind, "impl_exception": type(e).__name__}, "the implementation raised %s: %s (at %s)" % (type(e).__name__, str(e)[:160], where), "the operation completes"))
    ctx.exhaustive = True  # every crash point of every scripted history was enumerated
    return divs


KEY_OF_COMPONENT = {
    "corr.snapshot:modes": "mode-switch-mismatch",
    "corr.snapshot:roundtrip": "roundtrip-mismatch",
    "corr.snapshot:window": "window-wrong",
    "corr.snapshot:serve-precision": "serve-precision-snapshot",
    "corr.snapshot:startup": "startup-sequence-loses-precision",
}


def search(ctx, divergences, broken):
    vs = []
    failing_histories = set()
    for hr in _RUNS:
        if hr.skipped:
            continue
        bad = verdicts(hr)
        seen = {}
        for key, p, text in bad:
            seen.setdefault(key, []).append((p, text))
        for key, lst in seen.items():
            lst.sort(key=lambda x: (x[0]["trunc"] is not None, x[0]["j"]))
            p, text = lst[0]
            failing_histories.add(hr.name)
            vs.append(
                Violation(
                    key,
                    "history %s, saving process %s%s: %s (%d such crash points in this history)"
                    % (
                        hr.name,
                        ("ran to its end" if p["at"] == "end" else "killed on entry to call #%d %s" % (p["j"], p["at"])),
                        (", file in flight cut to %d bytes" % p["trunc"]) if p["trunc"] is not None else "",
                        text,
                        len(lst),
                    ),
                    {"kind": "crash", "history": hr.hist, "crash": p["j"], "trunc": p["trunc"], "at": p["at"]},
                )
            )
    for d in divergences:
        if d.component in KEY_OF_COMPONENT:
            d.explained = True
            vs.append(
                Violation(
                    KEY_OF_COMPONENT[d.component],
                    "%s: implementation gives %s, the property demands %s" % (json.dumps(d.input), d.impl, d.model),
                    d.input,
                )
            )
        elif isinstance(d.input, dict) and isinstance(d.input.get("history"), str) and d.input["history"] in failing_histories:
            d.explained = True
        elif d.component == "corr.snapshot:process-failed" and "its resume raised" in str(d.impl) and vs:
            # a later process could not resume what an earlier, uninterrupted one had saved: that is
            # the failure the violations found in the other histories describe
            d.explained = True
    # keep the most telling history first for each key (the framework reports one per key)
    order = {h["name"]: i for i, h in enumerate(HISTORIES + THOROUGH_HISTORIES)}
    pref = {"resume-fresh-after-crash": "periodic", "partial-snapshot-live": "end-of-run-resave", "roundtrip-mismatch": "orphan-step"}

    def rank(v):
        h = v.replay.get("history") if isinstance(v.replay, dict) else None
        name = h["name"] if isinstance(h, dict) else ""
        return (0 if name == pref.get(v.key) else 1, order.get(name, 99))

    vs.sort(key=rank)
    return vs


def replay(ctx, data):
    r = data.get("replay", data)
    kind = r.get("kind")
    divs = []
    if kind == "modes":
        pairs = {(r["train_dtype"], r["serve_dtype"])} if "train_dtype" in r else None
        check_modes(ctx, divs, pairs)
        return [Violation("mode-switch-mismatch", "%s: %s vs %s" % (d.input, d.impl, d.model), d.input) for d in divs]
    if kind == "model-roundtrip":
        check_model_roundtrip(ctx, divs, only=r["model"])
        return [Violation("roundtrip-mismatch", "%s: %s vs %s" % (d.input, d.impl, d.model), d.input) for d in divs]
    if kind == "hook-history":
        check_hook_histories(ctx, divs, only=r.get("case"))
        return [Violation("roundtrip-mismatch", "%s: %s vs %s" % (d.input, d.impl, d.model), d.input) for d in divs]
    if kind == "window":
        check_window(ctx, divs)
        return [Violation("window-wrong", "%s: %s vs %s" % (d.input, d.impl, d.model), d.input) for d in divs]
    if kind == "startup-sequence":
        check_startup_sequence(ctx, divs)
        return [Violation("startup-sequence-loses-precision", "%s: %s vs %s" % (d.input, d.impl, d.model), d.input) for d in divs
                if d.input.get("serve_dtype") == r.get("serve_dtype") and d.input.get("via") == r.get("via")]
    if kind == "serve-precision":
        os.environ.setdefault("VERIF_C19_STRICT_PRECISION", "1")
        observe_serve_precision(ctx, divs)
        return [Violation("serve-precision-snapshot", d.impl, d.input) for d in divs]
    hist = r["history"]
    if isinstance(hist, str):
        hist = next(h for h in HISTORIES + THOROUGH_HISTORIES if h["name"] == hist)
    lab = get_lab(ctx)
    if True:
        reference_states(lab, [hist])
        hr = run_history(lab, hist, only=None)
        if hr.skipped:
            return []
        want = (r.get("crash"), r.get("trunc"))
        out = []
        for key, p, text in verdicts(hr):
            if data.get("key") is not None and key != data["key"]:
                continue
            if want[0] is None or (p["j"], p["trunc"]) == want:
                out.append(Violation(key, "%s: %s" % (where_text(hr, p), text), r))
        # a recorded failure may have moved by an index after a harmless rewrite: any failing
        # crash point of the same class in the same history counts as "still fails"
        if not out and want[0] is not None:
            k0 = data.get("key")
            out = [
                Violation(key, "%s: %s" % (where_text(hr, p), text), r)
                for key, p, text in verdicts(hr)
                if k0 is None or key == k0
            ][:1]
        return out

"""C14 — PTN move and game notation round-trips.

Correspondence component `ptn`: `format_move` / `parse_move` / `PTN.parse` / `PTN.initial_position`
of python/tak/ptn/ptn.py against `Tak.PTN.formatMove` / `parseMove` / `parse` / `initialPosition`
(lean/TakVerif/Model/PTN.lean), and the `re` classes `\\s \\d \\w` against Model/PTNClasses.lean.
The game texts are rendered by the Lean side (`ptn render`) from real random games plus a random
decoration script.  The property predicates (stability, round trip, denotation per the standard, the
expected tags/moves of a rendered game) are evaluated by the driver on what the implementation did.

Violation keys: `unstable-accept` (accepted text whose formatted form does not parse back to the same move),
`roundtrip` (format_move then parse_move is not the identity), `denotation` (standard-form text refused or
given another meaning than the standard's; format_move writing non-standard text), `accepts-non-move`
(text outside even the lenient language accepted), `crash` (an exception other than BadMove),
`game-moves`, `game-tags` (PTN.parse of a rendered game does not return the game's moves / tags).
"""
import itertools
import re

from ..check import Divergence, Violation
from ..lib import driver, gen, ser

ID = "C14"
LEAN_MODULES = ["TakVerif.Props.C14"]
RULE = (
    "moves: EVERY well-formed move of every size 3..8 through format_move and parse_move (exhaustive); "
    "strings: ALL strings over the PTN alphabet CFS12345678abcdefgh<>+- up to length 4 (quick) / 5 (thorough), samples of "
    "longer ones that pass the anchored prefix [CFS]?[1-8]?[a-h][1-8], random longer ones, "
    "the family [1-8]?<sq><dir>[1-8]{0,3}, and one-character mutations (insert/delete/replace incl. non-ASCII digits, "
    "white space, trailing newline) of accepted texts; games: random legal games of sizes 3..8 rendered by the Lean "
    "renderer with random tags, comments (empty, multi-line, with '{'), move numbers, '--', results and annotations, "
    "plus character-level damage of those texts; re classes \\s \\d \\w compared on every code point. "
    "One evaluation = one string/move/game text run through the implementation and the model. Non-trivial = accepted "
    "move text, formatted move, or a game text with at least one move; distinct by text."
)
TRUSTED = [
    "modelled, not verified: CPython `re` (the patterns of ptn.py; the Unicode classes \\s \\d \\w are tables compared on "
    "every code point each run), str.split, dict() of a pair list, chr/ord/str on small ints",
    "`tps.parse_tps` is an oracle of `initial_position` (property C13 covers it); the tie checks the delegation",
]
ASSUMPTIONS = [
    "move texts and game texts are Python str without lone surrogates (not representable as Lean Char)",
    "`initial_position`: the Size tag value is a string of ASCII digits (the rest of int()'s input language is not modelled)",
]

ALPHABET = "CFS12345678abcdefgh<>+-"


# ----------------------------------------------------------------- encoding helpers


def hexenc(s):
    if s == "":
        return "_"
    return ".".join("%x" % ord(c) for c in s)


def hexdec(h):
    if h == "_":
        return ""
    return "".join(chr(int(x, 16)) for x in h.split("."))


def encodable(s):
    return not any(0xD800 <= ord(c) <= 0xDFFF for c in s)


# ----------------------------------------------------------------- running the implementation


def impl_parse(t):
    import tak.ptn

    try:
        m = tak.ptn.parse_move(t)
    except tak.ptn.BadMove:
        return "bad", None
    except Exception as e:
        return "crash " + type(e).__name__, None
    try:
        return "ok " + ser.move_str(m), m
    except Exception as e:
        return "crash-ser " + type(e).__name__, None


def impl_format(m):
    import tak.ptn

    try:
        t = tak.ptn.format_move(m)
    except Exception as e:
        return "crash " + type(e).__name__, None
    if not isinstance(t, str) or not encodable(t):
        return "crash-ser", None
    return hexenc(t), t


def canon_tags(pairs):
    """dict semantics (last wins), sorted by key"""
    d = dict(pairs)
    if not d:
        return "-"
    return ";".join("%s:%s" % (hexenc(k), hexenc(v)) for k, v in sorted(d.items()))


def impl_game(text):
    import tak.ptn

    try:
        g = tak.ptn.PTN.parse(text)
    except tak.ptn.BadMove:
        return "bad", None
    except Exception as e:
        return "crash " + type(e).__name__, None
    try:
        mv = "|".join(ser.move_str(m) for m in g.moves) if g.moves else "-"
        return "ok tags=%s moves=%s" % (canon_tags(g.tags.items()), mv), g
    except Exception as e:
        return "crash-ser " + type(e).__name__, None


def canon_model_game(out):
    """the model prints the findall list; the implementation holds dict(list)"""
    if not out.startswith("ok tags="):
        return out
    tags, moves = out[len("ok tags="):].split(" moves=", 1)
    pairs = []
    if tags != "-":
        for kv in tags.split(";"):
            k, v = kv.split(":")
            pairs.append((hexdec(k), hexdec(v)))
    return "ok tags=%s moves=%s" % (canon_tags(pairs), moves)


def impl_initpos(g):
    try:
        p = g.initial_position()
    except Exception as e:
        return "crash " + type(e).__name__
    try:
        return "ok " + ser.pos_str(p)
    except Exception as e:
        return "crash-ser " + type(e).__name__


# ----------------------------------------------------------------- generators: move texts


def all_strings(maxlen):
    for n in range(0, maxlen + 1):
        for tup in itertools.product(ALPHABET, repeat=n):
            yield "".join(tup)


def prefixed_strings(n):
    """all strings of length n over the alphabet that pass the anchored prefix of the move pattern"""
    heads = []
    for st in ("", "C", "F", "S"):
        for pk in ("",) + tuple("12345678"):
            for f in "abcdefgh":
                for r in "12345678":
                    h = st + pk + f + r
                    if len(h) <= n:
                        heads.append(h)
    for h in heads:
        for tup in itertools.product(ALPHABET, repeat=n - len(h)):
            yield h + "".join(tup)


def slide_family():
    for pk in ("",) + tuple("12345678"):
        for sq, d in (("a1", ">"), ("h8", "-"), ("c3", "+"), ("e5", "<")):
            for n in range(0, 4):
                for tup in itertools.product("12345678", repeat=n):
                    yield pk + sq + d + "".join(tup)
    # long drop lists
    for s in ("a1>11111111", "8a1>11111111", "a1>111111111", "9a1>111111111", "8a1>8", "8a1>17", "8a1>71", "a1>44", "a1>45", "a1>81", "a1>88", "16a1>88", "9a1>81"):
        yield s


MUT_CHARS = list(ALPHABET) + [
    "0", "9", "i", "A", "H", "x", "f", "s", "c", " ", "\n", "\t", "\r", ".", "'", "!", "?", "/", "{", "}", "_", "\x00",
    "\u0661", "\u0663", "\uff11", "\u00b2", "\u00a0", "\u2003", "\u0131", "\uff41", "\U0001d7d2", "=", "^", "v", "*",
]


def mutations(rng, base, per):
    out = []
    for _ in range(per):
        s = base
        k = rng.random()
        i = rng.randrange(len(s) + 1)
        c = rng.choice(MUT_CHARS)
        if k < 0.4:
            s = s[:i] + c + s[i:]
        elif k < 0.6 and s:
            i = min(i, len(s) - 1)
            s = s[:i] + s[i + 1:]
        elif k < 0.9 and s:
            i = min(i, len(s) - 1)
            s = s[:i] + c + s[i + 1:]
        else:
            j = rng.randrange(len(s) + 1)
            s = s[:i] + s[j:] + s[i:j] if j > i else s + rng.choice(["\n", " ", "\r\n"])
        out.append(s)
    return out


# ----------------------------------------------------------------- generators: game scripts

# every string over {' ! ?} up to length 3 (the standard writes the Tak mark first, but the parser
# strips ANY run of these characters from the end of a ply), plus a few longer runs
_MARKS = ("'", "!", "?")
ANNOTS = [""] * 6 + ["!", "?", "'", "!?", "?!", "??", "!!", "'!", "\'\'"] + [
    a + b + c for a in ("",) + _MARKS for b in _MARKS for c in _MARKS
] + ["!!!!", "\'\'\'\'", "?\'?\'!", "\'!\'!\'"]
WS = [" ", " ", " ", "\n", "\n", "\t", "  ", " \n", "\n\n", "\r\n", "\x0b", "\x0c", "\u00a0", "\u2003", "\x1c", "\n \n"]
COMMENTS = [
    "", "", "x", "What a nub", "Can you even believe this guy?", "multi\nline", "two\n\nparagraphs", "{ inside", "1. a1 b2",
    "a1", "--", "R-0", " ", "!", "\u00e9\u4e16", "[Size \"9\"]", "\"", "\t",
]
RESULTS = ["0", "R", "F", "1", "1/2"]
TAG_KEYS = ["Event", "Site", "Date", "Player1", "Player2", "Round", "Result", "Clock", "Komi", "Opening", "x_1", "9", "_"]
TAG_VALUES = ["", "", "PTN Viewer Demo", "Here", "2015.11.21", "No One", "N/A", "342", "It Works!", "R-0", "a b  c", "[x]", "{y}", "\u00e9", "0",
              "C:\\tak\\games\\league", "\\o/", "back\\\\slash", "3\\", "\\", "a\\nb", "100%", "x=1;y=2", "'quoted'", "tab\there", "  padded  ", "]", "[", "1. a1 b2"]


def tok_ws(s):
    return "w:" + hexenc(s)


def tok_comment(s):
    return "c:" + hexenc(s)


def tok_move(m, annot):
    return "m:%d/%d/%d/%s:%s" % (m.x, m.y, m.type.value, ser.slides_str(m.slides), hexenc(annot))


def random_gap(rng, allow_empty=False):
    """a list of gap tokens (never empty unless allowed): white space and comments"""
    out = []
    n = rng.choice([1, 1, 1, 2, 3])
    for _ in range(n):
        if rng.random() < 0.22:
            out.append(tok_comment(rng.choice(COMMENTS)))
        else:
            out.append(tok_ws(rng.choice(WS)))
    if allow_empty and rng.random() < 0.3:
        return []
    return out


def game_script(rng, size, moves, with_tps=False, style=None):
    """a well-formed decoration script (inside the hypotheses of C14_game): tag tokens, then
    body tokens; every element is followed by a non-empty gap except possibly the last."""
    toks = []
    tags = []
    if rng.random() < 0.9:
        tags.append(("Size", str(size)))
    for _ in range(rng.choice([0, 1, 2, 4, 6])):
        tags.append((rng.choice(TAG_KEYS), rng.choice(TAG_VALUES)))
    if with_tps:
        tags.append(("TPS", "/".join(["x%d" % size] * size) + " 1 1"))
    rng.shuffle(tags)
    if rng.random() < 0.15 and tags:
        tags.append((tags[0][0], rng.choice(TAG_VALUES)))  # duplicate key: the last one wins
    for k, v in tags:
        toks.append("t:%s:%s" % (hexenc(k), hexenc(v)))
    body = []
    body += random_gap(rng, allow_empty=True)
    numbered = rng.random() < 0.8
    start = rng.choice([1, 1, 1, 5, 98])
    for i, m in enumerate(moves):
        if numbered and i % 2 == 0:
            body.append("n:" + hexenc(str(start + i // 2)))
            body += random_gap(rng)
            if i == 0 and rng.random() < 0.1:
                body.append("d")
                body += random_gap(rng)
        body.append(tok_move(m, rng.choice(ANNOTS)))
        body += random_gap(rng)
    if rng.random() < 0.6:
        body.append("r:%d:%d" % (rng.randrange(5), rng.randrange(5)))
        body += random_gap(rng)
    if rng.random() < 0.3:
        # the last element without a trailing gap
        while body and body[-1][0] in "wc":
            body.pop()
    return toks + body


def lenient_items(rng):
    """texts the code accepts beyond what format_move writes (stability only is claimed for them)"""
    out = []
    for t in ["Fa1", "a1S", "Sa1C", "Ca1>", "Fb2+", "2c3-2", "2c3-11C", "a1>1", "3d4<3F", "b1>11"]:
        out.append("x:%s:%s" % (hexenc(t), hexenc(rng.choice(ANNOTS))))
        out += random_gap(rng)
    return out


# the game of python/test/ptn/test_ptn.py
SUITE_GAME = """[Event "PTN Viewer Demo"]
[Site "Here"]
[Date "2015.11.21"]
[Player1 "No One"]
[Player2 "N/A"]
[Round "342"]
[Result "It Works!"]
[Size "5"]
[TPS "x5/x3,2112S,x/x5/x,1221,x3/x5 1 1"]

1. a3 c2
2. c2> {What a nub} a3+
3. d2+ a4>
4. d3- b4-
5. d2< Cc5? {Can you even believe this guy?}
6. c2+ b3>'
7. a5 2c3-2!
"""

# texts outside the renderer's range: model against code only
EXTRA_GAMES = [
    "\n\n",
    "",
    "1. a1 b2",
    '[Size "5"]\n1. a1 b2',
    '[Size "5"]\r\n\r\n1. a1 b2\r\n',
    '[Size "5"] \n[Event "x"]\n\n1. a1',
    ' [Size "5"]\n\n1. a1',
    '[Player1 "Bob "Wall" S"]\n[Size "5"]\n\n1. a1',
    '[A "x\ny"]\n\n',
    '[A "x\n[B "y"]\n\n',
    '[A "x"][B "y"]\n\n',
    '[A "x"]\n[A "y"]\n\n',
    '[Size "5"]\n\n[Event "y"]\n\n1. a1',
    '[Size "5"]\n\n\u0661. a1 \u0662. b2',
    '[Size "5"]\n\n1.a1',
    '[Size "5"]\n\n{a {b} c} a1',
    '[Size "5"]\n\n{a {b c} a1',
    '[Size "5"]\n\n{a a1',
    '[Size "5"]\n\na1 } b2',
    '[Size\u00e9 "5"]\n\n a1 R-0! ',
    '[Size "5"]\n\n a1 1-0 1/2-1/2 F-0 0-F 1-1 1/2-R 2-0 1/2-1/3',
    '[Size "5"]\n{c}\n\n a1 ',
    '[Size "5"]\n\n10. a1 -- 11. -- b2 --- 1.. 1 .',
    "\n\n!! a1",
    "\n\na1!!??'' b2'x",
    "\n\n a1\n",
    "\n\n\n\n",
]


def render(scripts):
    outs = driver.run_lines(["ptn render " + " ".join(s) for s in scripts])
    return outs


# ----------------------------------------------------------------- the tie


def tie_classes(ctx, divs):
    want = {"space": r"\s", "digit": r"\d", "word": r"\w"}
    outs = driver.run_lines(["ptn classes " + k for k in want])
    for (name, pat), out in zip(want.items(), outs):
        r = re.compile(pat)
        impl = []
        start = None
        for c in range(0x110000):
            if r.match(chr(c)):
                if start is None:
                    start = c
            elif start is not None:
                impl.append("%d-%d" % (start, c - 1))
                start = None
        if start is not None:
            impl.append("%d-%d" % (start, 0x10FFFF))
        ctx.evaluated()
        ctx.count("class-codepoints", 0x110000)
        ctx.count("class:" + name)
        impl_s = ",".join(impl)
        if impl_s != out:
            a, b = set(impl), set(out.split(","))
            divs.append(Divergence("corr.ptn.classes", {"class": name}, sorted(a - b)[:5], sorted(b - a)[:5]))


def tie_moves(ctx, divs):
    """format_move and parse_move on every well-formed move of every size"""
    seen = {}
    for size in range(3, 9):
        for m in gen.wellformed_moves(size):
            ms = ser.move_str(m)
            ctx.count("moves:size%d" % size)
            if ms not in seen:
                seen[ms] = m
    keys = list(seen)
    fouts = driver.run_lines(["ptn format " + ms for ms in keys])
    texts = []
    for ms, fo in zip(keys, fouts):
        ctx.evaluated()
        io, t = impl_format(seen[ms])
        if io != fo:
            divs.append(Divergence("corr.ptn.format", {"move": ms}, io, fo))
        if t is not None:
            texts.append((ms, t))
            ctx.nontrivial("F" + t)
    pouts = driver.run_lines(["ptn parse " + hexenc(t) for _, t in texts])
    for (ms, t), po in zip(texts, pouts):
        ctx.evaluated()
        io, _ = impl_parse(t)
        if io != po:
            divs.append(Divergence("corr.ptn.parse", {"text": hexenc(t)}, io, po))
        elif io != "ok " + ms:
            # model and implementation agree but the round trip fails: the search decides
            divs.append(Divergence("corr.ptn.roundtrip", {"move": ms, "text": hexenc(t)}, io, "ok " + ms))
    ctx.sample({"move": keys[len(keys) // 3], "format": hexdec(fouts[len(keys) // 3])})
    return [t for _, t in texts]


def _parse_chunk(ctx, divs, strings):
    outs = driver.run_lines(["ptn parse " + hexenc(s) for s in strings])
    for s, mo in zip(strings, outs):
        io, _ = impl_parse(s)
        if io[0] == "o":
            ctx.count("parse:ok")
            ctx.nontrivial("P" + s)
        else:
            ctx.count("parse:" + io.split(" ", 1)[0])
        if io != mo:
            divs.append(Divergence("corr.ptn.parse", {"text": hexenc(s)}, io, mo))
    ctx.evaluated(len(strings))


def tie_strings(ctx, divs, accepted_texts):
    rng = ctx.rng

    def stream():
        # complete enumerations (distinct by construction)
        for s in all_strings(5 if ctx.thorough else 4):
            yield s, "exhaustive<=5" if ctx.thorough else "exhaustive<=4"
        seen = set()

        def fresh(s):
            if s in seen or not encodable(s):
                return False
            seen.add(s)
            return True

        for s in slide_family():
            if fresh(s):
                yield s, "slide-family"
        if ctx.thorough:
            for s in prefixed_strings(6):
                if rng.random() < 0.03 and fresh(s):
                    yield s, "len6-prefixed-sample"
            for _ in range(200000):
                s = "".join(rng.choice(ALPHABET) for _ in range(rng.choice([6, 7, 8, 9, 10, 11, 12])))
                if fresh(s):
                    yield s, "long-random"
        else:
            for s in prefixed_strings(5):
                if rng.random() < 0.04 and fresh(s):
                    yield s, "len5-prefixed-sample"
            for _ in range(20000):
                s = "".join(rng.choice(ALPHABET) for _ in range(rng.choice([5, 5, 6, 7, 9, 11])))
                if fresh(s):
                    yield s, "long-random"
        bases = list(accepted_texts)
        rng.shuffle(bases)
        bases = bases[: (8000 if ctx.thorough else 1500)] + ["Fa1", "a1S", "Sa1C", "Ca1>", "2c3-11C", "b1>11", "8a1>11111111", ""]
        for b in bases:
            for s in mutations(rng, b, 12 if ctx.thorough else 8):
                if fresh(s):
                    yield s, "mutation"

    chunk = []
    for s, label in stream():
        ctx.count("strings:" + label)
        chunk.append(s)
        if len(chunk) >= 400000:
            _parse_chunk(ctx, divs, chunk)
            chunk = []
    if chunk:
        _parse_chunk(ctx, divs, chunk)
    ctx.exhaustive = True  # moves of sizes 3..8 and strings up to the length bound are complete enumerations
    ctx.sample({"text": "3c2>12", "parse": impl_parse("3c2>12")[0]})


def make_games(ctx):
    rng = ctx.rng
    import tak

    plan = {3: 10, 4: 8, 5: 8, 6: 5, 7: 3, 8: 3} if not ctx.thorough else {3: 60, 4: 50, 5: 50, 6: 30, 7: 16, 8: 12}
    scripts = []
    for size, n in plan.items():
        for g in range(n):
            policy = gen.POLICIES[g % len(gen.POLICIES)]
            cfg = tak.Config(size=size)
            _, moves = gen.play_random_game(rng, cfg, policy, max_plies=rng.choice([0, 1, 2, 7, 30, 60, 120]), keep_moves=True)
            ctx.count("games:size%d" % size)
            sc = game_script(rng, size, moves, with_tps=(g % 5 == 4))
            if g % 7 == 3:
                sc += lenient_items(rng)
            scripts.append(sc)
    return scripts


def damage(rng, text):
    """character-level damage of a game text (outside the hypotheses of C14_game: model vs code only)"""
    k = rng.random()
    if not text:
        return text
    i = rng.randrange(len(text))
    if k < 0.3:
        return text[:i] + text[i + 1:]
    if k < 0.6:
        return text[:i] + rng.choice(["{", "}", " ", "\n", "a1", "--", "1.", "!", "x", "\"", "[", "]", "\u0661.", "12.", "\n\n"]) + text[i:]
    if k < 0.8:
        return text.replace("\n\n", "\n", 1)
    j = rng.randrange(len(text))
    i, j = min(i, j), max(i, j)
    return text[:i] + text[j:]


def tie_games(ctx, divs):
    rng = ctx.rng
    scripts = make_games(ctx)
    rendered = render(scripts)
    texts = []
    for sc, h in zip(scripts, rendered):
        if h == "bad-op":
            raise RuntimeError("render script refused by the driver: %r" % (sc,))
        texts.append(("rendered", sc, hexdec(h)))
    texts.append(("suite", None, SUITE_GAME))
    for extra in EXTRA_GAMES:
        texts.append(("literal", None, extra))
    for _, sc, t in list(texts):
        for _ in range(3 if not ctx.thorough else 6):
            d = damage(rng, t)
            if encodable(d):
                texts.append(("damaged", None, d))
    # one game text parsed again and again as it grows (a live game followed move by move), with a
    # refused continuation in between: every parse returns exactly the moves of ITS text
    for _, sc, t in [x for x in texts if x[0] == "rendered"][: (12 if ctx.thorough else 5)]:
        base = t.rstrip()
        if not base:
            continue
        g1, g2, g3 = (rng.choice(["a1", "Sb2", "Cc3", "b1>", "2c2+11", "a3-", "c1<"]) for _ in range(3))
        for tt in (base, base + " " + g1 + " zz9", base + " " + g2, base + " " + g2 + " " + g3, base + " " + g1 + " 9a1>", base):
            if encodable(tt):
                texts.append(("grown", None, tt))
    outs = driver.run_lines(["ptn game " + hexenc(t) for _, _, t in texts])
    initlines, initmeta = [], []
    for (label, sc, t), mo in zip(texts, outs):
        ctx.evaluated()
        ctx.count("game:" + label)
        io, g = impl_game(t)
        ctx.count("game-outcome:" + io.split(" ", 1)[0])
        if io.startswith("ok") and not io.endswith("moves=-"):
            ctx.nontrivial("G" + t)
        mo_c = canon_model_game(mo)
        if io != mo_c:
            divs.append(Divergence("corr.ptn.game", {"text": hexenc(t), "script": sc}, io, mo_c))
        if g is not None and label == "rendered":
            # initial_position
            ctx.evaluated()
            ip = impl_initpos(g)
            if "TPS" in g.tags:
                import tak.ptn

                try:
                    ref = "ok " + ser.pos_str(tak.ptn.parse_tps(g.tags["TPS"]))
                except Exception as e:
                    ref = "crash " + type(e).__name__
                ctx.count("initpos:tps")
                if ip != ref:
                    divs.append(Divergence("corr.ptn.initpos", {"text": hexenc(t)}, ip, ref))
            else:
                ctx.count("initpos:size" if "Size" in g.tags else "initpos:none")
                initlines.append("ptn initpos size " + hexenc(g.tags["Size"]) if "Size" in g.tags else "ptn initpos none")
                initmeta.append((t, ip))
    # initial_position on bare tag dictionaries: every decimal size the default tables answer or refuse
    import tak.ptn

    for v in ["0", "1", "2", "3", "4", "5", "6", "7", "8", "9", "10", "08", "100"]:
        ctx.evaluated()
        ctx.count("initpos:bare")
        initlines.append("ptn initpos size " + hexenc(v))
        initmeta.append(('[Size "%s"]' % v, impl_initpos(tak.ptn.PTN(tags={"Size": v}, moves=[]))))
    for (t, ip), mo in zip(initmeta, driver.run_lines(initlines)):
        if ip != mo:
            divs.append(Divergence("corr.ptn.initpos", {"text": hexenc(t)}, ip, mo))
    if texts:
        ctx.sample({"game_text": texts[0][2][:300], "impl": impl_game(texts[0][2])[0][:300]})


def tie(ctx):
    divs = []
    tie_classes(ctx, divs)
    accepted = tie_moves(ctx, divs)
    tie_strings(ctx, divs, accepted)
    tie_games(ctx, divs)
    return divs


# ----------------------------------------------------------------- the property on implementation data


def check_text(t):
    """property verdicts for one move text on what the implementation does with it.
    Returns list of (key, what)."""
    io, m = impl_parse(t)
    if io.startswith("crash"):
        return [("crash", "parse_move(%r) raises %s, not BadMove" % (t, io.split(" ", 1)[1]))]
    h = hexenc(t)
    if m is None:
        den = driver.run_lines(["ptn denote " + h])[0]
        if den != "none":
            return [("denotation", "parse_move(%r) refuses a standard-form text that denotes [%s]" % (t, den))]
        return []
    bad = []
    ms = ser.move_str(m)
    fo, t2 = impl_format(m)
    io2 = impl_parse(t2)[0] if t2 is not None else "crash-format"
    den, ok, same, loose = driver.run_lines(
        ["ptn denote " + h, "ptn denotes %s %s" % (h, ms), "ptn same %s | %s" % (ms, io2), "ptn loose " + h]
    )
    if loose == "false":
        bad.append(("accepts-non-move", "parse_move(%r) = [%s]: the text is not a PTN move (not even in the lenient forms), yet it is accepted" % (t, ms)))
    if ok == "false":
        bad.append(("denotation", "parse_move(%r) = [%s] but the standard says the text denotes [%s]" % (t, ms, den)))
    if t2 is None:
        bad.append(("unstable-accept", "parse_move(%r) = [%s] is accepted but format_move of it fails: %s" % (t, ms, fo)))
    elif same != "true":
        bad.append(
            ("unstable-accept", "parse_move(%r) = [%s] is accepted, format_move gives %r, and parse_move of that gives [%s]" % (t, ms, t2, io2))
        )
    return bad


def check_move(ms):
    """round trip and denotation of format_move on one move"""
    m = ser.parse_move(ms.split(" "))
    fo, t = impl_format(m)
    if t is None:
        return [("crash" if fo.startswith("crash") else "roundtrip", "format_move([%s]) fails: %s" % (ms, fo))]
    io, _ = impl_parse(t)
    bad = []
    same, dn = driver.run_lines(["ptn same %s | %s" % (ms, io), "ptn denotes %s %s" % (hexenc(t), ms)])
    if same != "true":
        bad.append(("roundtrip", "format_move([%s]) = %r and parse_move of that gives [%s]" % (ms, t, io)))
    if dn != "true":
        bad.append(("denotation", "format_move([%s]) = %r, which %s" % (ms, t, "is not standard form" if dn == "n/a" else "denotes another move by the standard")))
    return bad


def check_game_script(sc):
    """a well-formed script: the model's answer on the rendered text is (by C14_game) the script's
    own tags and moves; the implementation must give the same."""
    h = render([sc])[0]
    t = hexdec(h)
    io, _ = impl_game(t)
    mo = canon_model_game(driver.run_lines(["ptn game " + h])[0])
    if io == mo:
        return []
    if io.startswith("crash"):
        return [("crash", "PTN.parse raises %s on %r" % (io.split(" ", 1)[1], t))]
    if not io.startswith("ok") or not mo.startswith("ok"):
        return [("game-moves", "PTN.parse(%r) gives [%s], the game's own tags and moves are [%s]" % (t, io[:200], mo[:200]))]
    it, im = io[3:].split(" moves=")
    mt, mm = mo[3:].split(" moves=")
    bad = []
    if im != mm:
        bad.append(("game-moves", "PTN.parse(%r) returns moves [%s], the game's moves are [%s]" % (t, im[:200], mm[:200])))
    if it != mt:
        bad.append(
            ("game-tags", "PTN.parse(%r) returns tags %s, the game's tags are %s" % (t, _show_tags(it), _show_tags(mt)))
        )
    return bad


def _show_tags(s):
    if s.startswith("tags="):
        s = s[5:]
    if s == "-":
        return "{}"
    return "{" + ", ".join("%r: %r" % tuple(hexdec(x) for x in kv.split(":")) for kv in s.split(";")) + "}"


def shrink_text(t, key):
    """delete characters while the same failure class remains"""
    changed = True
    while changed:
        changed = False
        for i in range(len(t)):
            t2 = t[:i] + t[i + 1:]
            if any(k == key for k, _ in check_text(t2)):
                t, changed = t2, True
                break
    return t


def shrink_script(sc, key):
    """drop script tokens while the same failure class remains and the script stays well formed
    (an element is never left without the gap that separates it from the next element)"""

    def wellformed(s):
        prev_item = False
        for tok in s:
            kind = tok[0]
            if kind == "t":
                if prev_item:
                    return False
                continue
            if kind in "mxndr":
                if prev_item:
                    return False
                prev_item = True
            else:
                if kind == "w" and tok == "w:_":
                    return False
                prev_item = False
        return True

    changed = True
    while changed:
        changed = False
        for i in range(len(sc)):
            s2 = sc[:i] + sc[i + 1:]
            if not wellformed(s2):
                # try to drop the element together with the gap that follows it
                j = i + 1
                while j < len(sc) and sc[j][0] in "wc":
                    j += 1
                s2 = sc[:i] + sc[j:]
                if s2 == sc or not wellformed(s2):
                    continue
            try:
                if any(k == key for k, _ in check_game_script(s2)):
                    sc, changed = s2, True
                    break
            except Exception:
                continue
    return sc


def search(ctx, divergences, broken):
    found = {}  # key -> (what, replay, count)

    def report(key, what, replay):
        if key in found:
            found[key][2] += 1
            # keep the smallest witness
            if len(str(replay)) < len(str(found[key][1])):
                found[key][0], found[key][1] = what, replay
        else:
            found[key] = [what, replay, 1]

    budget = {"corr.ptn.parse": 120, "corr.ptn.format": 80, "corr.ptn.roundtrip": 80, "corr.ptn.game": 40}
    order = sorted(divergences, key=lambda d: len(str(d.input.get("script") or d.input.get("text") or d.input.get("move") or "")))
    for d in order:
        comp = d.component
        if budget.get(comp, 0) <= 0:
            continue
        verdicts = []
        if comp == "corr.ptn.parse":
            budget[comp] -= 1
            t = hexdec(d.input["text"])
            verdicts = check_text(t)
            for k, w in verdicts:
                report(k, w, {"kind": "text", "text": t})
        elif comp in ("corr.ptn.format", "corr.ptn.roundtrip"):
            budget[comp] -= 1
            ms = d.input["move"]
            verdicts = check_move(ms)
            for k, w in verdicts:
                report(k, w, {"kind": "move", "move": ms})
        elif comp == "corr.ptn.game" and d.input.get("script") is not None:
            budget[comp] -= 1
            sc = d.input["script"]
            verdicts = check_game_script(sc)
            for k, w in verdicts:
                report(k, w, {"kind": "game", "script": sc})
        if verdicts:
            d.explained = True
    # divergences beyond the budget of a component whose examined divergences were all explained
    for comp, left in budget.items():
        if left <= 0:
            examined = [d for d in order if d.component == comp][: {"corr.ptn.parse": 120, "corr.ptn.format": 80, "corr.ptn.roundtrip": 80, "corr.ptn.game": 40}[comp]]
            if examined and all(d.explained for d in examined if not (comp == "corr.ptn.game" and d.input.get("script") is None)):
                for d in divergences:
                    if d.component == comp:
                        d.explained = True
    # damaged game texts are outside C14_game; they are explained when the same run established a
    # game-level failure on a well-formed rendering (same parser path), otherwise they stay unexplained
    if any(k in found for k in ("game-moves", "game-tags", "crash")):
        for d in divergences:
            if d.component == "corr.ptn.game" and d.input.get("script") is None:
                d.explained = True
    vs = []
    for key, (what, replay, n) in found.items():
        try:
            if replay["kind"] == "text":
                t = shrink_text(replay["text"], key)
                w = [w for k, w in check_text(t) if k == key]
                if w:
                    replay, what = {"kind": "text", "text": t}, w[0]
            elif replay["kind"] == "game":
                sc = shrink_script(list(replay["script"]), key)
                w = [w for k, w in check_game_script(sc) if k == key]
                if w:
                    replay, what = {"kind": "game", "script": sc}, w[0]
        except Exception:
            pass
        vs.append(Violation(key, "%s (%d such inputs in this run)" % (what, n), replay))
    return vs


def replay(ctx, data):
    r = data.get("replay", data)
    kind = r.get("kind")
    if kind == "text":
        res = check_text(r["text"])
    elif kind == "move":
        res = check_move(r["move"])
    elif kind == "game":
        res = check_game_script(list(r["script"]))
    else:
        return []
    return [Violation(k, w, r) for k, w in res]

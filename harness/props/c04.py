"""C04 — every reachable position is physically consistent.

tie   : (a) Config defaults, Position.from_config, Position.from_squares vs the model
            (standard and custom configurations, pieces/capstones given or None);
        (b) `move apply` correspondence on every attempt of the histories below;
        (c) the MONITOR (always runs): the implementation is driven along many histories
            (biased policies, sizes 3..8, standard / custom / tiny reserves, refused attempts —
            well-formed illegal and ill-formed — interleaved), and EVERY visited state is sent to
            the driver, which evaluates `Inv cfg p` (Spec/Inv.lean), `PlyTurnOK`, `Opening1/2`;
            plus a BFS closure of tiny 3x3 games over the real `move` and every well-formed move.
search: monitor failures are property failures: shrunk (shortest failing prefix, then refused
        attempts and single moves dropped while the same clause still fails) and reported.
The Python side holds no copy of the predicate: it generates, executes, serialises, diffs.
"""
from collections import deque

from ..check import Divergence, Violation
from ..lib import driver, gen, implrun, ser

ID = "C04"
LEAN_MODULES = ["TakVerif.Props.C04"]
# cross-operation sessions (lib/session.py): which operations this property judges
SESSION = {"kinds": {"inv"}}
RULE = (
    "One evaluation = one visited state of the implementation (after an accepted OR a refused attempt, or an initial / "
    "from_squares position) on which the driver evaluated Inv (plus PlyTurnOK after every accepted move and Opening1/2 "
    "after the first/second), or one (position, move) pair of the move-apply correspondence, or one config/from_squares "
    "comparison. Histories: random play with 6 biased policies on sizes 3..8, standard, custom and tiny reserves (reserves "
    "run out), continuing past game end in half of them, with refused attempts interleaved (failed generator candidates, "
    "random well-formed moves, ill-formed moves: off-board, None/empty/zero/negative/too-long drops). BFS: 3x3, "
    "pieces<=3, capstones<=1, every well-formed move from every state, states identified up to ply>=2 of equal parity. "
    "Non-trivial = a state reached by an accepted move (distinct by configuration + position text)."
)
TRUSTED = [
    "modelled, not verified: CPython list slicing/copy semantics, attrs.evolve, enum identity as used by game.py",
    "BFS closure identifies states that differ only in a ply counter >= 2 of equal parity (move() consults ply only "
    "through ply<2 and parity; proved for the model by inspection of Impl.move, assumed of the implementation)",
]
ASSUMPTIONS = [
    "coordinates, drop counts, sizes and piece counts are Python ints",
    "configured counts are non-negative and size >= 1 (C04_init); games start from Position.from_config",
]

CLAUSE_KEY = {
    "wf": "malformed-board",
    "size": "malformed-board",
    "tops-only": "tops-only",
    "negative-ply": "ply-turn",
}


def clause_key(clause):
    if clause.startswith("conservation"):
        return "conservation"
    if clause.startswith("negative-reserve"):
        return "negative-reserve"
    return CLAUSE_KEY.get(clause, "inv-" + clause)


# ------------------------------------------------------------------ configurations


def _mk_config(spec):
    import tak

    size, pieces, caps = spec
    return tak.Config(size=size, pieces=pieces, capstones=caps)


def _resolved(cfg):
    """the CONFIGURED counts: an explicitly given count (zero included) is what was configured;
    a count left unset is the standard one for the size, observed on a plain `Config(size=n)`
    (those defaults are tied to the model's table exhaustively by `_tie_configs`).  The
    implementation's own resolution (`cfg.flat_count`) is deliberately not trusted here: if it
    resolves an explicit count to something else, the initial position no longer holds the
    configured number of stones and `inv` must say so."""
    import tak

    std = tak.Config(size=cfg.size)
    pieces = cfg.pieces if cfg.pieces is not None else std.flat_count
    caps = cfg.capstones if cfg.capstones is not None else std.capstone_count
    return cfg.size, pieces, caps


def _spec_json(spec):
    return {"size": spec[0], "pieces": spec[1], "capstones": spec[2]}


def _config_specs(rng, size, n):
    """standard, partially specified and custom (incl. tiny) configurations"""
    out = [(size, None, None), (size, 2, None), (size, None, 1), (size, 1, 1), (size, 3, 0), (size, size, 2), (size, None, 0), (size, 0, 1)]
    std = gen.STD_PIECES[size]
    while len(out) < n:
        out.append(
            (
                size,
                rng.choice([None, 1, 2, 3, 4, size, std, rng.randrange(1, 2 * std + 1)]),
                rng.choice([None, 0, 0, 1, 1, 2, 3]),
            )
        )
    return out[:n]


# ------------------------------------------------------------------ running a history


def _color_str(c):
    return "W" if c.value == 0 else "B"


class Run:
    """the implementation driven along a list of attempted moves; records what was observed"""

    def __init__(self, spec, moves):
        import tak

        self.spec = spec
        self.moves = moves
        cfg = _mk_config(spec)
        self.res = _resolved(cfg)
        pos = tak.Position.from_config(cfg)
        self.steps = []  # (t, kind, line)  kind in inv/plyturn/opening1/opening2
        self.local = []  # (t, key, what) failures observed without the driver
        self.apply = []  # (before_str, move_str, impl_out)
        self.accepted = 0
        cfgs = "%d %d %d" % self.res
        ps = ser.pos_str(pos)
        self.states = [ps]
        self.steps.append((0, "inv", "move inv %s %s" % (cfgs, ps)))
        self.steps.append((0, "plyturn", "move plyturn 0 %s %s" % (_color_str(pos.to_move()), ps)))
        for t, m in enumerate(moves, 1):
            before = ps
            ms = ser.move_str(m)
            try:
                q = pos.move(m)
                out = "ok " + ser.pos_str(q)
            except tak.IllegalMove:
                q, out = None, "illegal"
            except Exception as e:  # any other exception class is a crash (C01's business); here: refused
                q, out = None, "crash " + type(e).__name__
            self.apply.append((before, ms, out))
            if q is not None:
                pos = q
                self.accepted += 1
                ps = out[3:]
                self.steps.append((t, "inv", "move inv %s %s" % (cfgs, ps)))
                self.steps.append(
                    (t, "plyturn", "move plyturn %d %s %s" % (self.accepted, _color_str(pos.to_move()), ps))
                )
                if self.accepted == 1:
                    self.steps.append((t, "opening1", "move opening1 " + ps))
                elif self.accepted == 2:
                    self.steps.append((t, "opening2", "move opening2 " + ps))
            else:
                # refused (or crashed): the position object must be exactly as it was
                after = ser.pos_str(pos)
                if after != before:
                    self.local.append((t, "refused-changed", "a refused attempt changed the position: [%s] -> [%s]" % (before, after)))
                    ps = after
                self.steps.append((t, "inv", "move inv %s %s" % (cfgs, ps)))
            self.states.append(ps)


def _evaluate(runs):
    """send every recorded check of every run to the driver.
    Returns {run_index: (t, key, what)} — the EARLIEST failure of each failing run."""
    lines, where = [], []
    cache = {}
    for ri, r in enumerate(runs):
        for t, kind, line in r.steps:
            if line not in cache:
                cache[line] = len(lines)
                lines.append(line)
            where.append((ri, t, kind, cache[line]))
    outs = driver.run_lines(lines)
    fails = {}
    for ri, r in enumerate(runs):
        for t, key, what in r.local:
            if ri not in fails or t < fails[ri][0]:
                fails[ri] = (t, key, what)
    for ri, t, kind, li in where:
        o = outs[li]
        if o == "true":
            continue
        if kind == "inv":
            clause = o.split(":", 1)[1] if o.startswith("false:") else o
            key = clause_key(clause)
            what = "Inv fails (clause %s) at state [%s]" % (clause, lines[li].split(" ", 5)[5])
        elif kind == "plyturn":
            key = "ply-turn"
            toks = lines[li].split(" ")
            what = "after %s accepted moves the position reports to_move=%s ply=%s (driver: %s)" % (toks[2], toks[3], toks[9], o)
        else:
            key = "opening-colours"
            what = "%s fails at state [%s] (driver: %s)" % (kind, lines[li].split(" ", 2)[2], o)
        if ri not in fails or t < fails[ri][0]:
            fails[ri] = (t, key, what)
    return fails, len(where)


def _fails_with(spec, moves, key):
    r = Run(spec, moves)
    f, _ = _evaluate([r])
    return f.get(0) if (0 in f and f[0][1] == key) else None


def _shrink(spec, moves, t, key):
    """shortest failing prefix; then drop refused attempts; then single moves, while the same
    failure class persists"""
    moves = list(moves[:t])
    budget = 500
    r = Run(spec, moves)
    kept = [m for m, (_, _, out) in zip(moves, r.apply) if out.startswith("ok ")]
    if len(kept) < len(moves) and key != "refused-changed" and _fails_with(spec, kept, key):
        moves = kept
    # drop blocks of moves (even-sized blocks keep the turn order of what follows)
    for chunk in (16, 8, 4, 2, 1, 2):
        i = len(moves) - 1 - chunk
        while i >= 0 and budget > 0 and len(moves) <= 400:
            cand = moves[:i] + moves[i + chunk :]
            budget -= 1
            f = _fails_with(spec, cand, key)
            if f:
                moves = cand[: f[0]]
                i = min(i, len(moves) - 1 - chunk)
            else:
                i -= 1
    f = _fails_with(spec, moves, key)
    if f is None:
        return None
    # cut again at the first failure
    return moves[: f[0]], f


def _failure_record(spec, moves, t, key, what):
    """unshrunk: the prefix of attempted moves up to the first failing check"""
    return {
        "config": _spec_json(spec),
        "moves": [ser.move_str(m) for m in moves[:t]],
        "key": key,
        "what": what,
    }


def _shrunk(rec):
    spec = (rec["config"]["size"], rec["config"]["pieces"], rec["config"]["capstones"])
    moves = [ser.parse_move(m.split(" ")) for m in rec["moves"]]
    try:
        sh = _shrink(spec, moves, len(moves), rec["key"])
    except Exception:
        sh = None
    if sh is None:
        return rec
    moves2, (t2, key2, what2) = sh
    return {"config": rec["config"], "moves": [ser.move_str(m) for m in moves2], "key": rec["key"], "what": what2}


# ------------------------------------------------------------------ generating histories


def _gen_history(rng, spec, policy, max_plies, p_noise, stop_on_win):
    """a list of ATTEMPTED moves: the accepted ones follow a biased policy over the
    implementation's own candidate list; failed candidates, random well-formed moves and
    ill-formed moves are interleaved as refused attempts"""
    import tak

    size = spec[0]
    cfg = _mk_config(spec)
    pos = tak.Position.from_config(cfg)
    universe = gen.wellformed_moves(size)
    moves = []

    def attempt(m):
        nonlocal pos
        moves.append(m)
        try:
            pos = pos.move(m)
            return True
        except Exception:
            return False

    for _ in range(max_plies):
        if stop_on_win:
            try:
                if pos.winner()[1] is not None:
                    break
            except Exception:
                pass
        if rng.random() < p_noise:
            for _k in range(rng.choice([1, 1, 2, 3])):
                if rng.random() < 0.5:
                    attempt(rng.choice(universe))
                else:
                    attempt(gen.illformed_moves(rng, size, 1, pos)[0])
        try:
            cands = pos.all_moves()
        except Exception:
            cands = list(universe)
        if not cands:
            break
        weights = [gen._weight(policy, pos, m, tak) for m in cands]
        ok = False
        for _try in range(8):
            if attempt(rng.choices(cands, weights)[0]):
                ok = True
                break
        if not ok:
            # typically: reserves exhausted, so every placement is refused; go through the slides
            rest = [m for m in cands if m.type.is_slide()]
            rng.shuffle(rest)
            for m in rest[:150]:
                if attempt(m):
                    ok = True
                    break
        if not ok:
            break
    return moves


def _history_plan(ctx):
    """(spec, policy, max_plies, noise, stop_on_win) for every history of this run"""
    rng = ctx.rng
    if ctx.thorough:
        per_size = {3: 240, 4: 180, 5: 120, 6: 80, 7: 40, 8: 30}
    else:
        per_size = {3: 42, 4: 32, 5: 24, 6: 16, 7: 10, 8: 8}
    plan = []
    for size, n in per_size.items():
        specs = _config_specs(rng, size, max(6, n // 2))
        for g in range(n):
            spec = specs[g % len(specs)] if g % 3 else (size, None, None)
            policy = gen.POLICIES[g % len(gen.POLICIES)]
            max_plies = rng.choice([12, 4 * size * size, 8 * size * size, 8 * size * size])
            plan.append((spec, policy, max_plies, rng.choice([0.0, 0.25, 0.6]), g % 2 == 0))
    # tiny reserves on every size: reserves run out quickly
    for size in range(3, 9):
        for pieces, caps in ((1, 0), (1, 1), (2, 1), (3, 0)):
            for policy in ("drain", "stacky") if not ctx.thorough else ("drain", "stacky", "wally", "uniform"):
                plan.append(((size, pieces, caps), policy, 40, 0.4, False))
    return plan


# ------------------------------------------------------------------ BFS closure


def _bfs(ctx, pieces, caps, cap_states):
    """closure of the 3x3 game with the given reserves under the real `move` and every
    well-formed move.  Returns (states, closed, failure-record-or-None)."""
    import tak

    spec = (3, pieces, caps)
    cfg = _mk_config(spec)
    cfgs = "%d %d %d" % _resolved(cfg)
    universe = gen.wellformed_moves(3)
    start = tak.Position.from_config(cfg)

    def key(p):
        w, b = p.stones
        return (ser.board_str(p.board), w.stones, w.caps, b.stones, b.caps, p.ply if p.ply < 2 else 2 + p.ply % 2)

    k0 = key(start)
    parent = {k0: None}
    q = deque([(start, k0)])
    lines = ["move inv %s %s" % (cfgs, ser.pos_str(start))]
    line_keys = [k0]
    transitions = 0
    closed = True
    while q:
        if len(parent) > cap_states:
            closed = False
            break
        p, kp = q.popleft()
        for m in universe:
            try:
                r = p.move(m)
            except tak.IllegalMove:
                continue
            except Exception:
                continue
            transitions += 1
            kr = key(r)
            if kr not in parent:
                parent[kr] = (kp, m)
                q.append((r, kr))
                rs = ser.pos_str(r)
                lines.append("move inv %s %s" % (cfgs, rs))
                line_keys.append(kr)
                lines.append("move plyturn %d %s %s" % (p.ply + 1, _color_str(r.to_move()), rs))
                line_keys.append(kr)
    ctx.count("bfs:transitions", transitions)
    bad_key = None
    for lo in range(0, len(lines), 200000):
        outs = driver.run_lines(lines[lo : lo + 200000])
        for j, o in enumerate(outs):
            ctx.evaluated()
            if o != "true" and bad_key is None:
                bad_key = line_keys[lo + j]
        if bad_key is not None:
            break
    rec = None
    if bad_key is not None:
        path = []
        k = bad_key
        while parent[k] is not None:
            k, m = parent[k]
            path.append(m)
        path.reverse()
        f, _ = _evaluate([Run(spec, path)])
        if 0 in f:
            t, fkey, what = f[0]
            rec = _failure_record(spec, path, t, fkey, what)
        else:
            rec = {"config": _spec_json(spec), "moves": [ser.move_str(m) for m in path], "key": "bfs-unreproduced", "what": "BFS state failed but the replay of its path does not"}
    return len(parent), closed, rec


# ------------------------------------------------------------------ tie


def _tie_configs(ctx, divs):
    """defaults, from_config, from_squares against the model"""
    import tak
    from tak import pieces as P

    rng = ctx.rng
    lines, impl, meta = [], [], []
    # defaults, observed through the public properties
    model_defaults = {}
    outs = driver.run_lines(["move defaults %d" % n for n in range(3, 9)])
    for n, o in zip(range(3, 9), outs):
        c = tak.Config(size=n)
        io = "%d %d" % (c.flat_count, c.capstone_count)
        ctx.evaluated()
        ctx.count("config:defaults")
        model_defaults[n] = tuple(int(v) for v in o.split(" ")) if o != "bad-op" else None
        if io != o:
            divs.append(Divergence("corr.config", {"op": "defaults", "size": n}, io, o))

    def model_cfg(spec):
        n, pc, cp = spec
        d = model_defaults.get(n) or (0, 0)
        return n, (d[0] if pc is None else pc), (d[1] if cp is None else cp)

    specs = []
    for n in range(3, 9):
        specs += _config_specs(rng, n, 14 if ctx.thorough else 9)
        specs += [(n, 0, 0), (n, None, 0), (n, 0, None)]
    for spec in specs:
        cfg = _mk_config(spec)
        try:
            io = ser.pos_str(tak.Position.from_config(cfg))
        except Exception as e:
            io = "crash " + type(e).__name__
        lines.append("move fromconfig %d %d %d" % model_cfg(spec))
        impl.append(io)
        meta.append(("corr.config", {"op": "from_config", "config": _spec_json(spec)}))
        ctx.count("config:from_config")
    # from_squares: constructed boards, right and wrong lengths
    sq_positions = []
    nsq = 60 if ctx.thorough else 25
    for n in range(3, 9):
        for j in range(nsq if n <= 5 else nsq // 3):
            spec = rng.choice(_config_specs(rng, n, 9))
            cfg = _mk_config(spec)
            board = []
            wrong = j % 7 == 6
            count = n * n + (rng.choice([-1, 1, -n, n, -n * n]) if wrong else 0)
            fill = rng.random()
            for _ in range(count):
                st = []
                if rng.random() < fill:
                    h = 1 if rng.random() < 0.5 else rng.randrange(1, 2 * n + 1)
                    tops = rng.random() < 0.7
                    for i in range(h):
                        kind = P.Kind(rng.choice([0, 0, 0, 1, 2])) if (i == 0 or not tops) else P.Kind.FLAT
                        st.append(P.Piece.cached(P.Color(rng.randrange(2)), kind))
                board.append(st)
            ply = rng.choice([0, 1, 2, 3, 7, 10, 99, -1, rng.randrange(0, 200)])
            bs = ser.board_str(board)
            try:
                pos = tak.Position.from_squares(cfg, board, ply)
                io = "ok " + ser.pos_str(pos)
                sq_positions.append((spec, _resolved(cfg), ser.pos_str(pos)))
            except ValueError:
                io = "none"
            except Exception as e:
                io = "crash " + type(e).__name__
            mc = model_cfg(spec)
            lines.append("move fromsquares %d %d %d %d %s" % (mc[0], mc[1], mc[2], ply, bs))
            impl.append(io)
            meta.append(("corr.config", {"op": "from_squares", "config": _spec_json(spec), "ply": ply, "board": bs}))
            ctx.count("config:from_squares" + (":wronglen" if wrong else ""))
    outs = driver.run_lines(lines)
    for (comp, inp), io, mo in zip(meta, impl, outs):
        ctx.evaluated()
        if io != mo:
            divs.append(Divergence(comp, inp, io, mo))
    # the conservation equalities on what from_squares returned (C04_from_squares), decided by the driver
    inv_lines = ["move inv %d %d %d %s" % (res + (ps,)) for _, res, ps in sq_positions]
    for (spec, res, ps), o in zip(sq_positions, driver.run_lines(inv_lines)):
        ctx.evaluated()
        clause = o.split(":", 1)[1] if o.startswith("false:") else ""
        if clause.startswith("conservation") or clause in ("wf", "size") or o == "bad-op":
            divs.append(
                Divergence(
                    "monitor.from_squares",
                    {"config": _spec_json(spec), "from_squares": ps, "key": "from-squares-conservation",
                     "what": "Position.from_squares returned [%s] which violates %s" % (ps, clause or o)},
                    o,
                    "conservation by construction",
                )
            )


def _monitor(ctx, divs, plan):
    runs = []
    for spec, policy, max_plies, noise, stop in plan:
        moves = _gen_history(ctx.rng, spec, policy, max_plies, noise, stop)
        r = Run(spec, moves)
        runs.append(r)
        ctx.count("history:size%d" % spec[0])
        ctx.count("history:" + policy)
        ctx.count("history:" + ("standard" if spec[1] is None and spec[2] is None else "custom"))
        ctx.count("attempts", len(moves))
        ctx.count("attempts:accepted", r.accepted)
        ctx.count("attempts:refused", len(moves) - r.accepted)
        if r.accepted and any(s.split(" ")[1] == "0" or s.split(" ")[3] == "0" for s in r.states[-1:]):
            ctx.count("history:stone-reserve-exhausted")
        for (b, ms, out), st in zip(r.apply, r.states[1:]):
            if out.startswith("ok "):
                ctx.nontrivial("%d %d %d|%s" % (r.res + (st,)))
                mt = ms.split(" ")
                if int(mt[2]) >= 4:
                    ctx.count("accepted:slide")
                    drops = [int(d) for d in mt[3].split(",")]
                    if sum(drops) == r.spec[0]:
                        ctx.count("accepted:slide:carry-limit")
                    if len(drops) > 1:
                        ctx.count("accepted:slide:multi-drop")
                    bb, sb = b.split(" ")[6], st.split(" ")[6]
                    if bb.count("b") + bb.count("e") > sb.count("b") + sb.count("e"):
                        ctx.count("accepted:slide:flattening")
                    if max(len(x) for x in sb.split(",")) >= r.spec[0]:
                        ctx.count("state:stack-height>=size")
                elif mt[2] == "3":
                    ctx.count("accepted:place:capstone")
                elif mt[2] == "2":
                    ctx.count("accepted:place:wall")
                else:
                    ctx.count("accepted:place")
    fails, nchecks = _evaluate(runs)
    ctx.evaluated(nchecks)
    for ri in sorted(fails):
        t, key, what = fails[ri]
        r = runs[ri]
        rec = _failure_record(r.spec, r.moves, t, key, what)
        divs.append(Divergence("monitor.inv", rec, what, "Inv / PlyTurnOK / Opening hold on every reachable state"))
    # (b) move-apply correspondence on every attempt of every history
    lines, impl, meta = [], [], []
    seen = set()
    for r in runs:
        for b, ms, out in r.apply:
            if (b, ms) in seen:
                continue
            seen.add((b, ms))
            lines.append("move apply %s %s" % (b, ms))
            impl.append(out)
            meta.append({"pos": b, "move": ms})
    for inp, io, mo in zip(meta, impl, driver.run_lines(lines)):
        ctx.evaluated()
        ctx.count("apply:" + io.split(" ", 1)[0])
        if io != mo:
            divs.append(Divergence("corr.move", inp, io, mo))
    if runs:
        r = runs[len(runs) // 2]
        ctx.sample({"config": _spec_json(r.spec), "attempts": len(r.moves), "accepted": r.accepted, "final": r.states[-1]})
        ctx.sample({"config": _spec_json(runs[-1].spec), "attempts": len(runs[-1].moves), "accepted": runs[-1].accepted, "final": runs[-1].states[-1]})
    return runs


def tie(ctx):
    divs = []
    _tie_configs(ctx, divs)
    _monitor(ctx, divs, _history_plan(ctx))
    # BFS closure of tiny 3x3 games
    # (pieces, capstones, state cap, expected to close): 2/1 and 3/0 have 2 990 406 and 2 508 872 states
    # (measured, ~20 min each), beyond the tier budget: they are explored breadth-first up to the cap only
    if ctx.thorough:
        targets = [(1, 0, 400000, True), (1, 1, 400000, True), (2, 0, 400000, True),
                   (2, 1, 600000, False), (3, 0, 600000, False), (3, 1, 600000, False)]
    else:
        targets = [(1, 0, 100000, True), (1, 1, 100000, True)]
    closure = {}
    all_closed = True
    for pieces, caps, cap_states, must_close in targets:
        n, closed, rec = _bfs(ctx, pieces, caps, cap_states)
        closure["3x3 pieces=%d capstones=%d" % (pieces, caps)] = {"states": n, "closed": closed}
        ctx.count("bfs:states", n)
        ctx.note("BFS 3x3 pieces=%d capstones=%d: %d states, closure %s" % (pieces, caps, n, "reached" if closed else "NOT reached (state cap %d)" % cap_states))
        if must_close:
            all_closed = all_closed and closed
        if rec is not None:
            divs.append(Divergence("monitor.inv", rec, rec["what"], "Inv on every state of the closure"))
    ctx.extra["bfs_closure"] = closure
    # exhaustive = every configuration listed as closed in bfs_closure was enumerated completely
    ctx.exhaustive = all_closed
    return divs


# ------------------------------------------------------------------ search / replay


def _violation_of(rec):
    if "moves" in rec:
        what = "config %s, after the attempted moves %s: %s" % (rec["config"], rec["moves"], rec["what"])
    else:
        what = rec["what"]
    return Violation(rec["key"], what, rec)


def search(ctx, divergences, broken):
    vs = []
    best = {}
    for d in divergences:
        if d.component.startswith("monitor."):
            d.explained = True
            rec = d.input
            k = rec["key"]
            if k not in best or len(rec.get("moves", [])) < len(best[k].get("moves", [])):
                best[k] = rec
    for k in sorted(best):
        rec = best[k]
        vs.append(_violation_of(_shrunk(rec) if "moves" in rec else rec))
    unexplained = [d for d in divergences if not d.explained]
    if (unexplained or broken) and not vs:
        # the tie or a proof obligation is broken but the monitor saw nothing: look harder
        extra = []
        plan = _history_plan(ctx)
        _monitor(ctx, extra, plan)
        for d in extra:
            if d.component.startswith("monitor.") and not any(v.key == d.input["key"] for v in vs):
                vs.append(_violation_of(_shrunk(d.input) if "moves" in d.input else d.input))
        # positions on which the correspondence broke: is the implementation's successor consistent?
        for d in unexplained[:200]:
            if d.component == "corr.move" and isinstance(d.impl, str) and d.impl.startswith("ok "):
                ps, qs = d.input["pos"], d.impl[3:]
                t = ps.split(" ")
                # configuration recovered from the predecessor by the driver's own count is not available here;
                # tops-only and well-formedness of the successor are configuration-independent
                o = driver.run_lines(["move topsonly " + qs, "move topsonly " + ps, "move wf " + qs])
                if o[1] == "true" and (o[0] != "true" or o[2] != "true"):
                    d.explained = True
                    vs.append(Violation("tops-only", "Position.move on pos=[%s] move=[%s] yields [%s] which is not tops-only / well-formed" % (ps, d.input["move"], qs), {"pos": ps, "move": d.input["move"], "impl": d.impl}))
    # one violation per key, the shortest replay first
    vs.sort(key=lambda v: (v.key, len(v.replay.get("moves", [])) if isinstance(v.replay, dict) else 0))
    return vs


def replay(ctx, data):
    r = data.get("replay", data)
    if "from_squares" in r:
        c = r["config"]
        cfg = _mk_config((c["size"], c["pieces"], c["capstones"]))
        o = driver.run_lines(["move inv %d %d %d %s" % (_resolved(cfg) + (r["from_squares"],))])[0]
        return [] if not o.startswith("false:conservation") else [Violation(r.get("key", "from-squares-conservation"), r.get("what", o), r)]
    if "moves" not in r:
        # a single (pos, move) pair recorded by the search
        pos = ser.parse_pos(r["pos"].split(" "))
        out = implrun.move_out(pos, ser.parse_move(r["move"].split(" ")))
        if not out.startswith("ok "):
            return []
        o = driver.run_lines(["move topsonly " + out[3:], "move wf " + out[3:]])
        return [Violation("tops-only", "pos=[%s] move=[%s] yields [%s]" % (r["pos"], r["move"], out), r)] if o != ["true", "true"] else []
    c = r["config"]
    spec = (c["size"], c["pieces"], c["capstones"])
    moves = [ser.parse_move(m.split(" ")) for m in r["moves"]]
    f, _ = _evaluate([Run(spec, moves)])
    if 0 in f:
        t, key, what = f[0]
        return [Violation(key, "config %s, attempted moves %s: %s" % (c, r["moves"][:t], what), r)]
    return []

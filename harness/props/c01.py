"""C01 — applying a move follows the rules exactly, or is refused."""
from ..check import Divergence, Violation
from ..lib import driver, gen, implrun, ser

ID = "C01"
LEAN_MODULES = ["TakVerif.Props.C01"]
# cross-operation sessions (lib/session.py): which operations this property judges
SESSION = {"kinds": {"move"}}
RULE = (
    "positions: random legal play (6 biased policies, sizes 3..8, standard+custom reserves) and constructed boards; "
    "moves: EVERY well-formed move of the size for each sampled position plus a random and a bounded-exhaustive "
    "ill-formed stream (off-board squares, None/empty/zero/negative/too-long drops). One evaluation = one (position, move) "
    "run through Position.move and through Impl.move. Non-trivial = the move was accepted, or was a slide refused "
    "after passing the opening/height checks; distinct by (position, move) text."
)
TRUSTED = [
    "modelled, not verified: CPython list slicing/copy semantics, attrs.evolve, enum identity as used by game.py",
]
ASSUMPTIONS = ["coordinates and drop counts are Python ints (floats/bools/subclasses of Move not covered)"]


def _plan(ctx):
    """list of independent work units (size, n_games, n_constructed, n_illformed, exhaustive_ill, unit_seed)"""
    if ctx.thorough:
        plan = {3: (200, 40), 4: (160, 40), 5: (110, 30), 6: (60, 20), 7: (20, 10), 8: (10, 6)}
        ill_n, chunk = 400, 4
    else:
        plan = {3: (24, 8), 4: (20, 8), 5: (12, 6), 6: (8, 4), 7: (3, 2), 8: (1, 1)}
        ill_n, chunk = 150, 3
    units = []
    for size, (ngames, ncons) in plan.items():
        g, c = ngames, ncons
        while g > 0 or c > 0:
            units.append((size, min(g, chunk), min(c, chunk), ill_n, 0, ctx.rng.getrandbits(48)))
            g, c = max(0, g - chunk), max(0, c - chunk)
    for size in (3, 5) if not ctx.thorough else (3, 4, 5, 6, 8):
        units.append((size, 1, 1, 0, 2 if ctx.thorough else 1, ctx.rng.getrandbits(48)))
    return units


def _run_unit(unit):
    """runs in a worker process: generate cases, run the implementation, return text rows"""
    import random

    size, ngames, ncons, ill_n, exh, useed = unit
    rng = random.Random(useed)
    rows = []  # (pos_str, move_str, label, impl_out)
    labels = {}
    universe = gen.wellformed_moves(size)
    sample = gen.sample_positions(rng, [size], ngames, per_game=5 if not exh else 2, constructed_per_size=ncons)
    for label, pos in sample:
        labels["pos:size%d" % size] = labels.get("pos:size%d" % size, 0) + 1
        labels["pos:" + label.split(":")[0]] = labels.get("pos:" + label.split(":")[0], 0) + 1
        ps = ser.pos_str(pos)
        if exh:
            for m in gen.illformed_moves_exhaustive(size, maxlen=exh):
                rows.append((ps, ser.move_str(m), "ill-exh", implrun.move_out(pos, m)))
            continue
        for m in universe:
            rows.append((ps, ser.move_str(m), label, implrun.move_out(pos, m)))
        for m in gen.illformed_moves(rng, size, ill_n, pos):
            rows.append((ps, ser.move_str(m), "ill", implrun.move_out(pos, m)))
        off = gen.offboard_moves(size)
        for m in rng.sample(off, min(len(off), 150)):
            rows.append((ps, ser.move_str(m), "off-board", implrun.move_out(pos, m)))
    if not exh:
        # very tall stacks (17, 33, 40 stones) and slides whose drop counts are far beyond any board
        import tak

        for _ in range(3):
            pos, (x, y) = gen.tower_position(rng, size)
            ps = ser.pos_str(pos)
            labels["pos:tower"] = labels.get("pos:tower", 0) + 1
            for t in list(tak.MoveType)[3:]:
                for d in gen.BIG_DROPS + [1, size]:
                    for s in ((d,), (d, 1), (1, d), (d, 0)):
                        m = tak.Move(x, y, t, s)
                        rows.append((ps, ser.move_str(m), "ill-big", implrun.move_out(pos, m)))
            for m in universe[:: max(1, len(universe) // 200)]:
                rows.append((ps, ser.move_str(m), "tower", implrun.move_out(pos, m)))
            # every slide that runs off the board, from the tower (tall enough for any carry) and
            # from the other squares
            off = gen.offboard_moves(size)
            for m in [m for m in off if (m.x, m.y) == (x, y)] + off[:: max(1, len(off) // 300)]:
                rows.append((ps, ser.move_str(m), "off-board", implrun.move_out(pos, m)))
    model_out = driver.run_lines(["move apply %s %s" % (r[0], r[1]) for r in rows])
    return rows, model_out, labels


def tie(ctx):
    import multiprocessing as mp
    import os

    units = _plan(ctx)
    nproc = min(len(units), os.cpu_count() or 4, 16 if ctx.thorough else 8)
    with mp.get_context("fork").Pool(nproc) as pool:
        results = pool.map(_run_unit, units, chunksize=1)
    divs = []
    k = 0
    for rows, model_out, labels in results:
        for key, n in labels.items():
            ctx.count(key, n)
        for (ps, ms, label, io), mo in zip(rows, model_out):
            ctx.evaluated()
            kind = io.split(" ", 1)[0]
            ctx.count("outcome:" + kind)
            if label.startswith("ill"):
                ctx.count("illformed")
            if kind == "ok":
                ctx.nontrivial(ps + "|" + ms)
                ctx.count("accepted:slide" if int(ms.split(" ")[2]) >= 4 else "accepted:place")
            if io != mo:
                divs.append(Divergence("corr.move", {"pos": ps, "move": ms}, io, mo))
            k += 1
            if k % 50021 == 1:
                ctx.sample({"pos": ps, "move": ms, "impl": io})
    return divs


def classify(ps, ms):
    t = ps.split(" ")
    size = int(t[0])
    x, y, mt, sl = ms.split(" ")
    x, y, mt = int(x), int(y), int(mt)
    if not (0 <= x < size and 0 <= y < size):
        return "offboard-square"
    if mt >= 4:
        if sl == "none":
            return "slide-without-drops"
        if sl == "-" or any(int(d) < 1 for d in sl.split(",")):
            return "nonpositive-or-empty-drops"
    return "rules-mismatch"


def predicate(cases):
    """cases: list of (pos_str, move_str, impl_out).  Returns list of (case, expected) where
    the implementation's behaviour is not what Rules.Legal/Rules.result prescribe."""
    lines = ["move rules %s %s" % (ps, ms) for ps, ms, _ in cases]
    outs = driver.run_lines(lines)
    bad = []
    for (ps, ms, io), ro in zip(cases, outs):
        if ro.startswith("legal "):
            expect = "ok " + ro[len("legal "):]
        else:
            expect = ro  # "illegal" (or bad-op, which never equals an impl output)
        if io != expect:
            bad.append(((ps, ms, io), expect))
    return bad


def shrink(ps, ms):
    """empty every square whose content does not matter for the failure"""
    toks = ps.split(" ")
    board = toks[6].split(",")
    import tak  # noqa

    def fails(b):
        p2 = " ".join(toks[:6] + [",".join(b)])
        pos = ser.parse_pos(p2.split(" "))
        io = implrun.move_out(pos, ser.parse_move(ms.split(" ")))
        return bool(predicate([(p2, ms, io)])), p2, io

    for i in range(len(board)):
        if board[i] == "_":
            continue
        b2 = list(board)
        b2[i] = "_"
        f, _, _ = fails(b2)
        if f:
            board = b2
    f, p2, io = fails(board)
    return (p2, io) if f else (ps, None)


def search(ctx, divergences, broken):
    cases = [(d.input["pos"], d.input["move"], d.impl) for d in divergences]
    bad = predicate(cases)
    badset = {(c[0], c[1]) for c, _ in bad}
    for d in divergences:
        if (d.input["pos"], d.input["move"]) in badset:
            d.explained = True
    vs = []
    seen = {}
    for (ps, ms, io), expect in bad:
        key = classify(ps, ms)
        seen.setdefault(key, []).append((ps, ms, io, expect))
    for key, lst in seen.items():
        lst.sort(key=lambda c: (len(c[0]), len(c[1])))
        ps, ms, io, expect = lst[0]
        try:
            ps2, io2 = shrink(ps, ms)
            if io2 is not None:
                exp2 = predicate([(ps2, ms, io2)])
                if exp2:
                    ps, io, expect = ps2, io2, exp2[0][1]
        except Exception:
            pass
        vs.append(
            Violation(
                key,
                "Position.move on pos=[%s] move=[%s] gives [%s] but the rules prescribe [%s] (%d such inputs in this run)"
                % (ps, ms, io, expect, len(lst)),
                {"pos": ps, "move": ms, "impl": io, "rules": expect},
            )
        )
    return vs


def replay(ctx, data):
    r = data.get("replay", data)
    ps, ms = r["pos"], r["move"]
    pos = ser.parse_pos(ps.split(" "))
    m = ser.parse_move(ms.split(" "))
    io = implrun.move_out(pos, m)
    bad = predicate([(ps, ms, io)])
    if bad:
        return [Violation(classify(ps, ms), "pos=[%s] move=[%s] gives [%s], rules prescribe [%s]" % (ps, ms, io, bad[0][1]), r)]
    return []

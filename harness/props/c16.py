"""C16 — a position's evaluation does not depend on batching or padding.

tie (`corr.xformer`):  tiny real `xformer.Transformer`s in float64 are run in-process; their weights are sent
    bit-exactly to the Lean driver, which runs the `Float` instance of `Model/Xformer.lean` on the same rows and
    masks; outputs must agree to 1e-9 on every real token.  Rows/masks come (a) from harness-built batches of
    mixed lengths, arbitrary pad width and arbitrary pad content, and (b) from the real call sites
    (`encode_batch` + `PositionValuePolicy`, `ReplayBufferDataset`/`ReplayBufferBatch`, `Server.run_model`,
    `ModelWrapper.evaluate`), observed through a recording `nn.Module` placed around the model.  Every stateful
    call site lives through a SESSION (`schedule`): one Server / one ModelWrapper / one ReplayBufferDataset object
    sees several rounds of batches whose sizes, widths and per-row lengths grow, shrink, reverse and repeat, so
    that state carried from one batch to the next (reused buffers, cached masks) is exercised.  The mask rows the
    call sites pass are compared with `extraInputs ∘ encodeBatch` / `serverBatch` evaluated by the driver.
    `PolicyValue` has 4572 outputs: the driver gets a random subset of 6 rows of `move_proj` (logits are row-wise
    independent) except in the `evaluate` cases, which carry the full head and compare all probabilities.

property on the implementation (always run; no model involved): alone vs padded vs batched vs other pad content
    vs other suffix (causal), float32 (1e-5 · max(1,‖·‖∞)) and float64 (1e-12 · …); `ModelWrapper.evaluate` range;
    sessions of the call sites (kinds `server`, `evaluate`, `dataset`): every answer of the long-lived object vs the
    same position evaluated alone on a fresh one (and, for `evaluate`, inside a padded batch).  The position pools
    contain near-duplicates (`variant`): same board with other reserves, other side to move, other move number.
    Keys: padding-dependent, batch-dependent, causal-leak, evaluate-range, evaluate-stale-state (a long-lived
    ModelWrapper answers differently from a fresh one), impl-exception (the implementation raised).
    The comparison itself is done by the driver (`xformer close`, `xformer range`).
"""
import asyncio
import json

import torch

from ..check import Divergence, Violation
from ..lib import driver, gen, ser, xf

ID = "C16"
LEAN_MODULES = ["TakVerif.Props.C16"]
NEEDS_STUBS = True
RULE = (
    "models: real xformer.Transformer, every parameter random (seeded), 1-3 layers, d_model 4..16 (direct tests up to 32), "
    "1-4 heads, positional sin/learned/none, causal on/off, text and PolicyValue heads, train and eval mode; "
    "inputs: batches of 1-5 rows of mixed lengths, pad width 0..6 beyond the longest row, pad tokens uniformly random "
    "(non-zero), suffix perturbations for causal models, real positions of sizes 3..5 for the call sites, which are "
    "driven through sessions of 3-6 rounds on one object (subset / reversed / repeated / singleton / whole-pool / "
    "multiset rounds, so widths and the length held by a row position grow and shrink). "
    "One evaluation = one row compared (model vs implementation, or implementation vs itself under a different "
    "batch/pad/suffix). Non-trivial = the row had at least one padded key, a batch mate, or a perturbed suffix; "
    "distinct by (config, seed, rows, masks, kind)."
)
TRUSTED = [
    "modelled, not verified: torch nn.Linear / nn.LayerNorm / nn.Embedding / nn.MultiheadAttention / softmax / tanh "
    "semantics (the numerical tie checks them on every run to 1e-9 in float64), and that torch evaluates the rows of a "
    "batch independently",
    "IEEE rounding and kernel selection (fast-path attention) are outside the proof; the direct property test bounds "
    "their effect by the stated tolerances",
]
ASSUMPTIONS = [
    "CPU execution; GraphedWrapper (CUDA graphs) is not exercised",
    "dropout is 0 (nn.MultiheadAttention default), so train and eval mode compute the same function",
]

TIE_TOL = 1e-9

# An exception out of the implementation (or a value of a surprising type/shape) is an OBSERVATION, not a failure of
# the machinery: it becomes a divergence / a violation with key `impl-exception`.  Only a tree that cannot be
# imported at all is left to propagate (exit 2).
FATAL = (ImportError, SyntaxError, KeyboardInterrupt, SystemExit, MemoryError)


def crash_text(e):
    return "crash %s: %s" % (type(e).__name__, str(e)[:160])

TOL = {"float32": 1e-5, "float64": 1e-12, "float16": 3e-2}
N_SUB = 6  # rows of move_proj sent to the driver in the ordinary pv cases


# ----------------------------------------------------------------------------------------------
# generation


def _shape(rng, dmax=16):
    while True:
        nh = rng.choice([1, 1, 2, 2, 3, 4])
        dh = rng.choice([1, 2, 3, 4, 5, 6, 8, 16])
        if 4 <= nh * dh <= dmax:
            return nh, dh


def rand_cfg(rng, head=None, n_vocab=None, dtype="float64", dmax=16, min_ctx=4, causal=None):
    pos = rng.choice(["sin", "learned", "none"])
    nh, dh = _shape(rng, dmax)
    while pos == "sin" and (nh * dh) % 2:
        nh, dh = _shape(rng, dmax)
    return xf.Cfg(
        n_vocab=n_vocab or rng.randint(2, 12),
        n_ctx=min_ctx + rng.randint(0, 6),
        n_head=nh,
        d_head=dh,
        n_layer=rng.choice([1, 1, 2, 2, 3]),
        causal=(rng.random() < 0.5) if causal is None else causal,
        pos=pos,
        head=head or rng.choice(["text", "pv"]),
        seed=rng.randrange(2**31),
        dtype=dtype,
        train=rng.random() < 0.3,
    )


def rand_batch(rng, cfg, max_rows=5):
    """rows of mixed lengths padded to a common width >= the longest, pad content random"""
    B = rng.randint(1, max_rows)
    W = rng.randint(1, cfg.n_ctx)
    lens = [rng.randint(1, W) for _ in range(B)]
    if rng.random() < 0.3:
        lens[rng.randrange(B)] = W
    rows = [[rng.randrange(cfg.n_vocab) for _ in range(W)] for _ in range(B)]
    return rows, lens


def masks_of(rows, lens):
    return [[j >= l for j in range(len(r))] for r, l in zip(rows, lens)]


def run_model(m, rows, masks):
    x = torch.tensor(rows, dtype=torch.long)
    with torch.no_grad():
        if masks is None:
            return m(x)
        return m(x, torch.tensor(masks, dtype=torch.bool))


def out_vec(out, cfg, i, n, ids=None):
    """what the property speaks of for row i with n real tokens, as a flat list of Python floats"""
    if cfg.head == "pv":
        mv = out["moves"][i]
        if ids is not None:
            mv = mv[torch.tensor(ids, dtype=torch.long)]
        return [float(out["values"][i])] + mv.to(torch.float64).tolist()
    return out[i, :n].to(torch.float64).reshape(-1).tolist()


def max_move_id():
    from tak.model import encoding

    return encoding.MAX_MOVE_ID


# ----------------------------------------------------------------------------------------------
# tie, part A: harness-built batches


def _tie_generic(ctx, divs):
    rng = ctx.rng
    n = 1200 if ctx.thorough else 150
    lines, meta = [], []
    for _ in range(n):
        cfg = rand_cfg(rng)
        rows, lens = rand_batch(rng, cfg)
        masks = masks_of(rows, lens)
        if all(l == len(r) for r, l in zip(rows, lens)) and rng.random() < 0.5:
            masks = None
        ids = sorted(rng.sample(range(max_move_id()), N_SUB)) if cfg.head == "pv" else None
        try:
            m = xf.build(cfg)
            n_out, w = xf.export(m, cfg, ids) if ids is not None else xf.export(m, cfg)
            out = run_model(m, rows, masks)
            impl = [out_vec(out, cfg, i, lens[i], ids) for i in range(len(rows))]
        except FATAL:
            raise
        except Exception as e:
            divs.append(Divergence("corr.xformer", {"kind": "tie", "cfg": cfg.to_json(), "rows": rows, "lens": lens, "mask": masks is not None, "index": 0}, crash_text(e), "the model accepts this batch"))
            ctx.count("model-mismatch")
            continue
        lines.append(xf.case_line(cfg.head, cfg, n_out, w, rows, masks))
        meta.append((cfg, rows, lens, masks, ids, impl))
        ctx.count("tie:pos=%s" % cfg.pos)
        ctx.count("tie:%s" % ("causal" if cfg.causal else "full"))
        ctx.count("tie:layers=%d" % cfg.n_layer)
        ctx.count("tie:heads=%d" % cfg.n_head)
        ctx.count("tie:head=%s" % cfg.head)
        ctx.count("tie:mask=%s" % ("none" if masks is None else "padding"))
    answers = driver.run_lines(lines)
    worst = 0.0
    for (cfg, rows, lens, masks, ids, impl), ans in zip(meta, answers):
        res = xf.parse_rows_answer(ans, cfg.head)
        for i in range(len(rows)):
            ctx.evaluated()
            if masks is not None and lens[i] < len(rows[i]) or len(rows) > 1:
                ctx.nontrivial(json.dumps([cfg.to_json(), rows[i], lens[i], i]))
            inp = {"kind": "tie", "cfg": cfg.to_json(), "rows": rows, "lens": lens, "mask": masks is not None, "index": i}
            if res is None or res[i] is None:
                divs.append(Divergence("corr.xformer", inp, "ok", ans[:80]))
                ctx.count("model-mismatch")
                continue
            if cfg.head == "pv":
                b = [res[i][0]] + res[i][1]
            else:
                b = [v for r in res[i][: lens[i]] for v in r]
            a = impl[i]
            d = max((abs(p - q) for p, q in zip(a, b)), default=0.0) if len(a) == len(b) else float("inf")
            if not d <= TIE_TOL:  # also catches NaN
                divs.append(Divergence("corr.xformer", inp, "impl " + _brief(a), "model %s maxdiff=%r" % (_brief(b), d)))
                ctx.count("model-mismatch")
            else:
                worst = max(worst, d)
    ctx.extra["tie_worst_abs_diff_generic"] = worst
    if meta:
        cfg, rows, lens, masks, ids, impl = meta[0]
        ctx.sample({"tie": cfg.short(), "rows": rows, "lens": lens, "impl_row0": impl[0][:4]})


def _tie_rejects(ctx, divs):
    """`Model.accepts` against the implementation: inputs torch refuses (token out of range, row longer than
    n_ctx with a positional table or a causal mask, mask of the wrong width) and the one over-long case it accepts"""
    rng = ctx.rng
    lines, meta = [], []
    for _ in range(60 if ctx.thorough else 16):
        cfg = rand_cfg(rng, head="text")
        try:
            m = xf.build(cfg)
            n_out, w = xf.export(m, cfg)
        except FATAL:
            raise
        except Exception as e:
            divs.append(Divergence("corr.xformer", {"kind": "tie", "cfg": cfg.to_json(), "rows": [[0]], "lens": [1], "mask": False, "index": 0}, crash_text(e), "a model of this shape can be built"))
            ctx.count("model-mismatch")
            continue
        what = rng.choice(["token", "long", "maskwidth"])
        n = rng.randint(1, cfg.n_ctx)
        row = [rng.randrange(cfg.n_vocab) for _ in range(n)]
        masks = None
        if what == "token":
            row[rng.randrange(n)] = cfg.n_vocab + rng.randint(0, 2)
        elif what == "long":
            row = [rng.randrange(cfg.n_vocab) for _ in range(cfg.n_ctx + rng.randint(1, 3))]
        else:
            masks = [[False] * (n + rng.choice([-1, 1, 2]))]
            if not masks[0]:
                masks = [[False, False]] if n != 2 else [[False]]
        try:
            out = run_model(m, [row], masks)
            impl = out_vec(out, cfg, 0, len(row))
        except (IndexError, RuntimeError, AssertionError, ValueError):
            impl = None
        lines.append(xf.case_line("text", cfg, n_out, w, [row], masks))
        meta.append((cfg, row, masks, what, impl))
    for (cfg, row, masks, what, impl), ans in zip(meta, driver.run_lines(lines)):
        ctx.evaluated()
        res = xf.parse_rows_answer(ans, "text")
        model = None if res is None or res[0] is None else [v for r in res[0] for v in r]
        ctx.count("tie:reject:%s:%s" % (what, "refused" if impl is None else "accepted"))
        same = (impl is None) == (model is None)
        if same and impl is not None:
            same = len(impl) == len(model) and all(abs(p - q) <= TIE_TOL for p, q in zip(impl, model))
        if not same:
            inp = {"kind": "tie-reject", "cfg": cfg.to_json(), "rows": [row], "lens": [len(row)], "mask": masks}
            divs.append(Divergence("corr.xformer", inp, "refused" if impl is None else "accepted " + _brief(impl), "reject" if model is None else "accepted " + _brief(model)))
            ctx.count("model-mismatch")


def _brief(v):
    return "[" + ",".join("%.6g" % x for x in v[:4]) + ("…" if len(v) > 4 else "") + "]"


# ----------------------------------------------------------------------------------------------
# tie, part B: the real call sites


class Recorder(torch.nn.Module):
    """the harness's own nn.Module around the real model: records what each call site passes"""

    def __init__(self, inner):
        super().__init__()
        self.inner = inner
        self.calls = []

    def forward(self, x, padding_mask=None):
        out = self.inner(x) if padding_mask is None else self.inner(x, padding_mask)
        self.calls.append(
            (
                x.detach().clone(),
                None if padding_mask is None else padding_mask.detach().clone(),
                {k: v.detach().clone() for k, v in out.items()},
            )
        )
        return out


def _replay_buffer_module():
    """tak.alphazero.data; the package __init__ pulls in tak_ext (not needed here), so when that is
    unavailable the same source file is loaded on its own"""
    try:
        from tak.alphazero import data

        return data
    except Exception:
        import importlib.util
        import os
        import sys

        from ..lib import env

        for k in [k for k in sys.modules if k.startswith("tak.alphazero")]:
            del sys.modules[k]
        path = os.path.join(env.REPO_PY, "tak", "alphazero", "data.py")
        spec = importlib.util.spec_from_file_location("takverif_alphazero_data", path)
        mod = importlib.util.module_from_spec(spec)
        spec.loader.exec_module(mod)
        return mod


def variant(rng, p):
    """a position that differs from p in ONE component of the state that the board does not show (or in none):
    stones left in reserve, capstones left, side to move, move number; all within the token vocabulary"""
    t = ser.pos_str(p).split(" ")
    k = rng.choice(["reserves", "reserves", "caps", "side", "move-number", "same"])
    if k == "reserves":
        for i in rng.sample([1, 3], rng.randint(1, 2)):
            t[i] = str(rng.choice([v for v in range(0, 50) if v != int(t[i])]))
    elif k == "caps":
        i = rng.choice([2, 4])
        t[i] = "0" if int(t[i]) else "1"
    elif k == "side":
        t[5] = str(int(t[5]) + 1 if int(t[5]) == 0 or rng.random() < 0.5 else int(t[5]) - 1)
    elif k == "move-number":
        t[5] = str(int(t[5]) + 2)
    return ser.parse_pos(t)


def positions(rng, n):
    """real positions whose encoding exists, sizes 3..5: reachable ones (standard reserves) and, next to about
    half of them, near-duplicates (`variant`) — same board, other reserves / side to move / move number"""
    from tak.model import encoding

    def enc(p):
        try:
            e = encoding.encode(p)
        except FATAL:
            raise
        except Exception:
            return None
        return e if all(isinstance(t, int) and 0 <= t < 256 for t in e) else None

    base = []
    tries = 0
    while len(base) < n and tries < 20:
        tries += 1
        for _, p in gen.sample_positions(rng, [3, 4, 5], 1, per_game=4, constructed_per_size=0, custom_prob=0.0):
            e = enc(p)
            if e is not None:
                base.append((p, e))
    rng.shuffle(base)
    out = []
    for p, e in base:
        if len(out) >= n:
            break
        out.append((p, e))
        while len(out) < n and rng.random() < 0.5:
            try:
                q = variant(rng, p)
            except FATAL:
                raise
            except Exception:
                break
            eq = enc(q)
            if eq is not None:
                out.append((q, eq))
    rng.shuffle(out)
    return out[:n]


def schedule(rng, n, n_rounds=None):
    """a session for a stateful call site holding n distinct positions: several rounds of requests, each a list
    of indices.  Rounds vary in size and order (growing and shrinking widths, a row position holding a longer
    position after a shorter one and vice versa, repeats, singletons, the whole pool)."""
    rounds = []
    for _ in range(n_rounds or rng.randint(3, 6)):
        k = rng.choice(["subset", "subset", "reverse", "repeat", "single", "all", "multiset"])
        if k == "reverse" and rounds:
            rounds.append(list(reversed(rounds[-1])))
        elif k == "repeat" and rounds:
            rounds.append(list(rounds[-1]))
        elif k == "single":
            rounds.append([rng.randrange(n)])
        elif k == "all":
            r = list(range(n))
            rng.shuffle(r)
            rounds.append(r)
        elif k == "multiset":
            rounds.append([rng.randrange(n) for _ in range(rng.randint(1, n + 1))])
        else:
            rounds.append(rng.sample(range(n), rng.randint(1, n)))
    return rounds


def serve_rounds(model, rounds, device="cpu"):
    """ONE real Server instance, its worker loop running throughout; each round submits its requests at once and
    waits for all answers before the next round starts.  Returns per round [(probs float32 list, value)]."""
    from tak.model import server as srv
    from tak.proto import analysis_pb2

    s = srv.Server(model=model, device=device)

    async def main():
        task = asyncio.ensure_future(s.worker_loop())
        out = []
        try:
            for reqs in rounds:
                g = asyncio.ensure_future(asyncio.gather(*[s.Evaluate(analysis_pb2.EvaluateRequest(position=list(r)), None) for r in reqs]))
                done, _ = await asyncio.wait({g, task}, timeout=120, return_when=asyncio.FIRST_COMPLETED)
                if g not in done:
                    g.cancel()
                    if task in done:
                        # the worker loop is gone (it raised): nobody will ever answer these requests
                        exc = task.exception() if not task.cancelled() else None
                        raise RuntimeError("the server's worker loop ended (%s) with %d requests unanswered" % (type(exc).__name__ if exc else "cancelled", len(reqs)))
                    raise asyncio.TimeoutError("%d requests unanswered after 120 s" % len(reqs))
                out.append(g.result())
        finally:
            task.cancel()
            try:
                await task
            except BaseException:
                pass
        return out

    loop = asyncio.new_event_loop()
    try:
        out = loop.run_until_complete(main())
    finally:
        loop.close()
    import numpy as np

    return [[(np.frombuffer(r.move_probs_bytes, dtype=np.float32).astype("float64").tolist(), float(r.value)) for r in rs] for rs in out]


def serve(model, requests, device="cpu"):
    return serve_rounds(model, [requests], device)[0]


def call_site_runs(rng, cfg, m, pe):
    """drive the call sites through SESSIONS on the positions `pe` = [(pos, encoded)]: one ModelWrapper, one
    ReplayBufferDataset and one Server each live through several rounds of varying lengths per row position.
    Returns (runs, evals, rounds, problems): runs = [(site, x rows, mask rows|None, lens, out dict)] as observed at
    the model's entry; evals = [(position index, ModelWrapper.evaluate result)]; problems = [(site, text)] for
    every exception raised by a call site (an observation about the implementation, not an internal error)."""
    from tak.model import batches, encoding, wrapper

    rec = Recorder(m)
    runs, evals, problems = [], [], []
    poss = [p for p, _ in pe]
    encs = [e for _, e in pe]
    rounds = schedule(rng, len(pe))

    def site_wrapper():
        # ModelWrapper.evaluate: ONE wrapper object, one unpadded row per call, no mask.  A call that does not
        # reach the model at all (an answer remembered from before) leaves nothing to record here; its returned
        # numbers are still compared (with the model through the driver, and in the `evaluate` sessions).
        mw = wrapper.ModelWrapper(rec)
        for i in [i for r in rounds for i in r][:8]:
            rec.calls.clear()
            evals.append((i, mw.evaluate(poss[i])))
            for x, mk, out in rec.calls:
                runs.append(("wrapper", x.tolist(), None if mk is None else mk.tolist(), [len(encs[i])] * x.shape[0], out))

    def site_pvp():
        # encode_batch + PositionValuePolicy, one batch object per round, extra_inputs read afresh each time
        for r in rounds[:3]:
            enc, mask = encoding.encode_batch([poss[i] for i in r])
            b = batches.PositionValuePolicy({"positions": enc.long(), "mask": mask})
            for _ in range(2):
                rec.calls.clear()
                with torch.no_grad():
                    rec(b.inputs, *b.extra_inputs)
                x, mk, out = rec.calls[-1]
                runs.append(("pvp", x.tolist(), None if mk is None else mk.tolist(), [len(encs[i]) for i in r], out))

    def site_replay():
        # ReplayBufferDataset (cat_replay_buffer widening) + ReplayBufferBatch: one dataset, two epochs
        data = _replay_buffer_module()
        k = max(1, len(poss) // 2)
        bufs = []
        for lo, hi in ((0, k), (k, len(poss))):
            if hi > lo:
                e2, m2 = encoding.encode_batch(poss[lo:hi])
                bufs.append({"positions": e2, "mask": m2, "values": torch.arange(lo, hi, dtype=torch.float32)})
        ds = data.ReplayBufferDataset(bufs, batch_size=rng.randint(1, max(1, len(poss) - 1)), device="cpu")
        for _epoch in range(2):
            for batch in ds:
                rec.calls.clear()
                with torch.no_grad():
                    rec(batch.inputs, *batch.extra_inputs)
                x, mk, out = rec.calls[-1]
                order = [int(v) for v in batch.values.tolist()]
                runs.append(("replay", x.tolist(), None if mk is None else mk.tolist(), [len(encs[j]) for j in order], out))

    def site_server():
        # Server.run_model: one server, all rounds; rows are matched to requests in submission order
        rec.calls.clear()
        serve_rounds(rec, [[encs[i] for i in r] for r in rounds])
        todo = [encs[i] for r in rounds for i in r]
        for x, mk, out in list(rec.calls):
            xs = x.tolist()
            lens = []
            for r in xs:
                e = todo.pop(0) if todo else None
                lens.append(len(e) if e is not None and r[: len(e)] == list(e) else None)
            runs.append(("server", xs, None if mk is None else mk.tolist(), lens, out))

    for name, f in (("wrapper", site_wrapper), ("pvp", site_pvp), ("replay", site_replay), ("server", site_server)):
        try:
            f()
        except FATAL:
            raise
        except Exception as e:
            problems.append((name, crash_text(e)))
    return runs, evals, rounds, problems


def _tie_call_sites(ctx, divs):
    rng = ctx.rng
    n_models = 12 if ctx.thorough else 3
    worst = 0.0
    for it in range(n_models):
        pe = positions(rng, rng.randint(3, 6))
        if not pe:
            continue
        full = it == 0  # one model per run carries the full PolicyValue head through the driver
        cfg = rand_cfg(rng, head="pv", n_vocab=256, min_ctx=max(len(e) for _, e in pe), dmax=4 if full else 12)
        if full:
            cfg.n_layer = 1
        try:
            m = xf.build(cfg)
        except FATAL:
            raise
        except Exception as e:
            ctx.count("model-mismatch")
            divs.append(Divergence("corr.xformer", {"kind": "tie", "cfg": cfg.to_json(), "rows": [[0]], "lens": [1], "mask": False, "index": 0}, crash_text(e), "a model of this shape can be built"))
            continue
        runs, evals, rounds, problems = call_site_runs(rng, cfg, m, pe)
        rounds_str = [[ser.pos_str(pe[i][0]) for i in r] for r in rounds]
        for site, text in problems:
            ctx.evaluated()
            ctx.count("model-mismatch")
            divs.append(Divergence("corr.xformer", {"kind": "call-site-mask", "site": site, "len": None, "rounds": rounds_str}, text, "the call site answers"))
        ids = None if full else sorted(rng.sample(range(max_move_id()), N_SUB))
        n_out, w = xf.export(m, cfg, ids)
        lines, meta = [], []
        for site, rows, masks, lens, out in runs:
            ctx.count("site:" + site)
            # (1) the mask the call site built, against the model of the call site
            if site == "server" and None in lens:
                ctx.evaluated()
                divs.append(Divergence("corr.xformer", {"kind": "call-site-mask", "site": site, "len": None, "rounds": rounds_str}, "rows %r" % (rows,), "each row starts with the tokens of its request"))
                ctx.count("model-mismatch")
            if site in ("pvp", "replay", "server") and None not in lens:
                # the replay buffer is widened to the global width: ask for all rows of the buffer at once
                all_lens = [len(e) for _, e in pe] if site == "replay" else lens
                ans = driver.run_lines(["xformer masks %s %s" % ("server" if site == "server" else "enc", ",".join(map(str, all_lens)))])[0]
                exp = {}
                if ans.startswith("ok "):
                    widths, ms = ans[3:].split(";")
                    for l, wd, mr in zip(all_lens, widths.split(","), ms.split("/")):
                        exp[l] = (int(wd), [c == "1" for c in mr] if mr != "-" else [])
                for r, mk, l in zip(rows, masks if masks is not None else [None] * len(rows), lens):
                    ctx.evaluated()
                    got = (len(r), mk)
                    if exp.get(l) != got:
                        divs.append(
                            Divergence(
                                "corr.xformer",
                                {"kind": "call-site-mask", "site": site, "len": l, "rounds": rounds_str},
                                "width %d mask %s" % (len(r), xf.masks_str([mk]) if mk is not None else "none"),
                                "expected %r" % (exp.get(l),),
                            )
                        )
                        ctx.count("model-mismatch")
            elif site == "wrapper":
                ctx.evaluated()
                if masks is not None or len(rows) != 1 or len(rows[0]) != lens[0]:  # noqa
                    divs.append(Divergence("corr.xformer", {"kind": "call-site-mask", "site": site}, "mask/width %r" % (masks,), "one unpadded row, no mask"))
                    ctx.count("model-mismatch")
            # (2) the numbers
            lines.append(xf.case_line("pv", cfg, n_out, w, rows, masks))
            meta.append((site, rows, masks, lens, out))
        answers = driver.run_lines(lines)
        for (site, rows, masks, lens, out), ans in zip(meta, answers):
            res = xf.parse_rows_answer(ans, "pv")
            for i in range(len(rows)):
                ctx.evaluated()
                ctx.nontrivial(json.dumps([cfg.to_json(), site, rows[i], i]))
                inp = {"kind": "tie-site", "site": site, "cfg": cfg.to_json(), "rows": rows, "mask": masks, "index": i, "rounds": rounds_str}
                try:
                    a = out_vec(out, cfg, i, None, ids)
                except FATAL:
                    raise
                except Exception as e:
                    divs.append(Divergence("corr.xformer", inp, "model output unusable: " + crash_text(e), "values and moves for every row"))
                    ctx.count("model-mismatch")
                    continue
                if res is None or res[i] is None:
                    divs.append(Divergence("corr.xformer", inp, "ok", ans[:80]))
                    ctx.count("model-mismatch")
                    continue
                b = [res[i][0]] + res[i][1]
                d = max((abs(p - q) for p, q in zip(a, b)), default=0.0) if len(a) == len(b) else float("inf")
                if not d <= TIE_TOL:
                    divs.append(Divergence("corr.xformer", inp, "impl " + _brief(a), "model %s maxdiff=%r" % (_brief(b), d)))
                    ctx.count("model-mismatch")
                else:
                    worst = max(worst, d)
        # (3) the full evaluator: what the long-lived ModelWrapper RETURNED on every call (probabilities over all
        #     move ids, value) against the model's `evaluate` on the same position
        if full and evals:
            ans = driver.run_lines([xf.case_line("evaluate", cfg, n_out, w, [pe[i][1] for i, _ in evals], None)])[0]
            res = xf.parse_rows_answer(ans, "pv")
            for k, (i, ev) in enumerate(evals):
                ctx.evaluated()
                ctx.count("site:evaluate-full")
                inp = {"kind": "tie-evaluate", "cfg": cfg.to_json(), "pos": ser.pos_str(pe[i][0]), "rounds": rounds_str}
                try:
                    probs, value = ev
                    a = [float(value)] + [float(x) for x in probs.to(torch.float64).tolist()]
                except FATAL:
                    raise
                except Exception as e:
                    divs.append(Divergence("corr.xformer", inp, "evaluate returned %r (%s)" % (type(ev).__name__, crash_text(e)), "(probabilities, value)"))
                    ctx.count("model-mismatch")
                    continue
                if res is None or res[k] is None:
                    divs.append(Divergence("corr.xformer", inp, "ok", ans[:80]))
                    ctx.count("model-mismatch")
                    continue
                b = [res[k][0]] + res[k][1]
                d = max((abs(x - y) for x, y in zip(a, b)), default=0.0) if len(a) == len(b) else float("inf")
                if not d <= TIE_TOL:
                    divs.append(Divergence("corr.xformer", inp, "impl " + _brief(a), "model %s maxdiff=%r" % (_brief(b), d)))
                    ctx.count("model-mismatch")
                else:
                    worst = max(worst, d)
    ctx.extra["tie_worst_abs_diff_call_sites"] = worst


# ----------------------------------------------------------------------------------------------
# the property, directly on the implementation.  A `spec` (JSON) fully determines a test:
#   {"kind", "cfg", "rows", "lens", "index", …};  run_spec -> [(key, label, vecA, vecB)]


def _alone(m, cfg, toks):
    return out_vec(run_model(m, [toks], None), cfg, 0, len(toks))


def run_spec(spec):
    """-> list of (key, label, a, b): a and b must be close for the property to hold"""
    cfg = xf.Cfg.from_json(spec["cfg"])
    kind = spec["kind"]
    if kind in ("evaluate", "server", "dataset"):
        return run_spec_positions(spec, cfg)
    m = xf.build(cfg)
    if spec.get("outlier"):
        _plant_outlier(m, cfg, spec["outlier"])
    pairs = []
    if spec.get("via") == "loaded":
        # the model as a deployment gets it: written with save_model, read back with load_model
        # (everything the architecture needs - masks, tables - must survive the round trip)
        import shutil
        import tempfile

        from xformer import loading

        d = tempfile.mkdtemp(prefix="c16-load-")
        try:
            loading.save_model(m, d)
            keep = m
            m = loading.load_model(d)
            m.train(keep.training)
            probe = (spec.get("toks") or spec["rows"][0])[: cfg.n_ctx]
            pairs.append(("loaded-model-differs", "saved model vs the model load_model returns, on %r" % (probe[:6],), _alone(keep, cfg, probe), _alone(m, cfg, probe)))
        finally:
            shutil.rmtree(d, ignore_errors=True)
    if kind == "padded":
        # rows (mixed lengths, arbitrary pad content) + padding masks: every row vs itself alone
        rows, lens = spec["rows"], spec["lens"]
        out = run_model(m, rows, masks_of(rows, lens))
        for i in spec.get("indices", range(len(rows))):
            a = _alone(m, cfg, rows[i][: lens[i]])
            b = out_vec(out, cfg, i, lens[i])
            key = "padding-dependent" if any(l < len(r) for r, l in zip(rows, lens)) else "batch-dependent"
            pairs.append((key, "row %d alone vs in the padded batch" % i, a, b))
    elif kind == "unpadded":
        # equal-length rows, no padding: mask absent or all-False
        rows = spec["rows"]
        n = len(rows[0])
        out = run_model(m, rows, masks_of(rows, [n] * len(rows)) if spec.get("mask") else None)
        for i in spec.get("indices", range(len(rows))):
            pairs.append(("batch-dependent", "row %d alone vs in the batch" % i, _alone(m, cfg, rows[i]), out_vec(out, cfg, i, n)))
    elif kind == "content":
        # same real tokens, same masks, different pad content
        rows, rows2, lens = spec["rows"], spec["rows2"], spec["lens"]
        mk = masks_of(rows, lens)
        o1, o2 = run_model(m, rows, mk), run_model(m, rows2, mk)
        for i in range(len(rows)):
            pairs.append(("padding-dependent", "row %d under two pad contents" % i, out_vec(o1, cfg, i, lens[i]), out_vec(o2, cfg, i, lens[i])))
    elif kind == "causal":
        toks, s1, s2 = spec["toks"], spec["suffix1"], spec["suffix2"]
        n = len(toks)
        a = _alone(m, cfg, toks)
        for s in (s1, s2):
            if s:
                b = out_vec(run_model(m, [toks + s], None), cfg, 0, n)
                pairs.append(("causal-leak", "prefix of length %d alone vs followed by %r" % (n, s), a, b))
    else:
        raise ValueError(kind)
    return pairs


def _plant_outlier(m, cfg, o):
    """one token's embedding carries a large-magnitude feature (the "massive activation" outliers of trained
    transformers): representable in the model's dtype, and none of the other tokens' business"""
    emb = next(mod for mod in m.modules() if isinstance(mod, torch.nn.Embedding) and mod.num_embeddings == cfg.n_vocab)
    with torch.no_grad():
        emb.weight[o["token"]] = 0
        emb.weight[o["token"], o["dim"] % emb.weight.shape[1]] = float(o["value"])


def gen_half_specs(ctx, n):
    """half-precision models (what `analysis_server --fp16` and a non-CPU `serve_dtype` serve in) with one
    outlier token: rows that do not contain it are compared alone vs next to a row that does"""
    rng = ctx.rng
    for it in range(n):
        causal = it % 2 == 1
        cfg = rand_cfg(rng, head="text" if causal else rng.choice(["pv", "text"]), n_vocab=12, dtype="float16", min_ctx=8, causal=causal)
        cfg.train = False
        out = {"token": 11, "dim": rng.randrange(64), "value": rng.choice([20000.0, 30000.0, -20000.0])}
        V = 11  # ordinary tokens: 0..10
        if not causal:
            W = rng.randint(4, cfg.n_ctx)
            rows, lens = [], []
            for r in range(rng.randint(2, 4)):
                ln = rng.randint(1, W)
                rows.append([rng.randrange(V) for _ in range(W)])
                lens.append(ln)
            loud = rng.randrange(len(rows))
            rows[loud][rng.randrange(lens[loud])] = 11
            yield {"kind": "padded", "cfg": cfg.to_json(), "rows": rows, "lens": lens, "outlier": out,
                   "indices": [i for i in range(len(rows)) if i != loud]}
        else:
            n_tok = rng.randint(1, cfg.n_ctx - 2)
            toks = [rng.randrange(V) for _ in range(n_tok)]
            room = cfg.n_ctx - n_tok
            s1 = [11] + [rng.randrange(V) for _ in range(rng.randint(0, room - 1))]
            s2 = [rng.randrange(V) for _ in range(rng.randint(1, room))]
            yield {"kind": "causal", "cfg": cfg.to_json(), "toks": toks, "suffix1": s1, "suffix2": s2, "outlier": out}


def _rounds_of(spec):
    """sessions are lists of rounds of positions; an older replay with a flat `positions` list is one round"""
    return spec["rounds"] if "rounds" in spec else [spec["positions"]]


def run_spec_positions(spec, cfg):
    """stateful call sites, driven through a session; every answer is compared with the same position evaluated
    ALONE on a fresh object (a new ModelWrapper around the same model / the bare model on the unpadded row)"""
    from tak.model import encoding, wrapper

    m = xf.build(cfg)
    kind = spec["kind"]
    rounds = _rounds_of(spec)
    cache = {}

    def pos_of(s):
        if s not in cache:
            p = ser.parse_pos(s.split(" "))
            cache[s] = (p, encoding.encode(p))
        return cache[s]

    alone_eval = {}

    def alone(s):
        if s not in alone_eval:
            pr, v = wrapper.ModelWrapper(m).evaluate(pos_of(s)[0])
            alone_eval[s] = [float(v)] + pr.to(torch.float64).tolist()
        return alone_eval[s]

    all_lens = {len(pos_of(s)[1]) for r in rounds for s in r}
    dep = "batch-dependent" if len(all_lens) == 1 else "padding-dependent"
    pairs = []
    if kind == "evaluate":
        # ONE wrapper lives through the whole sequence; every answer is compared with a FRESH wrapper's and with
        # the same position evaluated inside a padded batch (next to the longest position of the session)
        from tak.model import batches

        longest = max((s_ for r in rounds for s_ in r), key=lambda s_: len(pos_of(s_)[1]))
        in_batch = {}

        def batched(s_):
            if s_ not in in_batch:
                enc, mask = encoding.encode_batch([pos_of(s_)[0], pos_of(longest)[0]])
                b = batches.PositionValuePolicy({"positions": enc.long(), "mask": mask})
                with torch.no_grad():
                    out = m(b.inputs, *b.extra_inputs)
                in_batch[s_] = [float(out["values"][0])] + torch.softmax(out["moves"][0], dim=0).to(torch.float64).tolist()
            return in_batch[s_]

        w = wrapper.ModelWrapper(m)
        k = 0
        for r in rounds:
            for s_ in r:
                pr, v = w.evaluate(pos_of(s_)[0])
                probs = [float(x) for x in pr.to(torch.float64).tolist()]
                got = [float(v)] + probs
                pairs.append(("evaluate-range", "range of ModelWrapper.evaluate on call %d" % k, [float(v)], probs))
                pairs.append(("evaluate-stale-state", "call %d of one ModelWrapper vs the same position on a fresh one" % k, alone(s_), got))
                pairs.append(("padding-dependent", "call %d of one ModelWrapper vs the same position in a padded batch" % k, batched(s_), got))
                k += 1
        # the wrapper lives on: up to `repeat` calls in all, cycling through the positions of the session.  Compared
        # as tensors with the first answer the same wrapper gave for that position; only a call that differs is
        # spelled out as a pair.
        flat = [s_ for r in rounds for s_ in r]
        first = {}
        while flat and k < int(spec.get("repeat", 0)):
            s_ = flat[k % len(flat)]
            pr, v = w.evaluate(pos_of(s_)[0])
            if s_ not in first:
                first[s_] = (pr.detach().clone(), float(v))
            elif not (torch.equal(pr, first[s_][0]) and float(v) == first[s_][1]):
                got = [float(v)] + [float(x) for x in pr.to(torch.float64).tolist()]
                pairs.append(("evaluate-stale-state", "call %d of one ModelWrapper vs the same position on a fresh one" % k, alone(s_), got))
            k += 1
        return pairs
    if kind == "server":
        served = serve_rounds(m, [[pos_of(s_)[1] for s_ in r] for r in rounds])
        for ri, (r, outs) in enumerate(zip(rounds, served)):
            for i, (s_, (sp, sv)) in enumerate(zip(r, outs)):
                pairs.append((dep, "round %d position %d (of %d): ModelWrapper.evaluate alone vs served by one Server" % (ri, i, len(r)), alone(s_), [sv] + sp))
        return pairs
    # dataset: training batches.  One ReplayBufferDataset iterated for several epochs, and one PositionValuePolicy
    # batch per round used twice; logits/value of every row vs the bare model on the unpadded row.
    from tak.model import batches

    data = _replay_buffer_module()
    flat = [s_ for r in rounds for s_ in r]
    raw = {}

    def alone_raw(s_):
        if s_ not in raw:
            raw[s_] = _alone(m, cfg, list(pos_of(s_)[1]))
        return raw[s_]

    bufs, base = [], 0
    for r in rounds:
        e2, m2 = encoding.encode_batch([pos_of(s_)[0] for s_ in r])
        bufs.append({"positions": e2, "mask": m2, "values": torch.arange(base, base + len(r), dtype=torch.float32)})
        base += len(r)
    torch.manual_seed(int(cfg.seed) % (2**31))
    ds = data.ReplayBufferDataset(bufs, batch_size=int(spec.get("batch_size", 2)), device="cpu")
    for ep in range(int(spec.get("epochs", 2))):
        for bi, batch in enumerate(ds):
            with torch.no_grad():
                out = m(batch.inputs, *batch.extra_inputs)
            for j, v in enumerate(batch.values.tolist()):
                pairs.append((dep, "epoch %d batch %d row %d of one ReplayBufferDataset vs alone" % (ep, bi, j), alone_raw(flat[int(v)]), out_vec(out, cfg, j, None)))
    for ri, r in enumerate(rounds):
        enc, mask = encoding.encode_batch([pos_of(s_)[0] for s_ in r])
        b = batches.PositionValuePolicy({"positions": enc.long(), "mask": mask})
        for use in range(2):
            with torch.no_grad():
                out = m(b.inputs, *b.extra_inputs)
            for j, s_ in enumerate(r):
                pairs.append((dep, "PositionValuePolicy batch %d use %d row %d vs alone" % (ri, use, j), alone_raw(s_), out_vec(out, cfg, j, None)))
    return pairs


def judge(spec, pairs, tol=None):
    """the predicate, evaluated by the driver on the implementation's numbers.
    -> list of (key, what, detail) for the pairs on which the property fails"""
    cfg = spec["cfg"]
    tol = tol or TOL[cfg.get("dtype", "float64")]
    if spec["kind"] == "server" and tol < 2e-6:
        tol = 2e-6  # the server answers in float32 whatever the model's dtype
    lines = []
    for key, label, a, b in pairs:
        if key == "evaluate-range":
            lines.append("xformer range %d %s %s" % (max_move_id(), xf.bits(a[0]), xf.bits_list(b)))
        elif len(a) != len(b):
            lines.append("xformer close %s %s %s" % (xf.bits(tol), xf.bits_list([0.0]), xf.bits_list([float("nan")])))
        else:
            lines.append(xf.close_line(tol, a, b))
    bad = []
    for (key, label, a, b), ans in zip(pairs, driver.run_lines(lines)):
        if key == "evaluate-range":
            if ans != "ok true":
                bad.append((key, label, "value=%r len=%d min=%r sum=%r" % (a[0], len(b), min(b, default=None), sum(b))))
            continue
        r = xf.parse_close(ans)
        if r is None or not r[0]:
            bad.append((key, label, "maxdiff=%r scale=%r tol=%g; %s vs %s" % (None if r is None else r[1], None if r is None else r[2], tol, _brief(a), _brief(b))))
    return bad


NOISE_FACTOR = 10.0


def fails(spec, pairs=None):
    """A float32 discrepancy between 1x and 10x the tolerance counts only when the float64 twin of the same
    model (same seed: the weights are drawn in float64 and cast) fails too; otherwise it is rounding noise,
    which the property explicitly allows ("up to floating-point noise")."""
    try:
        if pairs is None:
            pairs = run_spec(spec)
        bad = judge(spec, pairs)
        if not bad or spec["cfg"].get("dtype", "float64") != "float32":
            return bad
        loose = {(k, l) for k, l, _ in judge(spec, pairs, TOL["float32"] * NOISE_FACTOR)}
        twin = json.loads(json.dumps(spec))
        twin["cfg"]["dtype"] = "float64"
        bad64 = {(k, l) for k, l, _ in judge(twin, run_spec(twin))}
        return [(k, l, d) for k, l, d in bad if k == "evaluate-range" or (k, l) in loose or (k, l) in bad64]
    except FATAL:
        raise
    except Exception as e:
        # the implementation raised (or returned something that is not numbers): the evaluator did not give the
        # probability vector and value the property promises
        return [("impl-exception", "running the %s case" % spec.get("kind"), crash_text(e))]


def gen_specs(ctx, n, cfg_fixed=None):
    """a stream of specs; with cfg_fixed the same model is probed (used by the search after a tie break)"""
    rng = ctx.rng
    for it in range(n):
        dtype = "float32" if rng.random() < 0.6 else "float64"
        if cfg_fixed is not None:
            cfg = xf.Cfg.from_json(dict(cfg_fixed))
        else:
            cfg = rand_cfg(rng, dtype=dtype, dmax=32 if rng.random() < 0.3 else 16)
        cj = cfg.to_json()
        kind = rng.choice(["padded", "padded", "padded", "unpadded", "content", "causal"])
        if kind == "causal" and not cfg.causal:
            if cfg_fixed is not None:
                kind = "padded"
            else:
                cfg.causal = True
                cj = cfg.to_json()
        V = cfg.n_vocab
        # (load_model builds a float32 model: only float32 configurations keep their weights exactly)
        via = "loaded" if (cfg_fixed is None and dtype == "float32" and rng.random() < 0.4) else None
        if kind == "padded":
            rows, lens = rand_batch(rng, cfg)
            if rng.random() < 0.3:  # a single row, padded
                rows, lens = rows[:1], lens[:1]
            sp = {"kind": kind, "cfg": cj, "rows": rows, "lens": lens}
            if via:
                sp["via"] = via
            yield sp
        elif kind == "unpadded":
            n_tok = rng.randint(1, cfg.n_ctx)
            rows = [[rng.randrange(V) for _ in range(n_tok)] for _ in range(rng.randint(2, 5))]
            yield {"kind": kind, "cfg": cj, "rows": rows, "mask": rng.random() < 0.5}
        elif kind == "content":
            rows, lens = rand_batch(rng, cfg)
            if all(l == len(r) for r, l in zip(rows, lens)) and len(rows[0]) > 1:
                lens[0] = len(rows[0]) - 1
            rows2 = [[t if j < l else rng.randrange(V) for j, t in enumerate(r)] for r, l in zip(rows, lens)]
            yield {"kind": kind, "cfg": cj, "rows": rows, "rows2": rows2, "lens": lens}
        else:
            n_tok = rng.randint(1, max(1, cfg.n_ctx - 1))
            toks = [rng.randrange(V) for _ in range(n_tok)]
            room = cfg.n_ctx - n_tok
            s1 = [rng.randrange(V) for _ in range(rng.randint(1, room))] if room else []
            s2 = [rng.randrange(V) for _ in range(rng.randint(1, room))] if room else []
            sp = {"kind": kind, "cfg": cj, "toks": toks, "suffix1": s1, "suffix2": s2}
            if via:
                sp["via"] = via
            yield sp


def gen_position_specs(ctx, n):
    rng = ctx.rng
    for it in range(n):
        pe = positions(rng, rng.randint(2, 6))
        if not pe:
            continue
        dtype = "float32" if (it == 0 or rng.random() < 0.7) else "float64"
        cfg = rand_cfg(rng, head="pv", n_vocab=256, dtype=dtype, min_ctx=max(len(e) for _, e in pe))
        ps = [ser.pos_str(p) for p, _ in pe]

        def session():
            return [[ps[i] for i in r] for r in schedule(rng, len(ps))]

        ev = {"kind": "evaluate", "cfg": cfg.to_json(), "rounds": session()[:3]}
        if it == 0:
            ev["repeat"] = 1100  # a wrapper that has answered more than a thousand times
        yield ev
        yield {"kind": "server", "cfg": cfg.to_json(), "rounds": session()}
        yield {"kind": "dataset", "cfg": cfg.to_json(), "rounds": session()[:3], "batch_size": rng.randint(1, 4), "epochs": 2}


def _nontrivial(spec):
    k = spec["kind"]
    if k == "padded":
        return len(spec["rows"]) > 1 or any(l < len(r) for r, l in zip(spec["rows"], spec["lens"]))
    if k == "causal":
        return bool(spec["suffix1"] or spec["suffix2"])
    return True


def _direct(ctx, divs, specs):
    worst = {}
    for spec in specs:
        try:
            pairs = run_spec(spec)
        except FATAL:
            raise
        except Exception:
            pairs = None
        bad = fails(spec, pairs)
        pairs = pairs or []
        ctx.evaluated(max(1, len(pairs)))
        ctx.count("direct:" + spec["kind"], len(pairs))
        ctx.count("direct:dtype=" + spec["cfg"].get("dtype", "float64"), len(pairs))
        if _nontrivial(spec):
            ctx.nontrivial(json.dumps(spec, sort_keys=True))
        if spec["kind"] not in ("evaluate",):
            dt = spec["cfg"].get("dtype", "float64") + ("_served_as_float32" if spec["kind"] == "server" else "")
            for key, label, a, b in pairs:
                if len(a) == len(b) and a:
                    d = max(abs(x - y) for x, y in zip(a, b))
                    s = max(1.0, max(abs(x) for x in a))
                    if d == d:
                        worst[dt] = max(worst.get(dt, 0.0), d / s)
        for key, label, detail in bad:
            ctx.count(key)
            divs.append(Divergence("impl." + key, spec, label + ": " + detail, "the two evaluations agree"))
    for dt, wv in worst.items():
        ctx.extra["direct_worst_rel_diff_" + dt] = max(wv, ctx.extra.get("direct_worst_rel_diff_" + dt, 0.0))


def tie(ctx):
    torch.set_num_threads(1)
    divs = []
    _tie_generic(ctx, divs)
    _tie_rejects(ctx, divs)
    _tie_call_sites(ctx, divs)
    _direct(ctx, divs, gen_specs(ctx, 6000 if ctx.thorough else 600))
    _direct(ctx, divs, gen_position_specs(ctx, 80 if ctx.thorough else 10))
    _direct(ctx, divs, gen_half_specs(ctx, 60 if ctx.thorough else 12))
    return divs


# ----------------------------------------------------------------------------------------------
# search / shrink / replay


def shrink(spec, key=None):
    """greedy: keep any simplification under which the property still fails with the same key"""
    key0 = {key} if key else {k for k, _, _ in fails(spec)}

    def still(s):
        try:
            return bool({k for k, _, _ in fails(s)} & key0)
        except Exception:
            return False

    s = json.loads(json.dumps(spec))
    kind = s["kind"]
    if kind in ("padded", "content"):
        # fewer rows
        i = 0
        while len(s["rows"]) > 1 and i < len(s["rows"]):
            t = json.loads(json.dumps(s))
            for f in ("rows", "rows2", "lens"):
                if f in t:
                    del t[f][i]
            if still(t):
                s = t
            else:
                i += 1
        # narrower
        while len(s["rows"][0]) > 1:
            t = json.loads(json.dumps(s))
            for f in ("rows", "rows2"):
                if f in t:
                    t[f] = [r[:-1] for r in t[f]]
            t["lens"] = [min(l, len(t["rows"][0])) for l in t["lens"]]
            if still(t):
                s = t
            else:
                break
        # fewer real tokens
        for i in range(len(s["rows"])):
            while s["lens"][i] > 1:
                t = json.loads(json.dumps(s))
                for f in ("rows", "rows2"):
                    if f in t:
                        del t[f][i][0]
                        t[f][i].append(t[f][i][-1] if t[f][i] else 0)
                t["lens"][i] -= 1
                if still(t):
                    s = t
                else:
                    break
    elif kind == "unpadded":
        while len(s["rows"]) > 2:
            t = json.loads(json.dumps(s))
            del t["rows"][-1]
            if still(t):
                s = t
            else:
                break
        while len(s["rows"][0]) > 1:
            t = json.loads(json.dumps(s))
            t["rows"] = [r[:-1] for r in t["rows"]]
            if still(t):
                s = t
            else:
                break
    elif kind == "causal":
        for f in ("suffix2", "suffix1"):
            t = json.loads(json.dumps(s))
            t[f] = []
            if (t["suffix1"] or t["suffix2"]) and still(t):
                s = t
        for f in ("suffix1", "suffix2"):
            while len(s[f]) > 1:
                t = json.loads(json.dumps(s))
                t[f] = t[f][:-1]
                if still(t):
                    s = t
                else:
                    break
        while len(s["toks"]) > 1:
            t = json.loads(json.dumps(s))
            t["toks"] = t["toks"][1:]
            if still(t):
                s = t
            else:
                break
    elif kind in ("evaluate", "server", "dataset"):
        if "rounds" not in s:
            s["rounds"] = [s.pop("positions")]
        # whole rounds, last first (a failure usually needs its history, not its future)
        ri = len(s["rounds"]) - 1
        while ri >= 0 and len(s["rounds"]) > 1:
            t = json.loads(json.dumps(s))
            del t["rounds"][ri]
            if still(t):
                s = t
            ri -= 1
        # positions inside the rounds
        for ri in range(len(s["rounds"])):
            i = 0
            while len(s["rounds"][ri]) > 1 and i < len(s["rounds"][ri]):
                t = json.loads(json.dumps(s))
                del t["rounds"][ri][i]
                if still(t):
                    s = t
                else:
                    i += 1
        if kind == "dataset":
            for f, v in (("epochs", 1), ("batch_size", 1)):
                t = json.loads(json.dumps(s))
                t[f] = v
                if still(t):
                    s = t
    # a simpler model of the same seed, when the failure survives
    while s["cfg"]["n_layer"] > 1:
        t = json.loads(json.dumps(s))
        t["cfg"]["n_layer"] -= 1
        if still(t):
            s = t
        else:
            break
    d = s["cfg"]["n_head"] * s["cfg"]["d_head"]
    for f, v in (("train", False), ("dtype", "float64"), ("pos", "none"), ("n_head", 1), ("n_head", 2)):
        t = json.loads(json.dumps(s))
        if f == "n_head":
            if d % v or t["cfg"]["n_head"] <= v:
                continue
            t["cfg"]["n_head"], t["cfg"]["d_head"] = v, d // v
        elif t["cfg"][f] == v:
            continue
        else:
            t["cfg"][f] = v
        if still(t):
            s = t
    return s


def _violations_from(ctx, bad):
    """bad: list of (key, spec) known to fail -> one shrunk Violation per key"""
    by_key = {}
    for key, spec in bad:
        by_key.setdefault(key, []).append(spec)
    vs = []
    for key, specs in by_key.items():
        specs.sort(key=lambda s: len(json.dumps(s)))
        spec = None
        for cand in specs[:5]:
            if any(k == key for k, _, _ in fails(cand)):
                spec = cand
                break
        if spec is None:
            continue
        try:
            small = shrink(spec, key)
            if any(k == key for k, _, _ in fails(small)):
                spec = small
        except Exception:
            pass
        f = [x for x in fails(spec) if x[0] == key]
        if not f:
            continue
        cfg = xf.Cfg.from_json(spec["cfg"])
        vs.append(
            Violation(
                key,
                "%s [%s, seed %d]: %s: %s (%d failing inputs in this run)" % (spec["kind"], cfg.short(), cfg.seed, f[0][1], f[0][2], len(specs)),
                spec,
            )
        )
    return vs


def search(ctx, divergences, broken):
    bad_specs = []
    for d in divergences:
        if d.component.startswith("impl."):
            d.explained = True
            bad_specs.append((d.component[len("impl."):], d.input))
    # a tie break: probe the property on the very models (and positions) where the model and the code part ways
    probed = set()
    tie_divs = [d for d in divergences if d.component == "corr.xformer"]
    for d in tie_divs[:12]:
        inp = d.input
        found = False
        if "cfg" in inp and inp.get("kind") in ("tie", "tie-site", "tie-evaluate"):
            cj = dict(inp["cfg"])
            k = json.dumps(cj, sort_keys=True)
            if k in probed:
                continue
            probed.add(k)
            specs = []
            if inp.get("kind") == "tie":
                specs.append({"kind": "padded", "cfg": cj, "rows": inp["rows"], "lens": inp["lens"]})
            if "rounds" in inp and cj["head"] == "pv" and cj["n_vocab"] == 256:
                for kind in ("evaluate", "server", "dataset"):
                    specs.append({"kind": kind, "cfg": cj, "rounds": inp["rounds"], "batch_size": 2, "epochs": 2})
            specs += list(gen_specs(ctx, 40, cfg_fixed=cj))
            for s in specs:
                try:
                    for k2, _, _ in fails(s):
                        bad_specs.append((k2, s))
                        found = True
                except Exception:
                    continue
        elif inp.get("kind") == "call-site-mask" and "rounds" in inp:
            rounds = inp["rounds"]
            k = json.dumps(rounds)
            if k in probed:
                continue
            probed.add(k)
            from tak.model import encoding

            L = max(len(encoding.encode(ser.parse_pos(s_.split(" ")))) for r in rounds for s_ in r)
            for dtype in ("float64", "float32"):
                for _ in range(2):
                    cfg = rand_cfg(ctx.rng, head="pv", n_vocab=256, dtype=dtype, min_ctx=L, causal=False)
                    for kind in ("server", "dataset", "evaluate"):
                        s = {"kind": kind, "cfg": cfg.to_json(), "rounds": rounds, "batch_size": 2, "epochs": 2}
                        try:
                            for k2, _, _ in fails(s):
                                bad_specs.append((k2, s))
                                found = True
                        except Exception:
                            continue
        if found:
            for d2 in tie_divs:
                if d2.input.get("cfg") == inp.get("cfg") or d2.input.get("kind") == "call-site-mask":
                    d2.explained = True
    if broken and not bad_specs:
        # a proof obligation no longer checks: widen the search on the implementation
        divs2 = []
        _direct(ctx, divs2, gen_specs(ctx, 600))
        _direct(ctx, divs2, gen_position_specs(ctx, 10))
        bad_specs += [(d.component[len("impl."):], d.input) for d in divs2]
    return _violations_from(ctx, bad_specs)


def replay(ctx, data):
    torch.set_num_threads(1)
    spec = data.get("replay", data)
    if spec.get("kind") not in ("padded", "unpadded", "content", "causal", "evaluate", "server", "dataset"):
        return []
    ctx.count("replay:" + spec["kind"])
    out = []
    for key, label, detail in fails(spec):
        cfg = xf.Cfg.from_json(spec["cfg"])
        out.append(Violation(key, "%s [%s, seed %d]: %s: %s" % (spec["kind"], cfg.short(), cfg.seed, label, detail), spec))
    return out

"""C20 — dataset epochs are aligned permutations and streams are reproducible."""
import contextlib
import os
import pickle
import gc
import json
import shutil
import subprocess
import tempfile

from ..check import Divergence, Violation
from ..lib import driver, env

ID = "C20"
LEAN_MODULES = ["TakVerif.Props.C20"]
NEEDS_EXT = True  # tak.alphazero.data is imported through the package (tak.mcts -> tak_ext)
NEEDS_STUBS = True
RULE = (
    "file dataset: real xformer.data.Dataset on files written with torch.save: 0..50 rows, 1-4 fields (a unique id per row and "
    "fields derived from it, trailing shapes () (3,) (2,2), dtypes int64 int32 uint8 float32 float64 bool), batch size 1..n+3, "
    "`batches` unset / 0 / inside / beyond the file, seeds; torch.randperm is wrapped to record every permutation, which is the oracle "
    "input of Batch.Ds.stream; 2-3 epochs per dataset compared batch for batch, field for field, exactly; every recorded draw is "
    "checked to be a permutation. Across two real instances: equal seeds -> equal streams, fastforward n == consume n, "
    "pickle.dumps/loads after m epochs restarts at epoch 0. Replay buffer: real ReplayBufferDataset on 1-5 batches of unequal widths "
    "(uint8/int64 tokens, arbitrary and prefix masks, empty batches, 1-3 other columns incl. ids): flat_replay_buffer vs "
    "Batch.catReplayBuffer and 2 epochs vs Batch.rbEpoch, exactly. One evaluation = one epoch / one merge / one stream comparison. "
    "Every yielded batch is serialised when yielded and again after all epochs of its dataset: it must not have changed. "
    "Non-trivial = an epoch of >= 2 rows, a merge of >= 2 different widths; distinct by serialised input."
)
TRUSTED = [
    "modelled, not verified: torch.save/torch.load round trip, tensor indexing by a permutation tensor, slicing, torch.cat, "
    "torch.Generator.manual_seed / torch.randperm as a deterministic function of the generator state (the model takes the recorded "
    "permutation; determinism of the generator itself is observed across two real instances on every run)",
]
ASSUMPTIONS = [
    "batch_size >= 1 (range(0, n, 0) raises ValueError); at least one field; all fields have the same number of rows",
    "the dataset file is not modified between construction and unpickling; device = cpu (no CUDA pinning)",
    "replay-buffer batches share their key set and have rectangular positions/mask of equal shape",
]


# ------------------------------------------------------------------ recording randperm


@contextlib.contextmanager
def recorded_randperm(log):
    import torch

    real = torch.randperm

    def wrapper(*a, **k):
        t = real(*a, **k)
        log.append((int(a[0]) if a else int(k.get("n")), t.tolist()))
        return t

    torch.randperm = wrapper
    try:
        yield
    finally:
        torch.randperm = real


# ------------------------------------------------------------------ serialisation


def cell(t):
    """one field of one row: shape and exact values (dtype deliberately not part of it)"""
    import torch

    shape = "x".join(str(s) for s in t.shape) or "s"
    flat = t.flatten()
    if flat.dtype == torch.bool:
        vals = ["1" if v else "0" for v in flat.tolist()]
    elif flat.dtype.is_floating_point:
        vals = [float(v).hex() for v in flat.tolist()]
    else:
        vals = [str(int(v)) for v in flat.tolist()]
    return shape + "|" + ",".join(vals)


def col_str(t):
    return ";".join(cell(r) for r in t) if t.shape[0] else "*"


def perm_str(p):
    return ",".join(str(i) for i in p) if p else "*"


def table_str(data):
    return " ".join([str(len(data))] + [col_str(v) for v in data.values()])


def batches_str(batches):
    """batches: list of dicts (the `.data` of the yielded batch objects)"""
    parts = [str(len(batches))]
    for b in batches:
        parts += [col_str(v) for v in b.values()]
    return " ".join(parts)


def toks_str(row):
    return ",".join(str(int(t)) for t in row) if len(row) else "*"


def mask_str(row):
    return "".join("1" if t else "0" for t in row) if len(row) else "*"


def flat_str(d):
    """a dict with positions/mask/other keys (a flat replay buffer or an emitted replay batch)"""
    others = [k for k in d if k not in ("positions", "mask")]
    n = d["positions"].shape[0]
    parts = [str(n), str(len(others))]
    parts += [toks_str(r.tolist()) for r in d["positions"]]
    parts += [mask_str(r.tolist()) for r in d["mask"]]
    parts += [col_str(d[k]) for k in others]
    return " ".join(parts)


def buffer_str(d):
    return "%d %s" % (d["positions"].shape[1], flat_str(d))


def flat_as_table(d):
    """positions / mask rows as opaque cells, so that the generic epoch predicates apply"""
    others = [k for k in d if k not in ("positions", "mask")]
    cols = []
    n = d["positions"].shape[0]
    cols.append(";".join("p|" + toks_str(r.tolist()) for r in d["positions"]) if n else "*")
    cols.append(";".join("m|" + mask_str(r.tolist()) for r in d["mask"]) if n else "*")
    cols += [col_str(d[k]) for k in others]
    return cols


# ------------------------------------------------------------------ generators


FIELD_KINDS = ["sq", "u8vec", "f32mat", "f64", "i32", "boolvec", "u8", "bigint", "bigint", "f32", "f16"]


def make_field(kind, ids):
    import torch

    n = ids.shape[0]
    if kind == "sq":
        return ids**2
    if kind == "u8vec":
        return torch.stack([(ids * 7 + j) % 256 for j in range(3)], dim=1).to(torch.uint8).reshape(n, 3)
    if kind == "u8":
        return ((ids * 13) % 256).to(torch.uint8)
    if kind == "f32mat":
        return (ids.to(torch.float32).reshape(n, 1, 1) * torch.tensor([[0.5, 1.0], [2.0, -0.25]])).reshape(n, 2, 2)
    if kind == "f64":
        return ids.to(torch.float64) * 0.125 - 3.0
    if kind == "i32":
        return (ids * 3 - 1000).to(torch.int32)
    if kind == "boolvec":
        return torch.stack([(ids >> j) % 2 == 1 for j in range(4)], dim=1).reshape(n, 4)
    if kind == "bigint":
        # position hashes / game ids: integers no float32 (2**24), float64 (2**53) holds exactly
        return ids * 2 + torch.tensor([(2**24 + 1, 2**31 - 5, 2**53 + 1, 2**62 + 3)[i % 4] for i in range(n)], dtype=torch.int64).reshape(n)
    if kind == "f32":
        return ids.to(torch.float32) * 0.0625 + 1.0 / 3.0
    if kind == "f16":
        return (ids % 97).to(torch.float16) * 0.5
    raise ValueError(kind)


def gen_file_case(ctx, tmp, serial):
    import torch

    rng = ctx.rng
    n = rng.choice([0, 1, 2, 3, 5, 8, 16, rng.randrange(0, 51), rng.randrange(0, 51)])
    base = rng.randrange(0, 1000)
    ids = torch.tensor([base + 3 * i for i in range(n)], dtype=torch.int64).reshape(n)
    if rng.random() < 0.5 and n > 1:
        order = list(range(n))
        rng.shuffle(order)
        ids = ids[torch.tensor(order)]
    nfields = rng.choice([1, 2, 2, 3, 4])
    kinds = rng.sample(FIELD_KINDS, nfields - 1)
    data = {"ids": ids}
    for k in kinds:
        data[k] = make_field(k, ids)
    if rng.random() < 0.3 and len(data) > 1:
        # the id column need not come first
        keys = list(data)
        rng.shuffle(keys)
        data = {k: data[k] for k in keys}
    path = os.path.join(tmp, "ds%d.pt" % serial)
    torch.save(data, path)
    b = rng.choice([1, 2, 3, 4, 7, max(1, n), max(1, n // 2), n + 3, rng.randrange(1, max(2, n + 2))])
    nb_full = (n + b - 1) // b
    batches = rng.choice([None, None, None, 0, 1, max(0, nb_full - 1), nb_full, nb_full + 2, max(0, n // b)])
    seed = rng.choice([0, 1, 0x12345678, rng.randrange(0, 2**31)])
    return {"path": path, "data": data, "n": n, "b": b, "batches": batches, "seed": seed, "kinds": ["ids"] + kinds}


def make_dataset(c):
    from xformer import data

    return data.Dataset(c["path"], batch_size=c["b"], batches=c["batches"], seed=c["seed"])


def run_epochs(ds, k, held=None):
    """k epochs of a real dataset: [(perm, batches_text)].  Every yielded batch is serialised at the
    moment it is yielded and kept in `held`: batches are values, later batches / epochs must not
    change them (see `mutated`)."""
    out = []
    for _ in range(k):
        log = []
        batches = []
        with recorded_randperm(log):
            for b in ds:
                batches.append(b.data)
                if held is not None:
                    held.append((b.data, batches_str([b.data])))
        # the model takes ONE permutation per epoch; with any other number of draws the first one is
        # passed on and the comparison with the model (and then the predicates) decides
        out.append((log[0] if log else (0, []), batches_str(batches), len(log)))
    return out


def mutated(held, to_text=None):
    """indices of held batches whose content no longer is what it was when they were yielded"""
    to_text = to_text or (lambda d: batches_str([d]))
    return [i for i, (d, t) in enumerate(held) if to_text(d) != t]


def stream_text(ds, k):
    return [batches_str([b.data for b in ds]) for _ in range(k)]


def gen_rb_case(ctx):
    import torch

    rng = ctx.rng
    nb = rng.choice([1, 2, 2, 3, 5])
    style = rng.choice(["ids+moves", "ids", "ids+moves+values"])
    bufs, next_id = [], rng.randrange(0, 100)
    dtype = rng.choice([torch.int64, torch.uint8])
    for _ in range(nb):
        n = rng.choice([0, 1, 2, 3, 6]) if rng.random() < 0.9 else 0
        w = rng.choice([1, 2, 3, 5, 8, 13])
        ids = torch.tensor([next_id + i for i in range(n)], dtype=torch.int64).reshape(n)
        next_id += n
        pos = torch.tensor([[(int(i) * 31 + j * 7) % 250 + 1 for j in range(w)] for i in ids.tolist()], dtype=dtype).reshape(n, w)
        if rng.random() < 0.7:
            lens = [rng.randrange(0, w + 1) for _ in range(n)]
            mask = torch.tensor([[j < l for j in range(w)] for l in lens], dtype=torch.bool).reshape(n, w)
            if rng.random() < 0.5:
                pos = torch.where(mask, pos, torch.zeros_like(pos))
        else:
            mask = torch.tensor([[rng.random() < 0.6 for _ in range(w)] for _ in range(n)], dtype=torch.bool).reshape(n, w)
        d = {}
        order = rng.choice([0, 1, 2])
        cols = {"ids": ids}
        if "moves" in style:
            cols["moves"] = (ids.to(torch.float32).reshape(n, 1) * torch.tensor([0.5, 0.25, -1.0])).reshape(n, 3)
        if "values" in style:
            cols["values"] = ids.to(torch.float32) * 0.125
        if order == 0:
            d = {"positions": pos, "mask": mask, **cols}
        elif order == 1:
            d = {**cols, "positions": pos, "mask": mask}
        else:
            d = {"mask": mask, **cols, "positions": pos}
        bufs.append(d)
    if sum(b["positions"].shape[0] for b in bufs) == 0 and rng.random() < 0.7:
        return gen_rb_case(ctx)
    # every buffer must list its keys in the same order for the comparison of column order
    keys0 = [k for k in bufs[0]]
    bufs = [{k: b[k] for k in keys0} for b in bufs]
    b = rng.choice([1, 2, 3, 4, 100])
    return bufs, b


# ------------------------------------------------------------------ predicates (driver)


def check_epoch(b, batches, perm, file_table, got_text):
    line = "dataset check-epoch %d %s %s %s %s" % (b, "none" if batches is None else str(batches), perm_str(perm), file_table, got_text)
    out = driver.run_lines([line])[0]
    if out == "ok":
        return []
    if out.startswith("fail "):
        return out[5:].split(",")
    return ["driver:" + out]


def check_cat(bufs_text, flat_text):
    out = driver.run_lines(["dataset check-cat %s %s" % (bufs_text, flat_text)])[0]
    if out == "ok":
        return []
    if out.startswith("fail "):
        return out[5:].split(",")
    return ["driver:" + out]


# ------------------------------------------------------------------ tie


class StreamDependsOnUse(Exception):
    pass


def scale_case(tmp, n, b, seed):
    import torch
    from xformer import data as _xd

    path = os.path.join(tmp, "big%d.pt" % n)
    if not os.path.exists(path):
        torch.save({"ids": torch.arange(n, dtype=torch.int64)}, path)
    ds = _xd.Dataset(path, batch_size=b, seed=seed)
    sizes, parts = [], []
    for bt in ds:
        sizes.append(int(bt.data["ids"].shape[0]))
        parts.append(bt.data["ids"])
    out = driver.run_lines(["dataset sizes %d %d %s" % (n, b, " ".join(map(str, sizes)))])[0]
    keys, what = [], ""
    if out != "ok":
        bad = [(k, z) for k, z in enumerate(sizes[:-1]) if z != b][:3]
        keys.append("batch-size")
        what = "%d batches for %d rows / batch_size %d; batches before the last that are not full (index, size): %s" % (len(sizes), n, b, bad)
    allrows = torch.cat(parts) if parts else torch.zeros(0, dtype=torch.int64)
    if allrows.shape[0] != n or not bool((torch.sort(allrows).values == torch.arange(n)).all()):
        keys.append("row-lost-or-duplicated")
        what = what or "an epoch of %d stored rows yields %d rows, not each stored row once" % (n, int(allrows.shape[0]))
    return {"n": n, "b": b, "seed": seed, "keys": keys, "what": what}


def scale_cases(ctx, tmp):
    rng = ctx.rng
    out = []
    for n, b in ([(9_000_000, rng.choice([100_003, 65_537, 250_000]))] + ([(17_000_001, 1_000_000), (9_000_000, 4096)] if ctx.thorough else [])):
        out.append(scale_case(tmp, n, b, rng.randrange(1 << 30)))
    return out


def trainer_window_case(case):
    """drive the real `TrainingRun.train_step` with rollout batches of the given widths (ragged rows;
    positions[:, 0] is a unique row id); a forward pre-hook records what the model is given.  Returns
    {steps, rows, widened, bad: [text]}: `bad` = rows for which the driver's `catRowOK` fails."""
    import torch

    from ..lib import snap_common as sc

    rng = __import__("random").Random(case["seed"])
    run = sc.fresh_run(None, {"replay_buffer_steps": case["k"], "train_positions": case["train_positions"], "train_batch": case["train_batch"]})
    sc.init_state(run, 77, 0)
    run.state.replay_buffer = []
    run.serve_mode()
    given = []
    h = run.state.model.register_forward_pre_hook(lambda mod, args: given.append((args[0].detach().clone(), args[1].detach().clone())) if len(args) >= 2 else None)
    lines, where, rows_seen, widened = [], [], 0, False
    try:
        for step, w in enumerate(case["widths"]):
            n = case["n"]
            base = sc.make_batch(1000 + step, n=n, width=w)
            pos, mask = base["positions"], base["mask"]
            for r in range(n):
                ln = w if r == 0 else rng.randrange(2, w + 1)
                pos[r, ln:] = 0
                mask[r, ln:] = False
                pos[r, 0] = 1 + step * n + r  # unique id of the row
                pos[r, 1:ln] = torch.clamp(pos[r, 1:ln], min=1)
            given.clear()
            run.train_step(base)
            window = {}
            for b in run.state.replay_buffer:
                for r in range(b["positions"].shape[0]):
                    window[int(b["positions"][r, 0])] = (b["positions"][r].tolist(), b["mask"][r].tolist())
            for inputs, pad in given:
                wd = inputs.shape[1]
                if wd > min(len(v[0]) for v in window.values()):
                    widened = True
                for r in range(inputs.shape[0]):
                    rid = int(inputs[r, 0])
                    ot, om = window.get(rid, ([], []))
                    lines.append("%s %s %s %s" % (toks_str(ot), mask_str(om), toks_str(inputs[r].tolist()), mask_str((~pad[r]).tolist())))
                    where.append((step, rid, wd))
                    rows_seen += 1
    finally:
        h.remove()
    bad = []
    outs = driver.run_lines(["dataset check-rows %d %s" % (wh[2], ln) for wh, ln in zip(where, lines)])
    for (step, rid, wd), ln, out in zip(where, lines, outs):
        if out != "ok":
            bad.append("step %d (window of %d, widths so far %s): row %d is given to the model as [%s] mask [%s]; in the window it is [%s] mask [%s] (%s)" % (
                step + 1, case["k"], case["widths"][: step + 1], rid, ln.split(" ")[2], ln.split(" ")[3], ln.split(" ")[0], ln.split(" ")[1], out))
    return {"case": case, "steps": len(case["widths"]), "rows": rows_seen, "widened": widened, "bad": bad}


def trainer_window_cases(ctx):
    rng = ctx.rng
    out = []
    for _ in range(6 if ctx.thorough else 2):
        k = rng.choice([2, 3, 4])
        widths = [rng.choice([5, 6, 7]) for _ in range(k)] + [rng.choice([8, 9]), rng.choice([4, 6]), rng.choice([11, 12]), rng.choice([5, 10])]
        out.append(trainer_window_case({"k": k, "widths": widths, "n": 4, "train_positions": 8, "train_batch": 4, "seed": rng.randrange(1 << 30)}))
    return out


def run_interleaved(ds, ops):
    """several iterators over ONE dataset object, advanced in the given interleaving (`mk`: iter(ds);
    `n<j>`: next(it_j); `f<n>`: fastforward_epochs(n); `c<j>`: iterator j is given up).  Returns
    (recorded permutations in the order they were drawn, per iterator [batches as text, ran into
    StopIteration], what every operation returned in the notation of the driver's `session`)."""
    log, its, outs = [], [], []
    with recorded_randperm(log):
        for op in ops:
            if op == "mk":
                its.append({"it": iter(ds), "got": [], "stopped": False})
                outs.append("u")
            elif op[0] == "f":
                ds.fastforward_epochs(int(op[1:]))
                outs.append("u")
            elif op[0] == "c":
                # the caller gives up on iterator j (break out of the loop, an exception in the
                # training step, `close()`): nothing of the stream is undone.  (A generator that is
                # garbage-collected is closed the same way.)
                j = int(op[1:])
                if j < len(its):
                    its[j]["closed"] = True
                    its[j]["it"].close()
                    gc.collect()
                outs.append("u")
            else:
                j = int(op[1:])
                if j >= len(its):
                    outs.append("noiter")
                    continue
                it = its[j]
                try:
                    b = next(it["it"])
                    it["got"].append(batches_str([b.data]).split(" ", 1)[1])
                    outs.append("b " + it["got"][-1])
                except StopIteration:
                    if not it.get("closed"):
                        it["stopped"] = True
                    outs.append("stop")
    return log, [(x["got"], x["stopped"]) for x in its], outs


def gen_interleaving(rng):
    ops, n = [], 0
    for _ in range(rng.randrange(5, 16)):
        r = rng.random()
        if n == 0 or (r < 0.18 and n < 4):
            ops.append("mk")
            n += 1
        elif r < 0.28:
            ops.append("f%d" % rng.choice([1, 1, 2]))
        elif r < 0.36:
            ops.append("c%d" % rng.randrange(n))
        else:
            ops.append("n%d" % rng.randrange(n))
    # usually let one iterator run to its end
    if rng.random() < 0.7:
        ops += ["n%d" % rng.randrange(n)] * rng.choice([3, 8, 30])
    if rng.random() < 0.5:
        # ... or pull exactly the batches of an epoch (zip, islice: StopIteration never seen), give
        # the iterator up, and go on with new ones
        j = rng.randrange(n)
        ops += ["n%d" % j] * rng.choice([1, 2, 3, 5]) + ["c%d" % j, "mk", "n%d" % n, "n%d" % n, "mk", "n%d" % (n + 1)]
    return ops


def interleaved_line(c, ftable, ops):
    """the driver line that evaluates C20_interleaved on what the real iterators returned"""
    log, its, outs = run_interleaved(make_dataset(c), ops)
    # the seed alone decides the sequence of shuffles: a twin that only fast-forwards draws the same
    log2 = []
    with recorded_randperm(log2):
        make_dataset(c).fastforward_epochs(len(log))
    if [pl for _, pl in log] != [pl for _, pl in log2]:
        raise StreamDependsOnUse("the %d shuffles drawn under this use %s differ from the seed's sequence %s" % (len(log), [pl for _, pl in log], [pl for _, pl in log2]))
    started = [(got, st) for got, st in its if got or st]
    line = "dataset check-session %d %s %d %s %s %d %s" % (
        c["b"],
        "none" if c["batches"] is None else str(c["batches"]),
        len(log),
        " ".join(perm_str(pl) for _, pl in log),
        ftable,
        len(started),
        " ".join("%d %d%s" % (1 if st else 0, len(got), "".join(" " + g for g in got)) for got, st in started),
    )
    # the same operations run by the model (`Sess.run`, the recorded draws replayed in order)
    sline = "dataset session %d %s %d %s %s %s" % (
        c["b"], "none" if c["batches"] is None else str(c["batches"]), len(log), " ".join(perm_str(pl) for _, pl in log), ftable, " ".join(ops))
    interleaved_line.last_session = (" ".join(sline.split()), "ok " + ";".join(outs))
    return " ".join(line.split()), its


def check_interleaved(c, ftable, ops):
    """[] or ["interleaved-iterators"]"""
    try:
        line, its = interleaved_line(c, ftable, ops)
    except StreamDependsOnUse as e:
        return ["interleaved-iterators"], str(e)[:300], []
    out = driver.run_lines([line])[0]
    return ([] if out == "ok" else ["interleaved-iterators"]), out, its


def tie(ctx):
    import torch

    torch.set_num_threads(1)  # thousands of small tensor ops: thread pools only add overhead
    n_file = 900 if ctx.thorough else 220
    n_rb = 1800 if ctx.thorough else 320
    divs = []
    tmp = tempfile.mkdtemp(prefix="c20-")
    try:
        lines, impl, meta, inter, xjobs, sessions = [], [], [], [], [], []
        for serial in range(n_file):
            c = gen_file_case(ctx, tmp, serial)
            ftable = table_str(c["data"])
            k = ctx.rng.choice([1, 2, 3])
            desc = {
                "kind": "file",
                "fields": c["kinds"],
                "table": ftable,
                "b": c["b"],
                "batches": c["batches"],
                "seed": c["seed"],
                "epochs": k,
            }
            ctx.count("file:rows-%s" % ("0" if c["n"] == 0 else "1" if c["n"] == 1 else "2..8" if c["n"] <= 8 else "9..50"))
            ctx.count("file:fields-%d" % len(c["data"]))
            ctx.count("file:batches-" + ("unset" if c["batches"] is None else "set"))
            ctx.count("file:b-divides" if c["b"] and c["n"] % c["b"] == 0 else "file:b-does-not-divide")
            for kd in c["kinds"]:
                ctx.count("file:field-" + kd)
            held = []
            try:
                if ctx.rng.random() < 0.4:
                    # another dataset on the SAME file was used first, truncated differently (a test
                    # split, an evaluation hook): this one still sees the whole file
                    from xformer import data as _xd

                    sib = _xd.Dataset(c["path"], batch_size=max(1, c["b"]), batches=ctx.rng.choice([0, 1, 1, 2]), seed=c["seed"])
                    for _b in sib:
                        pass
                    ctx.count("file:sibling-dataset-on-same-file-first")
                ds = make_dataset(c)
                eps = run_epochs(ds, k, held)
            except Exception as e:
                eps = None
                err = "crash " + type(e).__name__
            bad = mutated(held) if eps is not None else []
            if bad:
                divs.append(Divergence("impl.retained", dict(desc, check=MUTATED, batch=bad[0]), "batch %d of the stream changed after it was yielded" % bad[0], held[bad[0]][1]))
            if eps is None:
                ctx.evaluated()
                divs.append(Divergence("corr.dataset", desc, err, "ok …"))
                continue
            ndraws = [nd for _, _, nd in eps]
            eps = [(p, t) for p, t, _ in eps]
            perms = [p for p, _ in eps]
            nused = c["n"] if c["batches"] is None else min(c["n"], c["batches"] * c["b"])
            # every recorded draw randperm(n) is a permutation of range(n) (the oracle assumption)
            plines = ["dataset isperm %d %s" % (pn, perm_str(pl)) for pn, pl in perms]
            for (pn, pl), ans in zip(perms, driver.run_lines(plines)):
                if ans != "true":
                    divs.append(Divergence("oracle.randperm", dict(desc, perm=pl, n=pn), "randperm(%d) -> %s" % (pn, pl), "a permutation of range(%d)" % pn))
            lines.append(
                "dataset stream %d %s %d %s %s"
                % (c["b"], "none" if c["batches"] is None else str(c["batches"]), k, " ".join(perm_str(pl) for _, pl in perms), ftable)
            )
            impl.append("ok " + " ".join(t for _, t in eps))
            desc["perms"] = [pl for _, pl in perms]
            desc["impl_epochs"] = [t for _, t in eps]
            meta.append(desc)
            if any(nd != 1 for nd in ndraws):
                divs.append(Divergence("corr.dataset", dict(desc, randperm_calls=ndraws), "randperm calls per epoch: %s" % ndraws, "one per epoch"))
            ctx.evaluated(k)
            if nused >= 2:
                ctx.nontrivial("file|%s|%d|%s|%s" % (ftable, c["b"], c["batches"], perms))

            # --- properties stated directly on the implementation: two real instances
            base = stream_text(make_dataset(c), 4)
            other = stream_text(make_dataset(c), 4)
            ctx.evaluated()
            if base != other:
                divs.append(Divergence("impl.determinism", dict(desc, check="nondeterministic"), other, base))
            nff = ctx.rng.choice([0, 1, 2, 3])
            d2 = make_dataset(c)
            d2.fastforward_epochs(nff)
            ff = stream_text(d2, 4 - nff)
            ctx.evaluated()
            ctx.count("file:fastforward-%d" % nff)
            if ff != base[nff:]:
                divs.append(Divergence("impl.fastforward", dict(desc, check="fastforward", n=nff), ff, base[nff:]))
            # several live iterators over one dataset object, interleaved with each other and with
            # fast-forwards: each owns one epoch of the sequential stream (C20_interleaved)
            if c["b"] >= 1:
                ops = gen_interleaving(ctx.rng)
                idesc = dict(desc, check="interleaved-iterators", ops=ops)
                try:
                    iline, its = interleaved_line(c, ftable, ops)
                    inter.append((idesc, iline, its))
                    sessions.append((idesc,) + interleaved_line.last_session)
                except StreamDependsOnUse as e:
                    divs.append(Divergence("impl.interleaved", idesc, str(e)[:600], "the sequence of epochs depends on the seed alone"))
                except Exception as e:
                    divs.append(Divergence("impl.interleaved", idesc, "crash " + type(e).__name__, "every iterator yields one epoch of the sequential stream"))
                ctx.evaluated()
                ctx.count("file:interleaved-iterators")
                if sum(1 for o in ops if o == "mk") >= 2:
                    ctx.count("file:interleaved-2+-iterators")
            if len(xjobs) < (12 if ctx.thorough else 4) and c["n"] >= 3:
                # the same constructor arguments, and a pickle of this process's dataset, in other
                # interpreters (other hash seeds): the stream depends on the seed alone
                d4 = make_dataset(c)
                list(d4)
                pk = os.path.join(tmp, "x%d.pkl" % serial)
                with open(pk, "wb") as fh:
                    pickle.dump(d4, fh)
                sp = os.path.join(tmp, "x%d.json" % serial)
                with open(sp, "w") as fh:
                    json.dump({"c": {kk: c[kk] for kk in ("path", "b", "batches", "seed")}, "pickle": pk, "k": 2}, fh)
                xjobs.append((dict(desc), sp, base[:2]))
            m = ctx.rng.choice([0, 1, 2])
            d3 = make_dataset(c)
            for _ in range(m):
                list(d3)
            d3 = pickle.loads(pickle.dumps(d3))
            pk = stream_text(d3, 2)
            ctx.evaluated()
            ctx.count("file:pickle-after-%d" % m)
            if pk != base[:2]:
                divs.append(Divergence("impl.pickle", dict(desc, check="pickle-restart", consumed=m), pk, base[:2]))
        model = driver.run_lines(lines)
        for desc, io, mo in zip(meta, impl, model):
            if io != mo:
                divs.append(Divergence("corr.dataset", desc, io, mo))
        procs = []
        for hs, (xdesc, sp, want) in zip(("1", "2", "3", "4", "5", "6", "7", "8", "9", "10", "11", "12"), xjobs):
            e = dict(os.environ, PYTHONHASHSEED=hs)
            procs.append((xdesc, want, subprocess.Popen([env.PYTHON, "-m", "harness.lib.c20_xproc", sp], cwd=env.VERIF, env=e, stdout=subprocess.PIPE, stderr=subprocess.PIPE, text=True)))
        for xdesc, want, pr in procs:
            so, se = pr.communicate(timeout=600)
            ctx.evaluated(2)
            ctx.count("file:stream-in-another-interpreter")
            got = None
            for l in so.splitlines():
                if l.startswith("C20X "):
                    got = json.loads(l[5:])
            if got is None:
                divs.append(Divergence("impl.determinism", dict(xdesc, check="nondeterministic", where="another interpreter"), "crash: " + se[-200:], "the stream"))
                continue
            if got["fresh"] != want:
                divs.append(Divergence("impl.determinism", dict(xdesc, check="nondeterministic", where="another interpreter (other hash seed)"), got["fresh"], want))
            if got["restored"] != want:
                divs.append(Divergence("impl.pickle", dict(xdesc, check="pickle-restart", where="restored in another interpreter"), got["restored"], want))
        for (idesc, _l, its), out in zip(inter, driver.run_lines([l for _d, l, _i in inter])):
            if out != "ok":
                divs.append(Divergence("impl.interleaved", idesc, "%s: iterators returned %s" % (out, str(its)[:300]), "every iterator yields one epoch of the sequential stream"))
        # operation by operation: what every `next` returned against the model's `Sess.run`
        for (idesc, _l, io), mo in zip(sessions, driver.run_lines([l for _d, l, _i in sessions])):
            ctx.count("file:session-operations-compared", len(idesc["ops"]))
            if io != mo:
                k = next((n for n, (a, b) in enumerate(zip(io[3:].split(";"), mo[3:].split(";"))) if a != b), -1)
                divs.append(Divergence("corr.dataset.session", idesc, "operation %d (%s): %s" % (k, idesc["ops"][k] if 0 <= k < len(idesc["ops"]) else "?", io[:400]), mo[:400]))
        if meta:
            ctx.sample({k: meta[0][k] for k in ("fields", "b", "batches", "seed", "perms")})

        # --- one dataset object used for a long time: 130 epochs drawn from one object, against a twin
        # that fast-forwards (anything that happens "every N epochs" shows only here)
        for lr in range(2 if ctx.thorough else 1):
            c = gen_file_case(ctx, tmp, 900000 + lr)
            if c["n"] < 2 or c["b"] < 1:
                continue
            ctx.evaluated(3)
            ctx.count("file:long-lived-object-130-epochs")
            long_a = stream_text(make_dataset(c), 130)
            tw = make_dataset(c)
            tw.fastforward_epochs(104)
            tail = stream_text(tw, 26)
            desc = {"kind": "file", "fields": c["kinds"], "table": table_str(c["data"]), "b": c["b"], "batches": c["batches"], "seed": c["seed"], "epochs": 130}
            if tail != long_a[104:]:
                k = next(i for i, (x, y) in enumerate(zip(tail, long_a[104:])) if x != y)
                divs.append(Divergence("impl.fastforward", dict(desc, check="fastforward", n=104, long_run=True), "epoch %d after fastforward_epochs(104): %s" % (104 + k, tail[k][:200]), "epoch %d of a dataset that consumed them: %s" % (104 + k, long_a[104 + k][:200])))
            long_b = stream_text(make_dataset(c), 130)
            if long_b != long_a:
                k = next(i for i, (x, y) in enumerate(zip(long_b, long_a)) if x != y)
                divs.append(Divergence("impl.determinism", dict(desc, check="nondeterministic", long_run=True), "epoch %d: %s" % (k, long_b[k][:200]), long_a[k][:200]))

        # --- scale probe: a file of more than 64 MiB (one int64 field of 9 million rows) — staging
        # buffers, chunked gathers and 32-bit offsets do not show on small files.  The batch lengths
        # are judged by the driver (`sizesOK`, C20_batch_lengths); that the rows are exactly the
        # stored ones is a sort-and-compare here.
        for sc in scale_cases(ctx, tmp):
            ctx.evaluated()
            ctx.count("file:scale-probe")
            if sc["keys"]:
                divs.append(Divergence("impl.scale", {"kind": "file-scale", "check": sc["keys"][0], "rows": sc["n"], "b": sc["b"], "seed": sc["seed"]}, sc["what"], "ceil(n/b) batches, only the last shorter; every stored row exactly once"))
            else:
                ctx.nontrivial("scale|%d|%d" % (sc["n"], sc["b"]))

        # --- the replay window as the TRAINER builds it, step after step (`TrainingRun.train_step`):
        # what the model is given in every mini-batch, against the rows of the window at that step
        for tc in trainer_window_cases(ctx):
            ctx.evaluated(tc["rows"])
            ctx.count("rb:trainer-window-steps", tc["steps"])
            ctx.count("rb:trainer-window-rows-given-to-the-model", tc["rows"])
            if tc["widened"]:
                ctx.nontrivial("trainer-window|%s" % tc["case"]["widths"])
            for bad in tc["bad"][:1]:
                divs.append(Divergence("impl.trainer-window", {"kind": "trainer-window", "check": "pad-not-masked", "case": tc["case"]}, bad, "every row the model is given = a row of the window, zero-padded, the padding masked"))

        # --- replay buffer
        from tak.alphazero import data as rbdata

        lines, impl, meta = [], [], []
        for _ in range(n_rb):
            bufs, b = gen_rb_case(ctx)
            btext = "%d %s" % (len(bufs), " ".join(buffer_str(d) for d in bufs))
            widths = sorted({d["positions"].shape[1] for d in bufs})
            ctx.count("rb:widths-%d" % min(len(widths), 3))
            ctx.count("rb:buffers-%d" % len(bufs))
            if any(d["positions"].shape[0] == 0 for d in bufs):
                ctx.count("rb:has-empty-batch")
            desc = {"kind": "rb", "buffers": btext, "b": b}
            try:
                ds = rbdata.ReplayBufferDataset(replay_buffer=bufs, batch_size=b, device="cpu")
                flat = ds.flat_replay_buffer
                ftext = "ok " + flat_str(flat)
                eps = []
                held = []
                for _e in range(2):
                    log = []
                    batches = []
                    with recorded_randperm(log):
                        for bt in ds:
                            batches.append(bt.data)
                            held.append((bt.data, flat_str(bt.data)))
                    eps.append((log, batches))
                bad = mutated(held, flat_str)
                if bad:
                    divs.append(Divergence("impl.retained", dict(desc, check=MUTATED, batch=bad[0]), "batch %d of the stream changed after it was yielded" % bad[0], held[bad[0]][1]))
            except Exception as e:
                ctx.evaluated()
                divs.append(Divergence("corr.dataset", desc, "crash " + type(e).__name__, "ok …"))
                continue
            ctx.evaluated()
            lines.append("dataset cat " + btext)
            impl.append(ftext)
            meta.append(dict(desc, op="cat"))
            if len(widths) >= 2:
                ctx.nontrivial("rbcat|" + btext)
            npos = flat["positions"].shape[0]
            for log, batches in eps:
                ctx.evaluated()
                pn, pl = log[0] if log else (0, [])
                ans = driver.run_lines(["dataset isperm %d %s" % (pn, perm_str(pl))])[0]
                if ans != "true":
                    divs.append(Divergence("oracle.randperm", dict(desc, perm=pl), "randperm(%d) -> %s" % (pn, pl), "a permutation of range(%d)" % pn))
                lines.append("dataset rbepoch %d %s %s" % (b, perm_str(pl), btext))
                impl.append("ok " + " ".join([str(len(batches))] + [flat_str(bt) for bt in batches]))
                meta.append(
                    dict(
                        desc,
                        op="epoch",
                        perm=pl,
                        flat_table="%d %s" % (len(flat), " ".join(flat_as_table(flat))),
                        got="%d %s" % (len(batches), " ".join(" ".join(flat_as_table(bt)) for bt in batches)) if batches else "0",
                        flat="ok " + flat_str(flat),
                    )
                )
                if len(log) != 1:
                    divs.append(Divergence("corr.dataset", dict(meta[-1], randperm_calls=len(log)), "randperm called %d times per epoch" % len(log), "once"))
                if npos >= 2:
                    ctx.nontrivial("rbepoch|%s|%d|%s" % (btext, b, pl))
        model = driver.run_lines(lines)
        for desc, io, mo in zip(meta, impl, model):
            if io != mo:
                divs.append(Divergence("corr.dataset", desc, io, mo))
        if meta:
            ctx.sample({"replay_buffer": meta[0]["buffers"][:300], "flat": impl[0][:300]})
    finally:
        shutil.rmtree(tmp, ignore_errors=True)
    return divs


# ------------------------------------------------------------------ search / replay


MUTATED = "batch-mutated-by-later-batch"
DIRECT = {"impl.determinism": "nondeterministic", "impl.fastforward": "fastforward", "impl.pickle": "pickle-restart", "impl.retained": MUTATED, "impl.interleaved": "interleaved-iterators"}


def explain(d):
    """failing C20 clauses for one divergence, evaluated by the driver on the implementation's data
    (the cross-instance stream equalities are evaluated on the two real instances directly)"""
    inp = d.input
    if d.component in DIRECT:
        return [DIRECT[d.component]]
    if d.component in ("impl.scale", "impl.trainer-window"):
        return [inp["check"]]
    if d.component == "oracle.randperm":
        return ["randperm-not-a-permutation"]
    if inp.get("kind") == "file" and "impl_epochs" in inp:
        keys = []
        for perm, got in zip(inp["perms"], inp["impl_epochs"]):
            for k in check_epoch(inp["b"], inp["batches"], perm, inp["table"], got):
                if k not in keys:
                    keys.append(k)
        return keys
    if inp.get("kind") == "rb" and inp.get("op") == "cat" and d.impl.startswith("ok "):
        return check_cat(inp["buffers"], d.impl[3:])
    if inp.get("kind") == "rb" and inp.get("op") == "epoch":
        keys = check_cat(inp["buffers"], inp["flat"][3:]) if inp["flat"].startswith("ok ") else []
        keys += check_epoch(inp["b"], None, inp["perm"], inp["flat_table"], inp["got"])
        return keys
    return []


def search(ctx, divergences, broken):
    vs, seen = [], set()
    for n, d in enumerate(divergences):
        if n >= 150 and vs:
            break  # enough evidence; the remaining divergences cannot change the verdict
        try:
            keys = explain(d)
        except Exception as e:
            ctx.note("search: predicate evaluation failed: %r" % (e,))
            continue
        if not keys:
            continue
        d.explained = True
        for key in keys:
            if key in seen:
                continue
            seen.add(key)
            inp = dict(d.input)
            rep = {k: inp[k] for k in inp if k not in ("impl_epochs", "flat_table", "got", "flat")}
            rep["component"] = d.component
            what = "%s: clause %s of C20 fails on %s; implementation gave [%s], expected [%s]" % (
                d.component,
                key,
                {k: (str(v)[:200]) for k, v in rep.items()},
                str(d.impl)[:300],
                str(d.model)[:300],
            )
            vs.append(Violation(key, what, rep))
    return vs


def table_from_text(text):
    """rebuild the dict of tensors of a file case from its `table` text (values exact)"""
    import torch

    toks = text.split(" ")
    ncols = int(toks[0])
    data = {}
    for ci in range(ncols):
        col = toks[1 + ci]
        rows = [] if col == "*" else col.split(";")
        vals, shape, isf = [], (), False
        for r in rows:
            sh, vs = r.split("|")
            shape = () if sh == "s" else tuple(int(x) for x in sh.split("x"))
            items = [] if vs == "" else vs.split(",")
            if any("x" in it or "p" in it for it in items):
                isf = True
                vals.append([float.fromhex(it) for it in items])
            else:
                vals.append([int(it) for it in items])
        t = torch.tensor(vals, dtype=torch.float64 if isf else torch.int64).reshape((len(rows),) + shape)
        data["f%d" % ci] = t
    return data


def _replay_rb(r):
    vs = []
    import torch
    from tak.alphazero import data as rbdata
    toks = r["buffers"].split(" ")
    nb, k, bufs = int(toks[0]), 1, []
    for _ in range(nb):
        w, n, no = int(toks[k]), int(toks[k + 1]), int(toks[k + 2])
        k += 3
        pos = [[] if t == "*" else [int(x) for x in t.split(",")] for t in toks[k : k + n]]
        k += n
        msk = [[] if t == "*" else [ch == "1" for ch in t] for t in toks[k : k + n]]
        k += n
        d = {"positions": torch.tensor(pos, dtype=torch.int64).reshape(n, w), "mask": torch.tensor(msk, dtype=torch.bool).reshape(n, w)}
        sub = table_from_text("%d %s" % (no, " ".join(toks[k : k + no]))) if no else {}
        k += no
        d.update(sub)
        bufs.append(d)
    ds = rbdata.ReplayBufferDataset(replay_buffer=bufs, batch_size=r["b"], device="cpu")
    flat = ds.flat_replay_buffer
    btext = "%d %s" % (len(bufs), " ".join(buffer_str(d) for d in bufs))
    keys = check_cat(btext, flat_str(flat))
    log = []
    held = []
    with recorded_randperm(log):
        batches = []
        for bt in ds:
            batches.append(bt.data)
            held.append((bt.data, flat_str(bt.data)))
    for bt in ds:  # a second epoch, then the batches of the first must be what they were
        pass
    if mutated(held, flat_str):
        keys.append(MUTATED)
    got = "%d %s" % (len(batches), " ".join(" ".join(flat_as_table(bt)) for bt in batches)) if batches else "0"
    keys += check_epoch(r["b"], None, log[0][1] if log else [], "%d %s" % (len(flat), " ".join(flat_as_table(flat))), got)
    for k2 in dict.fromkeys(keys):
        vs.append(Violation(k2, "replay buffer [%s] b=%d: clause %s of C20 fails" % (r["buffers"][:300], r["b"], k2), r))
    return vs


def replay(ctx, data):
    r = data.get("replay", data)
    vs = []
    if r.get("kind") == "trainer-window":
        tc = trainer_window_case(r["case"])
        return [Violation("pad-not-masked", b, r) for b in tc["bad"][:1]]
    if r.get("kind") == "file-scale":
        tmp = tempfile.mkdtemp(prefix="c20r-")
        try:
            sc = scale_case(tmp, r["rows"], r["b"], r["seed"])
        finally:
            shutil.rmtree(tmp, ignore_errors=True)
        return [Violation(k, sc["what"], r) for k in sc["keys"][:1]]
    if r.get("kind") == "file":
        tmp = tempfile.mkdtemp(prefix="c20r-")
        try:
            import torch

            tbl = table_from_text(r["table"])
            path = os.path.join(tmp, "ds.pt")
            torch.save(tbl, path)
            c = {"path": path, "b": r["b"], "batches": r["batches"], "seed": r["seed"]}
            ds = make_dataset(c)
            held = []
            eps = run_epochs(ds, max(2, r.get("epochs", 2)), held)
            keys = [MUTATED] if mutated(held) else []
            ftable = table_str(tbl)
            for perm, got, _nd in eps:
                keys += check_epoch(r["b"], r["batches"], perm[1], ftable, got)
            base = stream_text(make_dataset(c), 4)
            if stream_text(make_dataset(c), 4) != base:
                keys.append("nondeterministic")
            for nff in (1, 2, 3):
                d2 = make_dataset(c)
                d2.fastforward_epochs(nff)
                if stream_text(d2, 4 - nff) != base[nff:]:
                    keys.append("fastforward")
                    break
            for m in (1, 2):
                d3 = make_dataset(c)
                for _ in range(m):
                    list(d3)
                d3 = pickle.loads(pickle.dumps(d3))
                if stream_text(d3, 2) != base[:2]:
                    keys.append("pickle-restart")
                    break
            if r.get("ops"):
                keys += check_interleaved(c, ftable, r["ops"])[0]
            for k in dict.fromkeys(keys):
                vs.append(Violation(k, "file dataset %s: clause %s of C20 fails" % ({x: str(r[x])[:120] for x in ("table", "b", "batches", "seed")}, k), r))
        finally:
            shutil.rmtree(tmp, ignore_errors=True)
    elif r.get("kind") == "rb":
        try:
            vs += _replay_rb(r)
        except Exception as e:  # the buffers cannot even be merged and read back: nothing to confirm here
            pass
    return vs

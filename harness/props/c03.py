"""C03 — every legal move is generated and owns a move id; nothing else is playable.

Per sampled position the implementation is observed three ways — `all_moves()`, `Position.move`
over a candidate set (the harness's own enumeration of the well-formed universe, the
implementation's table and generator output, and an ill-formed stream), the move-id table —
and compared with the model (`Gen.allMoves`, `Rules.legalb` over the same candidates,
`Gen.allMovesForSize`).  The property predicate itself is evaluated on the implementation's
data with the legal set decided by the driver."""
import collections

from ..check import Divergence, Violation
from ..lib import driver, gen, ser

ID = "C03"
LEAN_MODULES = ["TakVerif.Props.C03"]
# cross-operation sessions (lib/session.py): which operations this property judges
SESSION = {"kinds": {"allmoves"}}
NEEDS_STUBS = True
NEEDS_EXT = True  # the search-reach component imports tak.mcts
RULE = (
    "positions: random legal play (6 biased policies, sizes 3..8, standard+custom reserves), constructed boards "
    "(with/without tops-only, any ply incl. opening, derived/arbitrary reserves) and targeted boards (tall own stacks on "
    "corners/edges/centre, asymmetric capstone reserves, opening plies with pieces on the board). Per position: all_moves() "
    "vs Gen.allMoves as multisets; Position.move accepted/refused vs Rules.legalb on EVERY well-formed move of the size "
    "(harness enumeration) + every table entry + every generated move + an ill-formed stream; sizes 3..6: table vs model as "
    "sets. One evaluation = one (position, candidate move) pair or one generated move. Non-trivial = a legal (position, move) "
    "pair, for which generation-exactly-once and table membership were checked; distinct by text. "
    "Search reach (third sentence): ONE tak.mcts.MCTS object (evaluator giving every id the cutoff probability) expands roots "
    "on boards of different sizes in sequence (smaller first, larger first, interleaved); the moves of each root's children "
    "must be exactly the entries of that size's table that Rules.legalb accepts (driver op `gen legalmask`)."
)
TRUSTED = [
    "modelled, not verified: CPython list/tuple semantics, attrs-generated Move.__eq__/__hash__ (used to count multiplicity and look up ids)",
]
ASSUMPTIONS = [
    "coordinates and drop counts are Python ints",
    "a placement carrying a drop tuple (ignored by Position.move, 'unspecified zone' of C01) is not required to be generated or tabled; "
    "its plain form is (theorem C03_legal_norm)",
]

TABLE_SIZES = (3, 4, 5, 6)
_STATE = {"obs": [], "tables": {}}
_UNIVERSE = {}


def mv(m):
    s = m.slides
    st = "none" if s is None else ("-" if len(s) == 0 else ",".join(str(d) for d in s))
    return "%d:%d:%d:%s" % (m.x, m.y, m.type.value, st)


def parse_mv(t):
    return ser.parse_move(t.split(":"))


def split_moves(s):
    return [] if s == "." else s.split(";")


def _encoding():
    from tak.model import encoding

    return encoding


def _impl_table(size):
    """the implementation's move-id table of a size, read through its public functions"""
    enc = _encoding()
    if size >= len(enc.MOVES_BY_SIZE):
        return None
    return [enc.decode_move(size, i) for i in range(enc.n_moves_for_size(size))]


def _has_id(size, m):
    enc = _encoding()
    try:
        enc.encode_move(size, m)
        return True
    except KeyError:
        return False


def _accept(pos, m):
    """'1' accepted, '0' refused with IllegalMove, 'X' any other exception"""
    import tak

    try:
        pos.move(m)
        return "1"
    except tak.IllegalMove:
        return "0"
    except Exception:
        return "X"


# ------------------------------------------------------------------ positions


def _targeted(rng, size):
    """boards aimed at the generator's conditions: tall own stacks at corners / edges / centre
    (height below, at and above the carry limit), asymmetric capstone reserves, opening plies
    with pieces already on the board"""
    import tak
    from tak import pieces

    P = pieces.Piece.cached
    C, K = pieces.Color, pieces.Kind
    out = []
    spots = [(0, 0), (size - 1, 0), (0, size - 1), (size - 1, size - 1), (size // 2, 0), (0, size // 2), (size - 1, size // 2), (size // 2, size - 1), (size // 2, size // 2)]
    for ply in (0, 1, 2, 3, 6, 7):
        mover = C.WHITE if ply % 2 == 0 else C.BLACK
        board = [[] for _ in range(size * size)]
        rng.shuffle(spots)
        heights = [1, 2, size - 1, size, size + 1, 2 * size]
        for k, (x, y) in enumerate(spots[: rng.randrange(3, len(spots) + 1)]):
            h = heights[k % len(heights)]
            owner = mover if k % 3 != 2 else mover.flip()
            top = P(owner, rng.choice([K.FLAT, K.FLAT, K.STANDING, K.CAPSTONE]))
            board[x + y * size] = [top] + [P(C(rng.randrange(2)), K.FLAT) for _ in range(h - 1)]
        for caps in ((0, 1), (1, 0), (2, 2), (0, 0)):
            stones = (tak.StoneCounts(rng.choice([0, 1, 20]), caps[0]), tak.StoneCounts(rng.choice([0, 1, 20]), caps[1]))
            out.append(("targeted", tak.Position(size=size, stones=stones, ply=ply, board=[list(s) for s in board])))
    rng.shuffle(out)
    return out


def _positions(ctx):
    rng = ctx.rng
    if ctx.thorough:
        plan = {3: (120, 30, 24), 4: (100, 30, 24), 5: (60, 24, 24), 6: (36, 18, 24), 7: (14, 8, 12), 8: (8, 6, 12)}
    else:
        plan = {3: (20, 10, 16), 4: (16, 10, 16), 5: (10, 8, 12), 6: (6, 6, 8), 7: (3, 3, 4), 8: (2, 2, 4)}
    for size, (ngames, ncons, ntarget) in plan.items():
        for label, pos in gen.sample_positions(rng, [size], ngames, per_game=8, constructed_per_size=ncons):
            yield label, pos
        for label, pos in _targeted(rng, size)[:ntarget]:
            yield label, pos


# ------------------------------------------------------------------ observation


def _observe(ctx, positions, ill_n):
    """run the implementation and the model on each position; returns a list of records"""
    recs, lines = [], []
    for label, pos in positions:
        size = pos.size
        ps = ser.pos_str(pos)
        try:
            G = pos.all_moves()
            gerr = None
        except Exception as e:
            G, gerr = [], "crash " + type(e).__name__
        T = _STATE["tables"].get(size)
        if size in TABLE_SIZES and T is None:
            T = _STATE["tables"][size] = _impl_table(size) or []
        cands = collections.OrderedDict()
        if size not in _UNIVERSE:
            _UNIVERSE[size] = gen.wellformed_moves(size)
        for m in _UNIVERSE[size]:
            cands[m] = None
        for m in T or []:
            cands[m] = None
        for m in G:
            cands[m] = None
        for m in gen.illformed_moves(ctx.rng, size, ill_n, pos):
            cands[m] = None
        cands = list(cands)
        acc = "".join(_accept(pos, m) for m in cands)
        recs.append({"label": label, "pos": pos, "ps": ps, "G": G, "gerr": gerr, "cands": cands, "acc": acc})
        lines.append("gen allmoves " + ps)
        lines.append("gen legalmask %s %s" % (ps, ";".join(mv(m) for m in cands)))
    outs = driver.run_lines(lines)
    for k, r in enumerate(recs):
        r["model_G"] = outs[2 * k]
        r["legal"] = outs[2 * k + 1]
        if len(r["legal"]) != len(r["cands"]):
            raise RuntimeError("driver legalmask answered %r for %d candidates" % (r["legal"][:40], len(r["cands"])))
    return recs


# ------------------------------------------------------------------ the search reaches every legal continuation

def _reach_sessions(ctx):
    """sequences of positions to be searched by ONE engine object during its lifetime"""
    from ..lib import treedump as td

    rng = ctx.rng
    orders = [[3, 5], [5, 3], [3, 4, 3], [4, 6, 4], [6, 3], [4, 4, 5]]
    if ctx.thorough:
        orders = orders * 3
    out = []
    for sizes in orders:
        ps = [ser.pos_str(rng.choice(td.start_positions(rng, n, 3, custom_prob=0.3))) for n in sizes]
        out.append({"positions": ps, "seed": rng.randrange(1 << 30)})
    # constructed roots built around the rarely reached rules (stacks taller than the board, a
    # capstone on a stack next to a wall, an empty flat reserve), several per engine
    for sizes in ([[3, 4, 5, 6], [6, 5, 4, 3], [5, 5, 3, 3], [4, 6, 4, 6]] * (3 if ctx.thorough else 1)):
        ps = []
        for n in sizes:
            ps += [ser.pos_str(p) for _, p in td.tactical_positions(rng, n, 2)]
        out.append({"positions": ps, "seed": rng.randrange(1 << 30)})
    # an evaluator that hands out one tensor it keeps, several expansions per search
    for sizes in ([[3, 4], [5, 3], [4, 5, 4]] * (3 if ctx.thorough else 1)):
        ps = [ser.pos_str(rng.choice(td.start_positions(rng, n, 3, custom_prob=0.3))) for n in sizes]
        out.append({"positions": ps, "seed": rng.randrange(1 << 30), "evaluator": "uniform-kept", "budget": rng.choice([12, 30])})
    # the process runs with DEBUG logging switched on (a developer's session, a CI job with -v)
    for sizes in ([[3, 5], [4, 6]] * (2 if ctx.thorough else 1)):
        ps = [ser.pos_str(rng.choice(td.start_positions(rng, n, 3, custom_prob=0.3))) for n in sizes]
        out.append({"positions": ps, "seed": rng.randrange(1 << 30), "budget": 6, "debug_logging": True})
    # searches that end on the clock (time_limit) instead of a visit count: wherever the deadline
    # falls, every node the search has expanded carries every legal continuation
    for sizes, tl in ([([5, 6, 4], 0.03), ([6, 6], 0.015), ([4, 5, 6], 0.05), ([3, 6], 0.008)] * (3 if ctx.thorough else 1)):
        ps = [ser.pos_str(rng.choice(td.start_positions(rng, n, 3, custom_prob=0.3))) for n in sizes]
        out.append({"positions": ps, "seed": rng.randrange(1 << 30), "time_limit": tl})
    return out


def _expanded(tree):
    out, todo = [], [tree]
    while todo:
        n = todo.pop()
        if n.children is not None:
            out.append(n)
            todo.extend(n.children)
    return out


def _reach_run(ctx, sess):
    """[(key, message)] for one session; the legal set is decided by the driver"""
    import torch
    from tak import mcts

    from ..lib import treedump as td

    td.single_thread()
    torch.manual_seed(sess["seed"])
    rec = td.Recorder(td.HarnessEvaluator(sess.get("evaluator", "uniform"), sess["seed"], 1e-6), "torch", sess["seed"])
    rec.capture_solver = False
    tl = sess.get("time_limit", 0)
    engine = mcts.MCTS(mcts.Config(time_limit=tl, simulation_limit=0 if tl else sess.get("budget", 1)), rec)
    seen, lines = [], []
    import contextlib
    import io
    import logging

    @contextlib.contextmanager
    def _logging_at_debug(on):
        if not on:
            yield
            return
        root = logging.getLogger()
        old_level, h = root.level, logging.StreamHandler(io.StringIO())
        root.addHandler(h)
        root.setLevel(logging.DEBUG)
        try:
            yield
        finally:
            root.setLevel(old_level)
            root.removeHandler(h)

    with rec, _logging_at_debug(sess.get("debug_logging")):
        for ps in sess["positions"]:
            pos = ser.parse_pos(ps.split(" "))
            T = _impl_table(pos.size) or []
            try:
                tree = engine.analyze(pos)
                nodes = _expanded(tree) if tl or sess.get("budget") else [tree]
            except Exception as e:
                seen.append((ps, "crash " + type(e).__name__, T))
                lines.append("gen legalmask %s %s" % (ps, ";".join(mv(m) for m in T)))
                continue
            if ctx is not None and tl:
                ctx.count("reach:nodes-expanded-by-searches-ended-by-the-clock", len(nodes))
            for nd in nodes:
                nps = ser.pos_str(nd.position)
                seen.append((nps, sorted(mv(c.move) for c in nd.children), T))
                lines.append("gen legalmask %s %s" % (nps, ";".join(mv(m) for m in T)))
    bad = []
    for k, ((ps, kids, T), mask) in enumerate(zip(seen, driver.run_lines(lines))):
        if ctx is not None:
            ctx.evaluated(len(T))
            ctx.count("reach:searches")
        want = sorted(mv(m) for m, b in zip(T, mask) if b == "1")
        if kids == want:
            continue
        where = "search %d of %d by one engine object (boards %s) on pos=[%s]" % (
            k + 1, len(seen), [int(p.split(" ")[0]) for p in sess["positions"]], ps)
        if isinstance(kids, str):
            bad.append(("search-misses-legal-move", "%s: the search raised (%s)" % (where, kids)))
            continue
        missing = sorted(set(want) - set(kids))
        extra = sorted(set(kids) - set(want))
        if missing:
            bad.append(("search-misses-legal-move", "%s: %d of the %d legal table moves got no child, e.g. %s" % (where, len(missing), len(want), missing[:4])))
        if extra:
            bad.append(("search-child-not-legal", "%s: %d children carry a move that is not a legal table move, e.g. %s" % (where, len(extra), extra[:4])))
        if not missing and not extra:
            bad.append(("search-misses-legal-move", "%s: children repeat moves (%d children, %d legal moves)" % (where, len(kids), len(want))))
    return bad


# ------------------------------------------------------------------ positions that come and go

def _walks(ctx):
    """perft-style walks: every child position is a temporary that is dropped as soon as its own moves
    have been listed (what a move-by-move search or a perft loop does); thousands of short-lived
    positions with equal ply and reserves"""
    rng = ctx.rng
    out = []
    for size, depth, width in ([(3, 2, 12), (4, 2, 14), (5, 1, 60), (3, 3, 6), (6, 1, 60), (4, 1, 80), (5, 2, 12), (7, 1, 40)] * (3 if ctx.thorough else 1)):
        cand = [q for _, q in gen.sample_positions(rng, [size], 1, per_game=6, constructed_per_size=1) if q.ply >= 2 and q.winner()[1] is None]
        for pos in rng.sample(cand, min(2, len(cand))):
            for style in ("temp", "rebind"):
                out.append({"root": ser.pos_str(pos), "depth": depth, "width": width, "seed": rng.randrange(1 << 30), "style": style})
    return out


def _walk_run(ctx, walk):
    """[(key, message)]: all_moves() of every position of the walk against the driver's generator"""
    import random

    import tak

    rng = random.Random(walk["seed"])
    seen = []

    def rec(pos, d, path):
        try:
            G = pos.all_moves()
        except Exception as e:
            seen.append((ser.pos_str(pos), "crash " + type(e).__name__, path))
            return
        seen.append((ser.pos_str(pos), G, path))
        if d == 0:
            return
        ms = list(G)
        rng.shuffle(ms)
        n = 0
        if walk.get("style") == "rebind" and d == 1:
            # `for m in moves: child = pos.move(m); ... child.all_moves()`: each child is dropped when
            # the name is bound to the next one
            child = None
            for m in ms:
                if n >= walk["width"]:
                    break
                try:
                    child = pos.move(m)
                except tak.IllegalMove:
                    continue
                n += 1
                try:
                    seen.append((ser.pos_str(child), child.all_moves(), path + [mv(m)]))
                except Exception as e:
                    seen.append((ser.pos_str(child), "crash " + type(e).__name__, path + [mv(m)]))
            return
        for m in ms:
            if n >= walk["width"]:
                break
            try:
                rec(pos.move(m), d - 1, path + [mv(m)])  # the child lives for this call only
            except tak.IllegalMove:
                continue
            n += 1

    rec(ser.parse_pos(walk["root"].split(" ")), walk["depth"], [])
    outs = driver.run_lines(["gen allmoves " + ps for ps, _, _ in seen])
    bad = []
    for (ps, G, path), o in zip(seen, outs):
        if ctx is not None:
            ctx.evaluated()
            ctx.count("walk:positions")
        want = sorted(split_moves(o))
        if isinstance(G, str):
            bad.append(("legal-move-not-generated", "walk from [%s] after %s: all_moves() on [%s] raised (%s)" % (walk["root"], path, ps, G)))
            continue
        got = sorted(mv(m) for m in G)
        if got == want:
            continue
        pos = ser.parse_pos(ps.split(" "))
        cands = list(collections.OrderedDict((m, None) for m in list(gen.wellformed_moves(pos.size)) + list(G)))
        r = {"pos": pos, "ps": ps, "G": G, "gerr": None, "cands": cands, "acc": "".join(_accept(pos, m) for m in cands),
             "legal": driver.run_lines(["gen legalmask %s %s" % (ps, ";".join(mv(m) for m in cands))])[0]}
        hits = _predicate(r)
        where = "walk from [%s], position [%s] reached by %s (the %d-th position listed in this walk)" % (walk["root"], ps, path, len(bad) + 1)
        if hits:
            bad.append((hits[0][0], "%s: %s; in isolation the same position %s" % (where, hits[0][2], "fails too" if _predicate(_reobserve(ctx, ps)) else "is listed correctly")))
        else:
            bad.append((None, "%s: all_moves() differs from the generator of the model (%d vs %d moves) but C03 holds" % (where, len(got), len(want))))
    return bad


def tie(ctx):
    divs = []
    _STATE["obs"] = []
    _STATE["tables"] = {}
    _STATE["reach"] = []
    _STATE["walk"] = []
    for walk in _walks(ctx):
        for key, msg in _walk_run(ctx, walk):
            if key is not None:
                _STATE["walk"].append((walk, key, msg))
            d = Divergence("corr.generator.walk", {"walk": walk}, msg, "all_moves() = the model's generator as a multiset")
            d.explained = key is not None
            divs.append(d)
    for sess in _reach_sessions(ctx):
        for key, msg in _reach_run(ctx, sess):
            _STATE["reach"].append((sess, key, msg))
            divs.append(Divergence("search.reach", {"reach": sess}, msg, "children = legal table moves"))
    ill_n = 300 if ctx.thorough else 100
    batch = []

    def flush():
        for r in _observe(ctx, batch, ill_n):
            _tie_one(ctx, r, divs)
            # keep what the search needs, drop the bulky parts of uneventful records later
            _STATE["obs"].append(r)
        del batch[:]

    for label, pos in _positions(ctx):
        batch.append((label, pos))
        if len(batch) >= 12:
            flush()
    flush()

    # the move-id tables, as sets (C07 owns the numbering)
    lines = ["gen table %d" % n for n in TABLE_SIZES]
    for n, o in zip(TABLE_SIZES, driver.run_lines(lines)):
        T = _STATE["tables"].get(n)
        if T is None:
            T = _STATE["tables"][n] = _impl_table(n) or []
        a, b = sorted(mv(m) for m in T), sorted(split_moves(o))
        ctx.evaluated(len(b))
        if a != b:
            da = sorted(set(a) - set(b))[:5]
            db = sorted(set(b) - set(a))[:5]
            divs.append(Divergence("corr.tables", {"size": n}, "len %d, only in impl %s" % (len(a), da), "len %d, only in model %s" % (len(b), db)))
    obs = _STATE["obs"]
    for r in obs[:: max(1, len(obs) // 5)]:
        ctx.sample({"pos": r["ps"], "generated": len(r["G"]), "legal": r["legal"].count("1"), "candidates": len(r["cands"])})
    return divs


def _tie_one(ctx, r, divs):
    size = r["pos"].size
    ctx.count("pos:size%d" % size)
    ctx.count("pos:" + r["label"].split(":")[0])
    if r["pos"].ply < 2:
        ctx.count("pos:opening")
    g_impl = [mv(m) for m in r["G"]]
    g_model = split_moves(r["model_G"])
    ctx.evaluated(len(g_impl))
    if r["gerr"]:
        divs.append(Divergence("corr.generator", {"pos": r["ps"]}, r["gerr"], "%d moves" % len(g_model)))
    elif sorted(g_impl) != sorted(g_model):
        ci, cm = collections.Counter(g_impl), collections.Counter(g_model)
        divs.append(
            Divergence(
                "corr.generator",
                {"pos": r["ps"]},
                "len %d, extra %s" % (len(g_impl), sorted((ci - cm).elements())[:6]),
                "len %d, extra %s" % (len(g_model), sorted((cm - ci).elements())[:6]),
            )
        )
    elif g_impl != g_model:
        ctx.count("generator-order-differs(info)")
    nlegal = 0
    for m, a, l in zip(r["cands"], r["acc"], r["legal"]):
        ctx.evaluated()
        expect = "1" if l in "12" else "0"
        if l == "1":
            nlegal += 1
            ctx.nontrivial(r["ps"] + "|" + mv(m))
        if a != expect:
            divs.append(Divergence("corr.move", {"pos": r["ps"], "move": mv(m)}, {"1": "accepted", "0": "illegal", "X": "crash"}[a], "legal" if expect == "1" else "illegal"))
    ctx.count("legal-moves", nlegal)
    ctx.count("generated-moves", len(g_impl))
    idx = {m: i for i, m in enumerate(r["cands"])}
    ctx.count("generated-but-illegal(permitted superset)", sum(1 for m in r["G"] if r["legal"][idx[m]] != "1"))
    if nlegal == 0:
        ctx.count("pos:no-legal-move")


# ------------------------------------------------------------------ the property on the implementation's data


def _predicate(r):
    """C03 on one observed position.  `r['legal']` is the driver's verdict per candidate
    ('1' = legal and plain).  Returns a list of (key, move_text, message)."""
    size = r["pos"].size
    out = []
    if r["gerr"]:
        out.append(("legal-move-not-generated", None, "all_moves() raised: " + r["gerr"]))
        return out
    cnt = collections.Counter(r["G"])
    legal = [m for m, l in zip(r["cands"], r["legal"]) if l == "1"]
    for m in legal:
        if cnt[m] == 0:
            out.append(("legal-move-not-generated", mv(m), "legal move [%s] is not in all_moves()" % mv(m)))
    for m, c in cnt.items():
        if c > 1:
            out.append(("duplicate-generated", mv(m), "all_moves() lists [%s] %d times" % (mv(m), c)))
    if size in TABLE_SIZES:
        for m in cnt:
            if not _has_id(size, m):
                out.append(("generated-not-in-table", mv(m), "all_moves() lists [%s], which has no move id for size %d" % (mv(m), size)))
        for m in legal:
            if not _has_id(size, m):
                out.append(("legal-not-in-table", mv(m), "legal move [%s] has no move id for size %d" % (mv(m), size)))
        T = _STATE["tables"].get(size)
        if T is None:
            T = _STATE["tables"][size] = _impl_table(size) or []
        idx = {m: i for i, m in enumerate(r["cands"])}
        for m in T:
            i = idx.get(m)
            if i is None:
                continue
            a, l = r["acc"][i], r["legal"][i]
            if a == "1" and l == "0":
                out.append(("table-accepts-illegal", mv(m), "table entry [%s] is accepted by Position.move but is not legal" % mv(m)))
            elif a != "1" and l == "1":
                out.append(("table-refuses-legal", mv(m), "table entry [%s] is legal but Position.move %s" % (mv(m), "refuses it" if a == "0" else "crashes")))
    return out


def _reobserve(ctx, ps, extra=()):
    pos = ser.parse_pos(ps.split(" "))
    recs = _observe(ctx, [("replay", pos)], 0)
    r = recs[0]
    if extra:
        # make sure the named moves are among the candidates
        missing = [m for m in extra if m not in r["cands"]]
        if missing:
            r["cands"] += missing
            r["acc"] += "".join(_accept(pos, m) for m in missing)
            r["legal"] = driver.run_lines(["gen legalmask %s %s" % (ps, ";".join(mv(m) for m in r["cands"]))])[0]
    return r


def _shrink(ctx, ps, key, mtxt):
    """empty every square whose content does not matter for this failure"""
    toks = ps.split(" ")
    board = toks[6].split(",")
    extra = [parse_mv(mtxt)] if mtxt else []

    def fails(b):
        p2 = " ".join(toks[:6] + [",".join(b)])
        r = _reobserve(ctx, p2, extra)
        hits = [h for h in _predicate(r) if h[0] == key and (mtxt is None or h[1] == mtxt)]
        return (p2, hits[0]) if hits else None

    for i in range(len(board)):
        if board[i] == "_":
            continue
        b2 = list(board)
        b2[i] = "_"
        if fails(b2):
            board = b2
    return fails(board)


def search(ctx, divergences, broken):
    by_key = {}
    bad_pos = set()
    bad_table_sizes = set()
    for r in _STATE["obs"]:
        for key, mtxt, msg in _predicate(r):
            by_key.setdefault(key, []).append((r["ps"], mtxt, msg))
            bad_pos.add(r["ps"])
            if key in ("generated-not-in-table", "legal-not-in-table", "table-accepts-illegal", "table-refuses-legal"):
                bad_table_sizes.add(r["pos"].size)
    for d in divergences:
        if d.component == "corr.tables":
            d.explained = d.input.get("size") in bad_table_sizes
        elif d.component == "search.reach":
            d.explained = True
        elif d.component == "corr.generator.walk":
            pass
        elif d.input.get("pos") in bad_pos:
            d.explained = True
    vs = []
    reach = {}
    for sess, key, msg in _STATE.get("reach", []):
        reach.setdefault(key, []).append((sess, msg))
    for key, lst in reach.items():
        lst.sort(key=lambda c: len(c[0]["positions"]))
        sess, msg = lst[0]
        vs.append(Violation(key, "%s (%d such findings in this run)" % (msg, len(lst)), {"reach": sess, "key": key}))
    walks = {}
    for walk, key, msg in _STATE.get("walk", []):
        walks.setdefault(key, []).append((walk, msg))
    for key, lst in walks.items():
        walk, msg = lst[0]
        vs.append(Violation(key, "%s (%d such findings in this run)" % (msg, len(lst)), {"walk": walk, "key": key}))
    for key, lst in by_key.items():
        lst.sort(key=lambda c: (len(c[0]), c[0], c[1] or ""))
        ps, mtxt, msg = lst[0]
        try:
            s = _shrink(ctx, ps, key, mtxt)
            if s:
                ps, (_, mtxt, msg) = s
        except Exception as e:  # shrinking is best effort
            ctx.note("shrink failed: %r" % e)
        vs.append(
            Violation(
                key,
                "pos=[%s]: %s (%d such cases in %d positions of this run)" % (ps, msg, len(lst), len({c[0] for c in lst})),
                {"pos": ps, "move": mtxt, "key": key},
            )
        )
    if not vs and divergences:
        ctx.note("C03 predicate holds on every observed position; %d divergence(s) from the model left unexplained" % len(divergences))
    return vs


def replay(ctx, data):
    r = data.get("replay", data)
    if "reach" in r:
        return [Violation(k, msg, r) for k, msg in _reach_run(ctx, r["reach"])]
    if "walk" in r:
        return [Violation(k, msg, r) for k, msg in _walk_run(ctx, r["walk"]) if k is not None]
    ps, mtxt, key = r["pos"], r.get("move"), r.get("key")
    rec = _reobserve(ctx, ps, [parse_mv(mtxt)] if mtxt else [])
    ctx.evaluated(len(rec["cands"]))
    hits = _predicate(rec)
    if key:
        hits = [h for h in hits if h[0] == key]
    seen, vs = set(), []
    for k, m, msg in hits:
        if k not in seen:
            seen.add(k)
            vs.append(Violation(k, "pos=[%s]: %s" % (ps, msg), {"pos": ps, "move": m, "key": k}))
    return vs

"""C17 — served evaluations reach the right requester under any arrival schedule.

The REAL `Server.worker_loop` / `Server.Evaluate` (tak/model/server.py) run unmodified on a
virtual-time event loop (harness/lib/vloop.py) under scripted arrival schedules and model
latencies.  Everything is observed from outside: the server's queue is a tracing subclass of
`asyncio.Queue`, the model is a callable of the harness, each `Evaluate` call is a task of the
harness.  The recorded trace is validated by the Lean driver as an execution of the transition
system the C17 theorems are about (`server trace`), the responses the callers actually received
are compared with what that execution delivers, and — when anything differs — the property
predicates themselves are evaluated by the driver on the observed deliveries (`server judge`).

grpc / protobuf are absent from the sandbox: `harness/bootstrap/takverif_stubs.py` provides
plain-data stand-ins, so the real transport and wire format are OUTSIDE everything claimed here.
"""
import asyncio
import json

from ..check import Divergence, Violation
from ..lib import driver, gen, ser
from ..lib.vloop import VirtualTimeLoop

ID = "C17"
LEAN_MODULES = ["TakVerif.Props.C17"]
NEEDS_STUBS = True
RULE = (
    "schedules (arrival times in µs, token rows of mixed length, per-batch model latency 0..50 ms) enumerated and "
    "drawn from VERIF_SEED: bursts of 1..100 and 161..260 callers (below/at/above the batch threshold 8, above the queue "
    "depth 80 → back-pressure, above 2·80 → re-parked callers), trickles spaced 0.5/0.99/1.0/1.01/2 ms around the 1 ms "
    "gather timeout, arrivals landing during and exactly at the end of a model call, random mixes, and closed-loop load (N callers "
    "re-submitting as soon as answered, a majority row length, other lengths injected after a few model runs); rows include zeros inside and at the end, "
    "exact duplicates, and families that are equal once zero-padded (row B = row A ++ [0]*k; for the real network: real encodings of "
    "empty / sparsely filled boards of different sizes with equal custom reserves, e.g. Config(size=3, pieces=15) vs default 4x4). One evaluation = one "
    "schedule run through the real Server on the virtual-time loop with (a) the fingerprinting model or (b) a real "
    "xformer.Transformer+PolicyValue compared with local ModelWrapper.evaluate (1e-5), its trace validated and its "
    "deliveries compared by the Lean driver (the shape and row order of the model call are NOT compared); plus GRPCNetwork.evaluate end to end through the in-process stub channel "
    "and the float32 byte codec against the Lean codec; on every run the k+1 bound of C17_fifo_progress is evaluated by the driver on the "
    "observed timeline (entered queue / model call completed / caller answered; key starved); client SESSIONS: one long-lived GRPCNetwork + "
    "server while the served module's weights change in place (SGD step, load_state_dict, in-place add), every reply compared with "
    "ModelWrapper.evaluate on the current weights (keys client-stale, not-local-equal). Non-trivial = a run with at least one batch of two or more "
    "rows, or with a parked caller; distinct by schedule text."
)
TRUSTED = [
    "modelled, not verified: asyncio.Queue (FIFO, bounded, put parks the caller while full), asyncio.Event, "
    "asyncio.wait_for on CPython 3.12; torch row-independence of the batched forward pass (C16)",
    "virtual-time event loop harness/lib/vloop.py (SelectorEventLoop subclass: time(), clock jump, executor by call_later)",
    "stand-ins for grpc and the generated protobuf modules (harness/bootstrap/takverif_stubs.py): the real gRPC "
    "transport, protobuf wire format and float width are outside the claim",
]
ASSUMPTIONS = [
    "single event-loop thread; the executor thread pool, thread scheduling and event-loop starvation are not exhibited "
    "(run_in_executor is replaced by a scripted latency)",
    "progress for callers parked by back-pressure is proved under head-first admission (C17_fifo_progress_putters); "
    "asyncio can let a fresh put overtake a woken parked caller — the runs count how often (histogram key overtake)",
    "little-endian host for ndarray.tobytes()/np.frombuffer (checked against the Lean codec on every run)",
]

FP_VOCAB = 32  # Tak.Server.fpVocab
FP_WIDTH = 288  # widest row the fingerprinting model accepts (late-game 8x8 positions reach ~260 tokens)
TOL = 1e-5

_state = {}


# --------------------------------------------------------------------------------------------
# implementation under test, observed from outside
# --------------------------------------------------------------------------------------------


def _impl():
    if "srv" not in _state:
        import numpy as np
        import torch

        torch.set_num_threads(1)
        from tak.model import encoding, grpc as tgrpc, heads, server, wrapper
        from tak.proto import analysis_pb2
        import xformer.model as xm

        _state.update(
            srv=server, grpc=tgrpc, wrapper=wrapper, encoding=encoding, heads=heads, xm=xm, pb2=analysis_pb2,
            torch=torch, np=np,
        )
    return _state


class Tracer:
    def __init__(self, loop):
        self.loop = loop
        self.events = []  # event strings of the line protocol
        self.times = []
        self.ids = {}  # id(QueueRequest) -> request id
        self.keep = []  # keeps the QueueRequests alive so that id() stays unique
        self.task_ids = {}  # client task -> request id
        self.tokens = {}
        self.batches = []
        self.pending_done = 0
        self.timeline = []  # Q:<id> entered the queue, D model call completed, X:<id> caller answered

        self.cur, self.running, self.left = [], [], set()
        self.done_ids = set()  # requests whose batch has been evaluated

    def rec(self, ev):
        self.events.append(ev)
        self.times.append(self.loop.time())
        if ev.startswith("T:"):
            self.cur.append(int(ev[2:]))
        elif ev.startswith("R:"):
            self.running, self.cur = self.cur, []
        if ev == "D":
            self.timeline.append("D")
            # a request whose caller left keeps its place in the line until its batch is done
            for i in self.running:
                if i in self.left:
                    self.timeline.append("X:%d" % i)
            self.done_ids.update(self.running)
            self.running = []


class TracingMixin:
    """The server's OWN queue object, observed from outside: `put` called (A), a parked `put`
    entering (E), an item leaving (T).  `Queue.get()` and `Queue.put()` go through
    `get_nowait`/`put_nowait`.  Mixed into the class of the instance the server created, so the
    queue discipline and capacity stay the implementation's."""

    def _announce(self, item):
        """first contact of a request with the queue = its arrival"""
        tr = self.tracer
        if id(item) in tr.ids:
            return tr.ids[id(item)]
        i = tr.task_ids.get(asyncio.current_task())
        if i is None:
            i = 100000 + len(tr.ids)  # a put that no caller of the harness made
        tr.ids[id(item)] = i
        tr.keep.append(item)
        toks = tr.tokens.get(i, [])
        tr.rec("A:%d:%s" % (i, ".".join(map(str, toks)) if toks else "-"))
        return i

    async def put(self, item):
        waited = self.full()
        i = self._announce(item)
        await super().put(item)
        if waited:
            self.tracer.rec("E:%d" % i)

    def put_nowait(self, item):
        i = self._announce(item)
        super().put_nowait(item)
        self.tracer.timeline.append("Q:%d" % i)

    def get_nowait(self):
        item = super().get_nowait()
        self.tracer.rec("T:%d" % self.tracer.ids.get(id(item), 999999))
        return item


def instrument_queue(q, tracer):
    cls = q.__class__
    key = ("TQ", cls)
    if key not in _state:
        _state[key] = type("Tracing" + cls.__name__, (TracingMixin, cls), {})
    q.__class__ = _state[key]
    q.tracer = tracer
    return q


class TracedModel:
    """the `model` the server calls: records the invocation (R:<rows>) and delegates"""

    def __init__(self, inner, tracer):
        self.inner = inner
        self.tracer = tracer

    def __getattr__(self, name):
        # everything else (cfg, parameters, eval, …) is the served model's own
        return getattr(object.__getattribute__(self, "inner"), name)

    def __call__(self, positions, mask):
        tr = self.tracer
        tr.rec("R:%d" % positions.shape[0])
        tr.batches.append(int(positions.shape[0]))
        out = self.inner(positions, mask)
        if tr.loop.in_executor_call:
            tr.pending_done += 1  # D is recorded when the (virtual) executor delivers
        else:
            tr.rec("D")  # the model was called on the loop thread: it has returned now
        return out


def _fingerprint_model():
    """Row output identifies the tokens the row was computed FROM, as a network would see them:
    logits 0 at index i*FP_VOCAB+tok_i for every column i the mask leaves visible, -inf elsewhere
    (the server's soft-max turns that into a vector whose support is exactly those indices);
    value = sum (i+1)*tok_i over visible columns.  A pad column left visible, a real column
    hidden, or a row built from another request's tokens all change the output."""
    torch = _impl()["torch"]

    def model(positions, mask):
        B, L = positions.shape
        keep = ~mask
        logits = torch.full((B, FP_WIDTH * FP_VOCAB), float("-inf"))
        cols = torch.arange(L).unsqueeze(0).expand(B, L)
        idx = cols * FP_VOCAB + positions
        for b in range(B):
            logits[b, idx[b][keep[b]]] = 0.0
        values = ((cols + 1) * positions * keep).sum(-1).to(torch.float32)
        return {"moves": logits, "values": values}

    return model


REAL_CTX = [96, 100, 97]  # context lengths of the served test models: a multiple of 8, of 4, odd


def _real_model(seed, eval_mode, pe):
    key = ("real", seed, eval_mode, pe)
    if key in _state:
        return _state[key]
    S = _impl()
    torch, xm = S["torch"], S["xm"]
    cfg = xm.Config(
        n_vocab=256, n_layer=2, d_model=16, d_head=8, n_ctx=REAL_CTX[seed % 3], positional_encoding=pe,
        output_head=S["heads"].PolicyValue, autoregressive_mask=False,
    )
    g = torch.Generator().manual_seed(1000 + seed)
    model = xm.Transformer(cfg)
    with torch.no_grad():
        for p in model.parameters():
            # large random weights: different positions must evaluate to clearly different outputs
            p.copy_(torch.randn(p.shape, generator=g) * (0.6 if p.dim() > 1 else 0.3))
    if eval_mode:
        model.eval()
    _state[key] = model
    return model


def _fp_of_response(resp):
    np = _impl()["np"]
    probs = np.frombuffer(resp.move_probs_bytes, dtype=np.float32)
    sup = np.nonzero(probs)[0].tolist()
    v = float(resp.value)
    vs = str(int(v)) if v == v and abs(v) < 1e15 and v == int(v) else repr(v)
    return "%s/%s" % (vs, ".".join(map(str, sup)) if sup else "-")


def _payloads(sched):
    """what each request asks about (token row, or position text), per request id: the open-loop
    arrivals first, then the requests of the closed-loop clients, client by client"""
    out = [a[1] for a in sched["arrivals"]]
    for lp in sched.get("loops", []):
        out += list(lp[1])
    return out


def _tokens_of(sched):
    """token rows per request id"""
    if sched["mode"] == "fp":
        return [list(p) for p in _payloads(sched)]
    enc = _impl()["encoding"]
    cache = {}
    out = []
    for p in _payloads(sched):
        if p not in cache:
            cache[p] = enc.encode(ser.parse_pos(p.split(" ")))
        out.append(cache[p])
    return out


def _local_evals(sched, model):
    """ModelWrapper.evaluate per distinct position of a `cls` schedule"""
    S = _impl()
    w = S["wrapper"].ModelWrapper(model=model)
    out = {}
    for p in _payloads(sched):
        if p not in out:
            probs, value = w.evaluate(ser.parse_pos(p.split(" ")))
            out[p] = (probs.numpy(), float(value))
    return out


def _close_probs(resp_probs, local):
    np = _impl()["np"]
    return resp_probs.shape == local[0].shape and float(np.max(np.abs(resp_probs - local[0]))) <= TOL


def _close_value(resp_value, local):
    return abs(resp_value - local[1]) <= TOL


def _close(resp_probs, resp_value, local):
    return _close_probs(resp_probs, local) and _close_value(resp_value, local)


def run_schedule(sched):
    """Run one schedule through the real server.  Returns the observation dict."""
    S = _impl()
    srv, np = S["srv"], S["np"]
    lat = sched.get("latency_us") or [0]
    loop = VirtualTimeLoop(latency=lambda n: lat[n % len(lat)] / 1e6)
    tracer = Tracer(loop)

    def on_done(n):
        if tracer.pending_done:
            tracer.pending_done -= 1
            tracer.rec("D")

    loop.on_executor_done = on_done
    toks = _tokens_of(sched)
    tracer.tokens = dict(enumerate(toks))
    if sched["mode"] == "fp":
        inner = raw = _fingerprint_model()
    else:
        raw = _real_model(sched.get("model_seed", 0), sched.get("eval_mode", False), sched.get("pe", "sin"))
        inner = raw
    server = srv.Server(model=TracedModel(inner, tracer))
    cap = server.queue.maxsize
    instrument_queue(server.queue, tracer)
    deliveries = []
    crash = None

    async def client(ids):
        # one caller; a closed-loop caller submits its next request as soon as it is answered
        for i in ids:
            tracer.task_ids[asyncio.current_task()] = i
            req = S["pb2"].EvaluateRequest(position=toks[i])
            resp = await server.Evaluate(req, None)
            deliveries.append((i, resp))
            tracer.timeline.append("X:%d" % i)

    def start(*ids):
        t = loop.create_task(client(ids))
        clients.append(t)
        task_of[ids[0]] = t

    def cancel(i):
        # the caller of (open-loop) request i goes away: its RPC is cancelled
        t = task_of.get(i)
        if t is None or t.done():
            return  # already answered (or never submitted): nothing is abandoned
        t.cancel()
        if i in tracer.ids.values():
            # the server may already have assigned this request's answer (its batch is done) while
            # the caller has not resumed yet: the model delivers at completion, so what the server
            # assigned is read off the request object itself
            item = next((it for it in tracer.keep if tracer.ids.get(id(it)) == i), None)
            assigned = item is not None and getattr(item, "probs", None) is not None
            if assigned:
                try:
                    deliveries.append((i, S["pb2"].EvaluateResponse(move_probs_bytes=item.probs.tobytes(), value=item.value)))
                    tracer.timeline.append("X:%d" % i)
                except Exception:
                    pass
                tracer.rec("L:%d" % i)
            elif i in tracer.done_ids:
                # the model call has returned (D is recorded when the executor delivers) but the
                # worker has not resumed to hand the answers out: the caller left BEFORE the model's
                # `complete`, which is the hand-out
                k = max(idx for idx, e in enumerate(tracer.events) if e == "D")
                tracer.events.insert(k, "L:%d" % i)
                tracer.times.insert(k, tracer.times[k])
                tracer.timeline.append("X:%d" % i)
            else:
                tracer.rec("L:%d" % i)
            tracer.left.add(i)
            left.add(i)
        else:
            never.add(i)  # cancelled before its first step: the request was never made

    clients = []
    task_of, left, never = {}, set(), set()
    asyncio.set_event_loop(loop)
    try:
        worker = loop.create_task(server.worker_loop())
        for i, a in enumerate(sched["arrivals"]):
            loop.call_at(a[0] / 1e6, start, i)
        for i, t in sched.get("cancels", []):
            loop.call_at(t / 1e6, cancel, i)
        nxt = len(sched["arrivals"])
        for lp in sched.get("loops", []):
            loop.call_at(lp[0] / 1e6, start, *range(nxt, nxt + len(lp[1])))
            nxt += len(lp[1])
        idle = loop.run_until_idle()
        end_time = loop.time()
        if worker.done() and not worker.cancelled() and worker.exception() is not None:
            crash = "worker: " + type(worker.exception()).__name__
        for t in clients:
            if t.done() and not t.cancelled() and t.exception() is not None:
                crash = crash or ("client: " + type(t.exception()).__name__)
        for t in [worker] + clients:
            if not t.done():
                t.cancel()
        loop.run_until_idle()
    finally:
        asyncio.set_event_loop(None)
        loop.close()

    obs = {
        "cap": cap, "mode": sched["mode"], "events": tracer.events, "idle": bool(idle), "crash": crash,
        "batches": tracer.batches, "end_ms": round(end_time * 1000, 4), "n": len(toks) - len(left) - len(never), "timeline": tracer.timeline,
        "left": sorted(left), "never_submitted": sorted(never),
        "batch_times_ms": [round(t * 1000, 4) for e, t in zip(tracer.events, tracer.times) if e.startswith("R:")],
    }
    if sched["mode"] == "fp":
        obs["deliveries"] = [(i, _fp_of_response(r)) for i, r in deliveries]
    else:
        local = _local_evals(sched, raw)
        first = {}
        by_tokens = {}
        for i, p in enumerate(_payloads(sched)):
            if i in never:
                continue  # a request that was never made is not an arrival of the trace
            first.setdefault(tuple(toks[i]), i)
            by_tokens.setdefault(tuple(toks[i]), p)
        dl = []
        for i, r in deliveries:
            probs = np.frombuffer(r.move_probs_bytes, dtype=np.float32)
            value = float(r.value)
            own = tuple(toks[i])

            def classify(ok):
                # which position's LOCAL evaluation does this component equal (own first)?
                if ok(local[by_tokens[own]]):
                    return "c%d" % first[own]
                for tk, ps in by_tokens.items():
                    if tk != own and ok(local[ps]):
                        return "c%d" % first[tk]
                return "cnone"

            dl.append((i, classify(lambda l: _close_probs(probs, l)) + "/" + classify(lambda l: _close_value(value, l))))
        obs["deliveries"] = dl
    return obs


# --------------------------------------------------------------------------------------------
# driver lines
# --------------------------------------------------------------------------------------------


def trace_line(obs):
    return "server trace %d %s %s" % (obs["cap"], obs["mode"], " ".join(obs["events"]))


def judge_line(obs):
    return "server judge %d %s %s | %s | %d" % (
        obs["cap"], obs["mode"], " ".join(obs["events"]),
        " ".join("%d=%s" % d for d in obs["deliveries"]), 1 if obs["idle"] else 0,
    )


def progress_line(obs):
    return "server progress " + " ".join(obs["timeline"])


def impl_summary(obs):
    """canonical text of what the callers received: order inside a batch is not part of the property"""
    got = sorted(obs["deliveries"])
    return "pending=%d %s" % (obs["n"] - len({i for i, _ in got}), " ".join("%d=%s" % d for d in got))


def model_summary(line):
    if not line.startswith("ok "):
        return line
    parts = line.split(" ")
    pend = [p for p in parts if p.startswith("pending=")][0]
    ans = sorted((int(p.split("=")[0]), p.split("=")[1]) for p in parts[3:])
    return "%s %s" % (pend, " ".join("%d=%s" % d for d in ans))


# --------------------------------------------------------------------------------------------
# schedules
# --------------------------------------------------------------------------------------------


def _tok(rng, zero_p=0.0):
    """token 0 is BOTH the value the server pads with and a legal token (Token.EMPTY)"""
    return 0 if rng.random() < zero_p else rng.randint(1, FP_VOCAB - 1)


def _row(rng, maxlen=40, zero_p=0.0):
    r = rng.random()
    n = 1 if r < 0.05 else (maxlen if r < 0.1 else rng.randint(1, maxlen))
    return [_tok(rng, zero_p) for _ in range(n)]


def _zero_family(rng, n):
    """rows that become EQUAL once padded with zeros to a common width: a base row, its
    zero-extensions base ++ [0]*k, exact copies, rows ending in zeros, all-zero rows of several
    lengths, plus near misses (one token changed, a non-zero token after the zeros)"""
    rows = []
    while len(rows) < n:
        base = _row(rng, rng.choice([1, 3, 8, 20]), zero_p=rng.choice([0.0, 0.3]))
        if rng.random() < 0.15:
            base = [0] * rng.randint(1, 6)
        fam = [base]
        for _ in range(rng.randint(1, 5)):
            k = rng.randint(1, min(16, 40 - len(base)))
            kind = rng.random()
            if kind < 0.55:
                fam.append(base + [0] * k)  # zero-extension
            elif kind < 0.7:
                fam.append(list(base))  # exact copy: same tokens, same length
            elif kind < 0.8:
                fam.append(base + [0] * k + [_tok(rng)])  # differs only after the zeros
            elif kind < 0.9 and len(base) > 1:
                fam.append(base[:-1])  # a prefix
            else:
                b2 = list(base)
                b2[rng.randrange(len(b2))] = _tok(rng, 0.3)
                fam.append(b2 + [0] * rng.randint(0, k))
        rows += fam
    rows = rows[:n]
    rng.shuffle(rows)
    return rows


def _rows(rng, n, style=None):
    style = style or rng.choice(["mixed", "zeros", "zero-family", "zero-family", "equal", "distinct-lengths", "short"])
    if style == "zero-family":
        return _zero_family(rng, n)
    if style == "zeros":
        return [_row(rng, zero_p=0.4) for _ in range(n)]
    if style == "equal":
        ln = rng.randint(1, 30)
        zp = rng.choice([0.0, 0.3])
        return [[_tok(rng, zp) for _ in range(ln)] for _ in range(n)]
    if style == "distinct-lengths":
        return [[_tok(rng) for _ in range(1 + (i % 40))] for i in range(n)]
    if style == "short":
        return [_row(rng, 3, zero_p=0.3) for _ in range(n)]
    return [_row(rng) for _ in range(n)]


LAT = [0, 1, 100, 500, 990, 1000, 1010, 2500, 10000, 50000]
GAPS = [500, 990, 1000, 1010, 2000]


def fp_schedules(ctx):
    rng = ctx.rng
    thorough = ctx.thorough

    def sched(times, rows, lat):
        return {"mode": "fp", "arrivals": [[int(t), r] for t, r in zip(times, rows)], "latency_us": lat}

    # 1. bursts at t=0
    sizes = list(range(1, 101))
    for n in sizes:
        for lat in ([0], [2500], [rng.choice(LAT)]) if thorough else ([rng.choice([0, 2500, rng.choice(LAT)])],):
            yield "burst", sched([0] * n, _rows(rng, n), lat)
    # 2. bursts above twice the queue depth (parked callers are re-parked), with a late joiner
    for n in ([161, 170, 200, 260] if thorough else [161, rng.randint(162, 260)]):
        lat = [rng.choice([1000, 2500, 50000])]
        yield "burst2x", sched([0] * n + [lat[0]], _rows(rng, n + 1), lat)
    # 2b. full queues of LONG rows: late-game positions on 7x7 / 8x8 encode to 100-260 tokens, so a
    #     gathered batch holds 10^4 and more tokens (rows x padded width) - mixed with short ones
    for n in ([40, 64, 80, 81, 100, 130] if thorough else [80, rng.choice([40, 100])]):
        for lat in ([0], [2500]) if thorough else ([rng.choice([0, 2500])],):
            rows = [[_tok(rng, 0.2) for _ in range(rng.randint(90, 260) if rng.random() < 0.85 else rng.randint(1, 40))] for _ in range(n)]
            yield "burst-long-rows", sched([0] * n, rows, lat)
    # 3. trickles around the gather timeout
    for gap in GAPS:
        for n in ([2, 3, 8, 9, 20, 40] if thorough else [2, rng.choice([3, 8]), rng.choice([9, 20])]):
            for lat in ([0], [rng.choice(LAT)]):
                yield "trickle", sched([i * gap for i in range(n)], _rows(rng, n), lat)
    # 4. a burst, then arrivals during / exactly at the end of the model call
    for _ in range(1500 if thorough else 200):
        n0 = rng.choice([1, 5, 8, 9, 30, 80, 85, 100])
        lat = [rng.choice([500, 1000, 2500, 10000, 50000])]
        k = rng.randint(1, 40)
        # first batch closes at 0 (n0 >= 8) or at 1000 µs (gather timeout); the call ends `lat` later
        ends = [lat[0], 1000 + lat[0], 2 * lat[0], 1000 + 2 * lat[0]]
        late = [rng.choice(ends + [rng.randint(0, 3 * lat[0] + 2000)]) for _ in range(k)]
        times = [0] * n0 + sorted(late)
        yield "during", sched(times, _rows(rng, len(times)), lat)
    # 5. random mixes: several bursts and trickles, per-batch latencies
    for _ in range(6000 if thorough else 600):
        times = []
        t = 0
        for _seg in range(rng.randint(1, 5)):
            kind = rng.random()
            if kind < 0.4:
                times += [t] * rng.choice([1, 2, 7, 8, 9, 20, 81, 100])
            elif kind < 0.7:
                gap = rng.choice(GAPS + [1, 100, 250])
                for _i in range(rng.randint(2, 15)):
                    times.append(t)
                    t += gap
            else:
                for _i in range(rng.randint(1, 25)):
                    t += rng.choice([0, 0, 1, 10, 333, 500, 999, 1000, 1001, 5000])
                    times.append(t)
            t += rng.choice([0, 100, 1000, 1001, 2500, 20000, 60000])
        lat = [rng.choice(LAT) for _ in range(rng.randint(1, 4))]
        yield "mix", sched(times, _rows(rng, len(times)), lat)


def leave_schedules(ctx):
    """Callers that go away (Model/ServerLeave.lean): while parked in `put` (bursts beyond the queue
    depth), while queued or gathered (before 1 ms), while the model runs, at the very moment the
    call ends, after they were answered.  `cancels`: [request index, time in µs]."""
    rng = ctx.rng
    pool = _state.get("positions") or []
    n_fp, n_real = (500, 40) if ctx.thorough else (70, 8)
    for k in range(n_fp + (n_real if pool else 0)):
        real = k >= n_fp
        shape = rng.choice(["burst", "burst", "parked", "trickle", "during"])
        lat = [rng.choice([500, 2500, 10000])]
        if shape == "burst":
            times = [0] * rng.choice([2, 3, 5, 8, 9, 20])
        elif shape == "parked":
            times = [0] * (rng.choice([82, 85]) if real else rng.choice([85, 100, 170]))
        elif shape == "trickle":
            gap = rng.choice(GAPS)
            times = [i * gap for i in range(rng.choice([3, 8, 12]))]
        else:
            times = [0] * rng.choice([2, 9]) + sorted(rng.randint(0, 3 * lat[0]) for _ in range(rng.randint(1, 10)))
        n = len(times)
        who = rng.sample(range(n), min(n, rng.choice([1, 1, 2, 3, max(1, n // 4)])))
        offs = [0, 1, 200, 500, 900, 999, 1000, 1001, 1500, lat[0] // 2 + 1000, lat[0], lat[0] + 1000, 3 * lat[0]]
        cancels = sorted(([i, times[i] + rng.choice(offs)] for i in who), key=lambda c: (c[1], c[0]))
        if real:
            yield "real-leave-" + shape, {
                "mode": "cls", "arrivals": [[int(t), rng.choice(pool)] for t in times], "latency_us": lat, "cancels": cancels,
                "model_seed": k % 3, "eval_mode": bool(k % 2), "pe": ["sin", "learned", "none"][k % 3],
            }
        else:
            yield "leave-" + shape, {"mode": "fp", "arrivals": [[int(t), r] for t, r in zip(times, _rows(rng, n))], "latency_us": lat, "cancels": cancels}


def loop_schedules(ctx):
    """Closed-loop load: N callers that re-submit as soon as they are answered (self-play workers),
    mostly rows of one length, and a few requests of another length injected after some model
    runs.  Open-loop bursts end before a starved request would show; here the model keeps answering."""
    rng = ctx.rng
    for k in range(300 if ctx.thorough else 36):
        n_clients = rng.choice([2, 3, 4, 4, 6, 8, 12, 20])
        per = rng.randint(4, 40 if n_clients <= 8 else 15)
        major = rng.choice([1, 3, 9, 15, 22])
        lat = [rng.choice([500, 1000, 2500, 10000])]
        mixed_p = rng.choice([0.0, 0.0, 0.1, 0.5])
        loops = []
        for _c in range(n_clients):
            rows = []
            for _j in range(per):
                ln = major if rng.random() >= mixed_p else rng.randint(1, 30)
                rows.append([_tok(rng, 0.2) for _ in range(ln)])
            loops.append([rng.choice([0, 0, 0, 100, 1000, lat[0]]), rows])
        arrivals = []
        for _i in range(rng.choice([0, 1, 1, 2, 3])):
            ln = rng.choice([x for x in (1, 2, 5, 16, 31) if x != major])
            t = rng.randint(1, 8) * lat[0] + rng.choice([0, 1, 500, 1000, 1500])
            arrivals.append([t, [_tok(rng, 0.2) for _ in range(ln)]])
        yield "closed-loop", {"mode": "fp", "arrivals": sorted(arrivals), "loops": loops, "latency_us": lat}


def real_loop_schedules(ctx):
    """the same with the real Transformer: callers asking about 3x3 positions, a 4x4/5x5 one injected"""
    rng = ctx.rng
    pool = _state.get("positions") or []
    small = [p for p in pool if p.startswith("3 ")] or pool
    other = [p for p in pool if not p.startswith("3 ")] or pool
    for k in range(24 if ctx.thorough else 4):
        n_clients = rng.choice([2, 4, 6])
        per = rng.randint(4, 12)
        lat = [rng.choice([2500, 10000])]
        loops = [[0, [rng.choice(small) for _ in range(per)]] for _c in range(n_clients)]
        arrivals = sorted([rng.randint(1, 4) * lat[0] + rng.choice([0, 500, 1500]), rng.choice(other)] for _i in range(rng.choice([1, 2])))
        yield "real-closed-loop", {
            "mode": "cls", "arrivals": arrivals, "loops": loops, "latency_us": lat,
            "model_seed": k % 3, "eval_mode": bool(k % 2), "pe": ["sin", "learned", "none"][k % 3],
        }


def _real_zero_family(rng):
    """Positions whose REAL encodings (encoding.encode) become equal once padded with zeros: the
    padding value 0 is also Token.EMPTY.  Same reserves and side to move, boards of different
    sizes that are empty (e.g. Config(size=3, pieces=15) vs the default 4x4, both 15/0), or that
    carry the same few single stones in the first flat squares and are empty elsewhere; plus a
    near miss (one more stone) and the same position at another ply of equal parity."""
    S, C = rng.choice([(15, 0), (10, 0), (21, 1), (30, 1), (12, 1)])
    ply = rng.choice([0, 0, 1, 2])
    k = rng.choice([0, 0, 1, 2, 3])
    head = [rng.choice("abdef") if rng.random() < 0.7 else "_" for _ in range(k)]
    out = []
    for n in rng.sample([3, 4, 5, 6, 7], rng.randint(2, 4)):
        board = head + ["_"] * (n * n - k)
        out.append("%d %d %d %d %d %d %s" % (n, S, C, S, C, ply, ",".join(board)))
        r = rng.random()
        if r < 0.25:
            b2 = list(board)
            b2[rng.randrange(k, n * n)] = rng.choice("ad")
            out.append("%d %d %d %d %d %d %s" % (n, S, C, S, C, ply, ",".join(b2)))
        elif r < 0.4:
            out.append("%d %d %d %d %d %d %s" % (n, S, C, S, C, ply + 2, ",".join(board)))
    return out


def cls_schedules(ctx):
    """real Transformer + PolicyValue; positions of mixed sizes (token rows of 15/22/31/42), and
    families of positions whose encodings are zero-extensions of one another"""
    rng = ctx.rng
    positions = [ser.pos_str(p) for _, p in gen.sample_positions(rng, [3, 4, 5, 6], 2, per_game=4, constructed_per_size=0, custom_prob=0.0)]
    if "positions" not in _state:
        _state["positions"] = positions
    # late-game 6x6 positions whose encoding fills the model's context exactly (96 tokens) or all
    # but one: the longest request the served model can evaluate locally
    import tak
    from tak import pieces as _pc
    from tak.model import encoding as _enc

    limit = []
    for k, want in enumerate((REAL_CTX[0], REAL_CTX[1], REAL_CTX[2] - 1, REAL_CTX[0] - 1, REAL_CTX[1] - 2, REAL_CTX[2])):
        hs = [rng.choice([0, 1, 1, 1]) for _ in range(36)]
        while 6 + sum(max(1, h) for h in hs) < want:
            hs[rng.randrange(36)] += 1
        board = [[_pc.Piece.cached(_pc.Color(rng.randrange(2)), _pc.Kind.FLAT) for _ in range(h)] for h in hs]
        p = tak.Position(size=6, stones=(tak.StoneCounts(3, 1), tak.StoneCounts(4, 0)), ply=rng.choice([40, 41]), board=board)
        if len(_enc.encode(p)) == want:
            limit.append((k, ser.pos_str(p)))
    n_s = 120 if ctx.thorough else 30
    for k, pl in limit:
        yield "real-context-limit", {
            "mode": "cls", "arrivals": [[0, pl]] + [[int(t), rng.choice(positions)] for t in (0, 0, 500)], "latency_us": [2500],
            "model_seed": k % 3, "eval_mode": bool(k % 2), "pe": ["sin", "learned", "none"][k % 3],
        }
    for k in range(n_s):
        shape = rng.choice(["burst", "burst", "trickle", "during", "big", "zero-family", "zero-family"])
        if shape in ("burst", "zero-family"):
            times = [0] * rng.choice([1, 3, 8, 9, 20] if shape == "burst" else [2, 4, 9, 20])
        elif shape == "trickle":
            gap = rng.choice(GAPS)
            times = [i * gap for i in range(rng.choice([3, 9, 12]))]
        elif shape == "during":
            times = [0] * rng.choice([2, 9]) + sorted(rng.choice([2500, 3500, rng.randint(0, 6000)]) for _ in range(rng.randint(1, 10)))
        else:
            times = [0] * rng.choice([85, 100])
        pool = positions
        if shape == "zero-family" or rng.random() < 0.3:
            fam = _real_zero_family(rng)
            pool = fam if shape == "zero-family" else positions + fam * 3
        rows = [rng.choice(pool) for _ in times]
        if shape == "zero-family":
            for j, f in enumerate(fam[: len(rows)]):
                rows[j] = f  # every member of the family at least once when the burst is large enough
            rng.shuffle(rows)
        if rng.random() < 0.3 and len(rows) > 1:
            rows[-1] = rows[0]  # the same position asked twice
        yield "real-" + shape, {
            "mode": "cls", "arrivals": [[int(t), r] for t, r in zip(times, rows)], "latency_us": [rng.choice([0, 2500, 10000])],
            "model_seed": k % 3, "eval_mode": bool(k % 2), "pe": ["sin", "learned", "none"][k % 3],
        }


# --------------------------------------------------------------------------------------------
# client side
# --------------------------------------------------------------------------------------------


def _bits(arr):
    np = _impl()["np"]
    return ["%08x" % int(x) for x in np.ascontiguousarray(arr, dtype=np.float32).view(np.uint32).tolist()]


def codec_cases(ctx):
    """float32 vectors → (tobytes, frombuffer) vs the Lean codec.  Returns divergences."""
    S = _impl()
    np, rng = S["np"], ctx.rng
    special = [0x00000000, 0x80000000, 0x3F800000, 0xBF800000, 0x7F800000, 0xFF800000, 0x7FC00000, 0x7F800001,
               0x00000001, 0x807FFFFF, 0x00800000, 0x7F7FFFFF, 0x01020304, 0xFFFFFFFF, 0xDEADBEEF]
    vecs = [[], [special[2]], special]
    for _ in range(200 if ctx.thorough else 40):
        vecs.append([rng.choice(special) if rng.random() < 0.2 else rng.getrandbits(32) for _ in range(rng.randint(1, 64))])
    lines, impl = [], []
    for v in vecs:
        a = np.array(v, dtype=np.uint32).view(np.float32)
        b = a.tobytes()
        back = np.frombuffer(b, dtype=np.float32).copy()
        lines.append("server bytes " + " ".join("%08x" % w for w in v))
        impl.append(" ".join(["ok", b.hex() if b else "-"] + _bits(back)))
        ctx.evaluated()
        ctx.count("codec:roundtrip")
    # byte strings whose length is not a multiple of four must be refused
    for n in (1, 2, 3, 5, 7):
        b = bytes(rng.getrandbits(8) for _ in range(n))
        lines.append("server unbytes " + b.hex())
        try:
            back = np.frombuffer(b, dtype=np.float32).copy()
            impl.append(" ".join(["ok"] + _bits(back)))
        except ValueError:
            impl.append("refused")
        ctx.evaluated()
        ctx.count("codec:ragged")
    outs = driver.run_lines(lines)
    return [Divergence("corr.server.codec", {"line": l}, i, o) for l, i, o in zip(lines, impl, outs) if i != o]


def client_cases(ctx):
    """GRPCNetwork.evaluate (a) against a direct fake stub returning a crafted EvaluateResponse,
    (b) end to end: stub.Evaluate routed to the real server coroutine on the virtual-time loop,
    serving a real Transformer, compared with local ModelWrapper.evaluate.
    Returns (divergences, violations)."""
    S = _impl()
    np, torch, rng = S["np"], S["torch"], ctx.rng
    import tak

    divs, vios = [], []
    pos0 = tak.Position.from_config(tak.Config(size=3))
    # (a) decode of crafted replies
    lines, got, sent = [], [], []
    for k in range(30 if ctx.thorough else 10):
        words = [rng.getrandbits(32) for _ in range(rng.randint(1, 40))]
        if k == 0:
            words = [0x7FC00000, 0x80000000, 0x00000001, 0x7F800000]
        arr = np.array(words, dtype=np.uint32).view(np.float32)
        value = np.float32(rng.uniform(-1, 1))
        net = S["grpc"].GRPCNetwork("localhost", 0)
        seen = {}

        def fake(req, arr=arr, value=value, seen=seen):
            seen["position"] = list(req.position)
            return S["pb2"].EvaluateResponse(move_probs_bytes=arr.tobytes(), value=value)

        net.stub.Evaluate = fake
        lines.append("server unbytes " + arr.tobytes().hex())
        try:
            probs, v = net.evaluate(pos0)
            got.append(" ".join(["ok"] + _bits(probs.numpy())))
        except Exception as e:
            v = None
            got.append("crash " + type(e).__name__)
        sent.append((words, value, v, seen))
        ctx.evaluated()
        ctx.count("client:crafted-reply")
    outs = driver.run_lines(lines)
    for l, g, o, (words, value, v, seen) in zip(lines, got, outs, sent):
        bad = None
        if g != o:
            bad = "policy vector decoded by GRPCNetwork.evaluate has bits [%s…], the served bytes decode to [%s…]" % (g[:60], o[:60])
        elif not (isinstance(v, (float, np.floating)) and float(v) == float(value)):
            bad = "value returned by GRPCNetwork.evaluate is %r, served %r" % (v, value)
        elif seen.get("position") != S["encoding"].encode(pos0):
            bad = "GRPCNetwork.evaluate sent tokens %r for a position encoding to %r" % (seen.get("position"), S["encoding"].encode(pos0))
        if bad:
            d = Divergence("corr.server.client", {"words": ["%08x" % w for w in words]}, g, o)
            d.explained = True
            divs.append(d)
            vios.append(Violation("client-decode", bad, {"client_words": ["%08x" % w for w in words], "value": float(value)}))
    # (b) end to end through the in-process channel
    positions = [ser.parse_pos(s.split(" ")) for s in _state.get("positions", [])][: (12 if ctx.thorough else 5)] or [pos0]
    for k, pos in enumerate(positions):
        seed, ev, pe = k % 3, bool(k % 2), ["sin", "learned", "none"][k % 3]
        model = _real_model(seed, ev, pe)
        r = end_to_end(pos, seed, ev, pe, latency_us=2500)
        ctx.evaluated()
        ctx.count("client:end-to-end")
        if r is not None:
            d = Divergence("corr.server.client", {"pos": ser.pos_str(pos)}, r[1], "equal to ModelWrapper.evaluate within 1e-5")
            d.explained = True
            divs.append(d)
            vios.append(Violation(r[0], r[1], {"e2e_pos": ser.pos_str(pos), "model_seed": seed, "eval_mode": ev, "pe": pe}))
    return divs, vios


def end_to_end(pos, seed, ev, pe, latency_us=2500):
    """GRPCNetwork.evaluate → stub channel → real Server on the virtual loop → back.  None = fine,
    else (key, what)."""
    S = _impl()
    np = S["np"]
    model = _real_model(seed, ev, pe)
    loop = VirtualTimeLoop(latency=lambda n: latency_us / 1e6)
    asyncio.set_event_loop(loop)
    try:
        server = S["srv"].Server(model=model)
        worker = loop.create_task(server.worker_loop())
        net = S["grpc"].GRPCNetwork("localhost", 0)
        replies = []

        def route(req):
            done, resp = loop.run_coro(server.Evaluate(req, None))
            if not done:
                raise TimeoutError("server never answered")
            replies.append(resp)
            return resp

        net.stub.channel.evaluate = route
        result = None
        try:
            probs, value = net.evaluate(pos)
        except TimeoutError:
            result = ("unanswered", "GRPCNetwork.evaluate of [%s]: the server went idle without answering" % ser.pos_str(pos))
        except Exception as e:
            result = ("client-decode", "GRPCNetwork.evaluate of [%s] raises %s on the served reply" % (ser.pos_str(pos), type(e).__name__))
        if result is None:
            lp, lv = S["wrapper"].ModelWrapper(model=model).evaluate(pos)
            served = np.frombuffer(replies[0].move_probs_bytes, dtype=np.float32)
            if _bits(probs.numpy()) != _bits(served) or float(value) != float(replies[0].value):
                result = ("client-decode", "GRPCNetwork.evaluate of [%s] returned a vector/value different from the served reply" % ser.pos_str(pos))
            elif not _close(probs.numpy(), float(value), (lp.numpy(), float(lv))):
                result = ("not-local-equal", "GRPCNetwork.evaluate of [%s] through the server differs from ModelWrapper.evaluate by %.3g (value %.3g)" % (
                    ser.pos_str(pos), float(np.max(np.abs(probs.numpy() - lp.numpy()))) if probs.shape == lp.shape else float("nan"),
                    abs(float(value) - float(lv))))
        tasks = list(asyncio.all_tasks(loop)) + [worker]
        for t in tasks:
            if t.done() and not t.cancelled():
                t.exception()  # retrieved: a crashed worker shows up as `unanswered` above
            else:
                t.cancel()
        loop.run_until_idle()
        return result
    finally:
        asyncio.set_event_loop(None)
        loop.close()


def _update_weights(model, kind, seed):
    """change the served model's weights IN PLACE, the ways a training loop does"""
    torch = _impl()["torch"]
    g = torch.Generator().manual_seed(7000 + seed)
    if kind == "sgd":  # one optimiser step on the module the server holds
        opt = torch.optim.SGD(model.parameters(), lr=0.05)
        x = torch.randint(0, 256, (4, 15), generator=g)
        with torch.enable_grad():
            opt.zero_grad()
            out = model(x)
            loss = out["values"].sum() + 0.1 * torch.logsumexp(out["moves"], dim=-1).sum()
            loss.backward()
            opt.step()
            opt.zero_grad(set_to_none=True)
    elif kind == "load":  # load_state_dict of other weights into the same module
        sd = {k: (v + 0.05 * torch.randn(v.shape, generator=g) if v.is_floating_point() else v) for k, v in model.state_dict().items()}
        model.load_state_dict(sd)
    else:  # "perturb": parameters modified in place under no_grad
        with torch.no_grad():
            for p_ in model.parameters():
                p_.add_(0.05 * torch.randn(p_.shape, generator=g))


def run_session(sess):
    """One long-lived GRPCNetwork client and one in-process Server holding one nn.Module.  ops:
    ["eval", pos] — evaluate through the client and compare with ModelWrapper.evaluate on the
    CURRENT weights; ["update", kind, seed] — the served module's weights change in place.
    Returns None or (key, what, index of the failing op)."""
    import copy

    S = _impl()
    np = S["np"]
    model = copy.deepcopy(_real_model(sess.get("model_seed", 0), sess.get("eval_mode", False), sess.get("pe", "sin")))
    lat = sess.get("latency_us", 2500)
    loop = VirtualTimeLoop(latency=lambda n: lat / 1e6)
    asyncio.set_event_loop(loop)
    try:
        server = S["srv"].Server(model=model)
        worker = loop.create_task(server.worker_loop())
        net = S["grpc"].GRPCNetwork("localhost", 0)
        replies = []

        def route(req):
            done, resp = loop.run_coro(server.Evaluate(req, None))
            if not done:
                raise TimeoutError("server never answered")
            replies.append(resp)
            return resp

        net.stub.channel.evaluate = route
        result = None
        old = []  # frozen copies of earlier weight versions (to name a stale answer as such)
        changed = 0
        kept = []  # (op index, the vector the client handed out, its bits at that moment)
        for k, op in enumerate(sess["ops"]):
            if op[0] == "update":
                old.append(copy.deepcopy(model))
                _update_weights(model, op[1], op[2])
                continue
            pos = ser.parse_pos(op[1].split(" "))
            n0 = len(replies)
            try:
                probs, value = net.evaluate(pos)
            except TimeoutError:
                result = ("unanswered", "the server went idle without answering", k)
                break
            except Exception as e:
                result = ("client-decode", "GRPCNetwork.evaluate raises %s" % type(e).__name__, k)
                break
            lp, lv = S["wrapper"].ModelWrapper(model=model).evaluate(pos)
            cur = (lp.numpy(), float(lv))
            if old and not _close(cur[0], cur[1], tuple((x.numpy() if hasattr(x, "numpy") else float(x)) for x in S["wrapper"].ModelWrapper(model=old[-1]).evaluate(pos))):
                changed += 1
            if len(replies) > n0:
                served = np.frombuffer(replies[-1].move_probs_bytes, dtype=np.float32)
                if _bits(probs.numpy()) != _bits(served) or float(value) != float(replies[-1].value):
                    result = ("client-decode", "the client returned a vector/value different from the served reply", k)
                    break
            kept.append((k, probs, _bits(probs.numpy())))
            moved = [k0 for k0, t0, b0 in kept[:-1] if _bits(t0.numpy()) != b0]
            if moved:
                # an answer is a value: the vector handed out for an EARLIER request reads differently
                # after this one (the search keeps the priors of every node it expanded)
                result = ("client-decode", "the policy vector returned for request #%d changed when request #%d was evaluated through the same client" % (moved[0], k), k)
                break
            if not _close(probs.numpy(), float(value), cur):
                key = "not-local-equal"
                for v_, m_ in enumerate(old):
                    op_, ov_ = S["wrapper"].ModelWrapper(model=m_).evaluate(pos)
                    if _close(probs.numpy(), float(value), (op_.numpy(), float(ov_))):
                        key = "client-stale"
                        break
                result = (key, "differs from ModelWrapper.evaluate on the current weights by %.3g (value %.3g)%s" % (
                    float(np.max(np.abs(probs.numpy() - cur[0]))) if probs.shape == cur[0].shape else float("nan"), abs(float(value) - cur[1]),
                    "; it equals the evaluation under the weights before update #%d%s" % (v_ + 1, "" if len(replies) > n0 else ", and the server was not asked")
                    if key == "client-stale" else ""), k)
                break
        for t in list(asyncio.all_tasks(loop)) + [worker]:
            if t.done() and not t.cancelled():
                t.exception()
            else:
                t.cancel()
        loop.run_until_idle()
        if result is None:
            return None, changed
        return result, changed
    finally:
        asyncio.set_event_loop(None)
        loop.close()


def _session_violation(sess, res):
    key, what, k = res
    op = sess["ops"][k]
    return Violation(key, "client session (%d ops, %d weight updates before the failing one): GRPCNetwork.evaluate of [%s] (op %d) %s" % (
        len(sess["ops"]), sum(1 for o in sess["ops"][:k] if o[0] == "update"), op[1], k, what), {"session": sess})


def shrink_session(sess, key):
    def fails(s_):
        try:
            r, _ = run_session(s_)
        except Exception:
            return False
        return r is not None and r[0] == key

    cur = sess
    i = 0
    while i < len(cur["ops"]):
        ops = cur["ops"][:i] + cur["ops"][i + 1:]
        if ops and fails(dict(cur, ops=ops)):
            cur = dict(cur, ops=ops)
        else:
            i += 1
    return cur


def session_cases(ctx):
    """long-lived client + server sessions across in-place weight updates.  Returns (divs, violations)."""
    import tak

    rng = ctx.rng
    pool = list(_state.get("positions") or [])
    pool += [ser.pos_str(tak.Position.from_config(tak.Config(size=n))) for n in (3, 4, 5)]
    divs, vios = [], []
    seen_keys = set()
    for k in range(40 if ctx.thorough else 10):
        ops = []
        asked = []
        for phase in range(rng.randint(2, 4)):
            for _ in range(rng.randint(1, 5)):
                p_ = rng.choice(asked) if asked and rng.random() < 0.5 else rng.choice(pool)
                asked.append(p_)
                ops.append(["eval", p_])
            ops.append(["update", rng.choice(["sgd", "load", "perturb"]), rng.randint(0, 999)])
        ops.append(["eval", asked[0]])
        ops.append(["eval", rng.choice(pool)])
        sess = {"ops": ops, "model_seed": k % 3, "eval_mode": bool(k % 2), "pe": ["sin", "learned", "none"][k % 3], "latency_us": rng.choice([0, 2500])}
        res, changed = run_session(sess)
        ctx.evaluated()
        ctx.count("session")
        ctx.count("session:evals", sum(1 for o in ops if o[0] == "eval"))
        ctx.count("session:re-evaluations-whose-local-result-changed", changed)
        if changed:
            ctx.nontrivial(_canon(sess))
        if res is not None:
            d = Divergence("corr.server.session", {"session": sess}, "%s at op %d: %s" % (res[0], res[2], res[1]), "equal to ModelWrapper.evaluate on the current weights within 1e-5")
            d.explained = True
            divs.append(d)
            if res[0] not in seen_keys:
                seen_keys.add(res[0])
                small = shrink_session(sess, res[0])
                r2, _ = run_session(small)
                if r2 is not None and r2[0] == res[0]:
                    sess, res = small, r2
                vios.append(_session_violation(sess, res))
    return divs, vios


# --------------------------------------------------------------------------------------------
# protocol entry points
# --------------------------------------------------------------------------------------------


def run_cancel_case(case):
    """Concurrent callers of a real served model, some of which go away (their RPC is cancelled)
    while their request is queued or being evaluated.  Every caller that stays gets the local
    evaluation of ITS OWN position.  Returns None or (key, what)."""
    S = _impl()
    np = S["np"]
    model = _real_model(case.get("model_seed", 0), case.get("eval_mode", False), case.get("pe", "sin"))
    lat = case.get("latency_us", 2500)
    loop = VirtualTimeLoop(latency=lambda n: lat / 1e6)
    asyncio.set_event_loop(loop)
    try:
        server = S["srv"].Server(model=model)
        worker = loop.create_task(server.worker_loop())
        poss = [ser.parse_pos(p.split(" ")) for p in case["positions"]]
        toks = [[int(t) for t in S["encoding"].encode(p)] if "encoding" in S else None for p in poss]
        from tak.model import encoding as _enc

        toks = [[int(t) for t in _enc.encode(p)] for p in poss]
        got = {}

        async def client(i):
            resp = await server.Evaluate(S["pb2"].EvaluateRequest(position=toks[i]), None)
            got[i] = resp

        tasks = {}
        for i, t in enumerate(case["times_us"]):
            loop.call_at(t / 1e6, lambda i=i: tasks.__setitem__(i, loop.create_task(client(i))))
        for i, t in case["cancel_us"]:
            loop.call_at(t / 1e6, lambda i=i: tasks[i].cancel() if i in tasks else None)
        loop.run_until_idle()
        gone = {i for i, _ in case["cancel_us"]}
        bad = None
        for i in range(len(poss)):
            if i in gone:
                continue
            if i not in got:
                exc = tasks[i].exception() if i in tasks and tasks[i].done() and not tasks[i].cancelled() else None
                bad = ("unanswered", "caller %d (position [%s]) was never answered after callers %s went away%s" % (i, case["positions"][i], sorted(gone), " (%s)" % type(exc).__name__ if exc else ""))
                break
            lp, lv = S["wrapper"].ModelWrapper(model=model).evaluate(poss[i])
            probs = np.frombuffer(got[i].move_probs_bytes, dtype=np.float32)
            if not _close(probs, float(got[i].value), (lp.numpy(), float(lv))):
                whose = [j for j in range(len(poss)) if j != i and _close(probs, float(got[i].value), tuple((x.numpy() if hasattr(x, "numpy") else float(x)) for x in S["wrapper"].ModelWrapper(model=model).evaluate(poss[j])))]
                bad = ("wrong-position", "caller %d (position [%s]) received %s after callers %s went away" % (
                    i, case["positions"][i], ("the evaluation of caller %d's position" % whose[0]) if whose else "an evaluation that is not its position's", sorted(gone)))
                break
        for t in list(asyncio.all_tasks(loop)):
            t.cancel()
        loop.run_until_idle()
        return bad
    finally:
        asyncio.set_event_loop(None)
        loop.close()


def cancel_cases(ctx):
    rng = ctx.rng
    pool = _state.get("positions") or []
    vios, divs = [], []
    if not pool:
        return [], vios
    for k in range(40 if ctx.thorough else 10):
        n = rng.choice([3, 4, 6, 9, 12])
        lat = rng.choice([2500, 10000])
        times = [0] * n if rng.random() < 0.6 else sorted(rng.choice([0, 0, 300, 700]) for _ in range(n))
        who = rng.sample(range(n), rng.choice([1, 1, 2]))
        # while queued / being gathered (before 1 ms), or while the model runs
        cancel = [[i, rng.choice([200, 500, 900, 1500, lat // 2 + 1000])] for i in who]
        case = {"positions": [rng.choice(pool) for _ in range(n)], "times_us": times, "cancel_us": cancel, "latency_us": lat,
                "model_seed": k % 3, "eval_mode": bool(k % 2), "pe": ["sin", "learned", "none"][k % 3]}
        try:
            bad = run_cancel_case(case)
        except Exception as e:
            bad = ("unanswered", "the run with departing callers raised %s: %s" % (type(e).__name__, str(e)[:120]))
        ctx.evaluated()
        ctx.count("callers-going-away")
        if bad:
            d = Divergence("corr.server.cancel", {"cancel_case": case}, bad[1], "every caller that stays receives ModelWrapper.evaluate of its own position within 1e-5")
            d.explained = True
            divs.append(d)
            if not any(v.key == bad[0] for v in vios):
                vios.append(Violation(bad[0], bad[1], {"cancel_case": case}))
    return divs, vios


def _canon(sched):
    return json.dumps(sched, sort_keys=True, separators=(",", ":"))


def _account(ctx, label, sched, obs, model_line):
    ctx.evaluated()
    ctx.count("schedule:" + label)
    ctx.count("requests", obs["n"])
    if obs.get("left"):
        ctx.count("callers-that-left", len(obs["left"]))
        ev = obs["events"]
        for i in obs["left"]:
            k = ev.index("L:%d" % i)
            before = ev[:k]
            took = ("T:%d" % i) in before
            ran = took and any(e.startswith("R:") for e in before[before.index("T:%d" % i):])
            ctx.count("left:" + ("while-the-model-ran-on-its-row" if ran else "while-in-the-batch-being-formed" if took else "while-queued-or-parked"))
    for b in obs["batches"]:
        ctx.count("batch:1" if b == 1 else "batch:2-7" if b < 8 else "batch:8" if b == 8 else "batch:9-80" if b <= 80 else "batch:>80")
    parked = sum(1 for e in obs["events"] if e.startswith("E:"))
    if parked:
        ctx.count("runs-with-back-pressure")
        ctx.count("parked-callers", parked)
    if model_line.startswith("ok fair=0"):
        ctx.count("overtake")
    if parked or any(b > 1 for b in obs["batches"]):
        ctx.nontrivial(_canon(sched))
    if not obs["idle"]:
        ctx.count("not-idle")


def _check_runs(ctx, runs):
    """runs: list of (label, sched, obs).  Returns divergences."""
    outs = driver.run_lines([trace_line(o) for _, _, o in runs])
    prog = driver.run_lines([progress_line(o) for _, _, o in runs])
    divs = []
    for (label, sched, obs), line, pl in zip(runs, outs, prog):
        _account(ctx, label, sched, obs, line)
        im, mo = impl_summary(obs), model_summary(line)
        if obs["crash"]:
            im = "crash %s %s" % (obs["crash"], im)
        if not obs["idle"]:
            im = "not-idle " + im
        if pl != "ok":  # the k+1 bound of C17_fifo_progress, evaluated on the observed timeline
            im = "progress[%s] %s" % (pl, im)
        if im != mo:
            d = Divergence("corr.server", {"schedule": sched, "label": label}, im[:2000], mo[:2000])
            d.obs = obs
            divs.append(d)
    return divs


def tie(ctx):
    _impl()
    runs = []
    for label, sched in fp_schedules(ctx):
        runs.append((label, sched, run_schedule(sched)))
    for label, sched in cls_schedules(ctx):
        runs.append((label, sched, run_schedule(sched)))
    for label, sched in loop_schedules(ctx):
        runs.append((label, sched, run_schedule(sched)))
    for label, sched in leave_schedules(ctx):
        runs.append((label, sched, run_schedule(sched)))
    for label, sched in real_loop_schedules(ctx):
        runs.append((label, sched, run_schedule(sched)))
    # determinism of the virtual-time runs (a replay must reproduce the run)
    for label, sched, obs in runs[:: max(1, len(runs) // 12)]:
        again = run_schedule(sched)
        if again["events"] != obs["events"] or again["deliveries"] != obs["deliveries"]:
            raise RuntimeError("virtual-time run of a schedule is not reproducible: " + _canon(sched)[:300])
        ctx.count("determinism-recheck")
    divs = _check_runs(ctx, runs)
    for label, sched, obs in runs[:: max(1, len(runs) // 5)]:
        ctx.sample({"label": label, "requests": obs["n"], "latency_us": sched["latency_us"], "batches": obs["batches"],
                    "batch_times_ms": obs["batch_times_ms"][:8], "end_ms": obs["end_ms"]})
    divs += codec_cases(ctx)
    cdivs, cvios = client_cases(ctx)
    sdivs, svios = session_cases(ctx)
    xdivs, xvios = cancel_cases(ctx)
    cdivs, cvios = cdivs + sdivs + xdivs, cvios + svios + xvios
    _state["client_violations"] = cvios
    divs += cdivs
    return divs


def _judge(obs):
    out, prog = driver.run_lines([judge_line(obs), progress_line(obs)])
    if out == "ok":
        out = prog  # every delivered answer is right: did anybody wait longer than the theorem allows?
    if out == "ok":
        return None
    if not out.startswith("violation "):
        raise RuntimeError("driver could not judge the run: " + out)
    parts = out.split(" ")
    return parts[1], out


def _violation_of(sched, obs, verdict):
    key, text = verdict
    what = "schedule of %d requests%s (latency %s µs), batches %s: %s; trace check: %s" % (
        obs["n"], " incl. %d closed-loop callers" % len(sched["loops"]) if sched.get("loops") else "",
        sched["latency_us"], obs["batches"][:12], text[:300],
        model_summary(driver.run_lines([trace_line(obs)])[0])[:80],
    )
    if obs["crash"]:
        what += "; " + obs["crash"]
    return Violation(key, what, {"schedule": sched, "verdict": text[:400]})


def shrink(sched, key):
    """drop arrivals (and simplify latencies) while the same failure class remains"""

    def fails(s):
        try:
            v = _judge(run_schedule(s))
        except Exception:
            return False
        return v is not None and v[0] == key

    cur = sched
    if cur.get("cancels"):
        # drop arrivals nobody abandons, from the back (indices of the abandoned ones stay valid)
        keep = max(i for i, _ in cur["cancels"]) + 1
        n = len(cur["arrivals"])
        while n > keep:
            s2 = dict(cur, arrivals=cur["arrivals"][: n - 1])
            if not fails(s2):
                break
            cur, n = s2, n - 1
        for c in list(cur["cancels"]):
            s2 = dict(cur, cancels=[x for x in cur["cancels"] if x != c])
            if s2["cancels"] and fails(s2):
                cur = s2
        return cur
    if len(cur["latency_us"]) > 1:
        s2 = dict(cur, latency_us=cur["latency_us"][:1])
        if fails(s2):
            cur = s2
    if cur.get("loops"):
        i = 0  # fewer closed-loop callers, then fewer requests per caller
        while i < len(cur["loops"]):
            lps = cur["loops"][:i] + cur["loops"][i + 1:]
            if fails(dict(cur, loops=lps)):
                cur = dict(cur, loops=lps)
            else:
                i += 1
        for _round in range(6):
            lps = [[lp[0], lp[1][: max(1, (len(lp[1]) + 1) // 2)]] for lp in cur["loops"]]
            if lps != cur["loops"] and fails(dict(cur, loops=lps)):
                cur = dict(cur, loops=lps)
            else:
                break
        for i in range(len(cur["loops"])):
            while len(cur["loops"][i][1]) > 1:
                lps = [list(lp) for lp in cur["loops"]]
                lps[i][1] = lps[i][1][:-1]
                if fails(dict(cur, loops=lps)):
                    cur = dict(cur, loops=lps)
                else:
                    break
    chunk = max(1, len(cur["arrivals"]) // 2)
    budget = 120
    while chunk >= 1 and budget > 0:
        i = 0
        progressed = False
        while i < len(cur["arrivals"]) and budget > 0:
            arr = cur["arrivals"][:i] + cur["arrivals"][i + chunk:]
            budget -= 1
            if (arr or cur.get("loops")) and fails(dict(cur, arrivals=arr)):
                cur = dict(cur, arrivals=arr)
                progressed = True
            else:
                i += chunk
        if chunk == 1 and not progressed:
            break
        chunk = chunk // 2 if chunk > 1 else (1 if progressed else 0)
    if cur["mode"] == "fp" and cur.get("loops"):
        # canonical small content per length class, the same for every request
        lens = sorted({len(r) for r in _payloads(cur)})
        rank = {ln: 1 + k for k, ln in enumerate(lens)}
        small = dict(cur, arrivals=[[a[0], [1 + rank[len(a[1])]] * rank[len(a[1])]] for a in cur["arrivals"]],
                     loops=[[lp[0], [[1 + rank[len(r)]] * rank[len(r)] for r in lp[1]]] for lp in cur["loops"]])
        if fails(small):
            cur = small
    elif cur["mode"] == "fp" and cur["arrivals"]:
        # shorter rows: first a canonical small content per length class, else token by token
        lens = sorted({len(a[1]) for a in cur["arrivals"]})
        rank = {ln: 1 + k for k, ln in enumerate(lens)}
        small = [[a[0], [1 + (i + j) % (FP_VOCAB - 1) for j in range(rank[len(a[1])])]] for i, a in enumerate(cur["arrivals"])]
        if fails(dict(cur, arrivals=small)):
            cur = dict(cur, arrivals=small)
        else:
            budget = 150
            j = 0  # drop a whole column (keeps "row B = row A ++ zeros" relations intact)
            while j < max(len(a[1]) for a in cur["arrivals"]) and budget > 0:
                arr = [[a[0], a[1][:j] + a[1][j + 1:]] for a in cur["arrivals"]]
                budget -= 1
                if all(a[1] for a in arr) and fails(dict(cur, arrivals=arr)):
                    cur = dict(cur, arrivals=arr)
                else:
                    j += 1
            for i in range(len(cur["arrivals"])):
                j = 0
                while j < len(cur["arrivals"][i][1]) and len(cur["arrivals"][i][1]) > 1 and budget > 0:
                    row = cur["arrivals"][i][1]
                    arr = [list(a) for a in cur["arrivals"]]
                    arr[i][1] = row[:j] + row[j + 1:]
                    budget -= 1
                    if fails(dict(cur, arrivals=arr)):
                        cur = dict(cur, arrivals=arr)
                    else:
                        j += 1
        t0 = min(a[0] for a in cur["arrivals"])
        if t0 and fails(dict(cur, arrivals=[[a[0] - t0, a[1]] for a in cur["arrivals"]])):
            cur = dict(cur, arrivals=[[a[0] - t0, a[1]] for a in cur["arrivals"]])
    return cur


def search(ctx, divergences, broken):
    vs = []
    by_key = {}
    for d in divergences:
        if d.component != "corr.server":
            continue
        obs = getattr(d, "obs", None) or run_schedule(d.input["schedule"])
        verdict = _judge(obs)
        ctx.count("judged")
        if verdict is None:
            continue  # model and implementation differ, yet no property predicate fails: left unexplained
        d.explained = True
        by_key.setdefault(verdict[0], []).append((d.input["schedule"], obs, verdict))
    for key, lst in by_key.items():
        lst.sort(key=lambda x: len(x[0]["arrivals"]))
        sched, obs, verdict = lst[0]
        try:
            small = shrink(sched, key)
            o2 = run_schedule(small)
            v2 = _judge(o2)
            if v2 is not None and v2[0] == key:
                sched, obs, verdict = small, o2, v2
        except Exception:
            pass
        v = _violation_of(sched, obs, verdict)
        v.what += " (%d failing schedules of this class in the run)" % len(lst)
        vs.append(v)
    return vs + list(_state.get("client_violations", []))


def replay(ctx, data):
    r = data.get("replay", data)
    _impl()
    if "schedule" in r:
        sched = r["schedule"]
        obs = run_schedule(sched)
        verdict = _judge(obs)
        return [_violation_of(sched, obs, verdict)] if verdict else []
    if "cancel_case" in r:
        bad = run_cancel_case(r["cancel_case"])
        return [Violation(bad[0], bad[1], r)] if bad else []
    if "session" in r:
        res, _ = run_session(r["session"])
        return [_session_violation(r["session"], res)] if res else []
    if "e2e_pos" in r:
        res = end_to_end(ser.parse_pos(r["e2e_pos"].split(" ")), r.get("model_seed", 0), r.get("eval_mode", False), r.get("pe", "sin"))
        return [Violation(res[0], res[1], r)] if res else []
    if "client_words" in r:
        S = _impl()
        np = S["np"]
        import tak

        words = [int(w, 16) for w in r["client_words"]]
        arr = np.array(words, dtype=np.uint32).view(np.float32)
        net = S["grpc"].GRPCNetwork("localhost", 0)
        net.stub.Evaluate = lambda req: S["pb2"].EvaluateResponse(move_probs_bytes=arr.tobytes(), value=np.float32(r.get("value", 0.0)))
        out = driver.run_lines(["server unbytes " + arr.tobytes().hex()])[0]
        try:
            probs, v = net.evaluate(tak.Position.from_config(tak.Config(size=3)))
            got = " ".join(["ok"] + _bits(probs.numpy()))
        except Exception as e:
            got, v = "crash " + type(e).__name__, float("nan")
        if got != out or float(v) != float(np.float32(r.get("value", 0.0))):
            return [Violation("client-decode", "GRPCNetwork.evaluate decodes [%s…] where the bytes hold [%s…]" % (got[:60], out[:60]), r)]
        return []
    return []

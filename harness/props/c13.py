"""C13 — TPS position notation is faithful and round-trips."""
import re

from ..check import Divergence, Violation
from ..lib import driver, gen, ser

ID = "C13"
LEAN_MODULES = ["TakVerif.Props.C13"]
# cross-operation sessions (lib/session.py): which operations this property judges
SESSION = {"kinds": {"format", "parse"}}
RULE = (
    "format: tak.ptn.format_tps vs TPS.formatTPS on positions of sizes 3..8 (random legal play with 6 biased policies, "
    "standard+custom reserves; constructed boards with tops-only stacks up to height 2*size; ply >= 0). "
    "parse: tak.ptn.parse_tps vs TPS.parseTPS on (a) the canonical text of every such position produced by the LEAN "
    "reference writer Spec.TPS.writeTPS (never by the implementation's own writer), (b) lenient-but-grammatical rewrites "
    "(x1, split runs), (c) a malformed stream: grammar-directed mutation of canonical texts (delete/duplicate/swap/replace "
    "one character, item, row or field; separators changed; sizes 0,1,2,9,10; empty items/rows; misplaced marks; bad run "
    "counts; bad player and move-number fields; extra blanks; trailing newline), random strings over the TPS alphabet, and "
    "> 4300-digit move numbers (only 'no crash' demanded). roundtrip: format_tps(parse_tps(t)) == t for canonical t. "
    "plus bounded-exhaustive item/player/move-number fields (every string up to length 4/2/3 over small alphabets inside a valid 3x3 text). "
    "Non-trivial = a position with at least one stack formatted, or a text accepted by either side, or a refused text that has "
    "exactly three fields (i.e. gets past the first check); distinct by text."
)
TRUSTED = [
    "modelled, not verified: CPython str.split/str.join/str()/int()/str.isascii/str.isdigit on the strings used",
    "hex code-point transport of strings between harness and driver",
]
ASSUMPTIONS = [
    "unspecified zone (model mirrors the code, property makes no demand): leading zeros in the move number; more pieces "
    "on the board than the standard set holds (negative reserves); move numbers of more than 4300 digits (CPython's "
    "int-string limit: only the absence of a crash is demanded)",
    "texts are Python str without lone surrogates",
    "positions given to format_tps have a size*size board, ply >= 0 and only flats below the top of a stack (TPS cannot "
    "express a buried wall or capstone)",
]

HUGE = 4300  # CPython sys.get_int_max_str_digits() default


# ---------------------------------------------------------------- transport


def enc(s):
    if s == "":
        return "-"
    return ".".join("%04x" % ord(c) for c in s)


def dec(h):
    if h == "-":
        return ""
    return "".join(chr(int(x, 16)) for x in h.split("."))


def show(t, limit=240):
    """repr of a text, abbreviated in the middle when very long (the replay file holds it all)"""
    if len(t) <= limit:
        return repr(t)
    return "%r...(%d characters omitted)...%r" % (t[:80], len(t) - 110, t[-30:])


# ---------------------------------------------------------------- running the implementation


def _ptn():
    import tak.ptn

    return tak.ptn


HAZARD = 10 ** 6  # a run count above this is parsed in a memory-limited child process
GUARD_AS_BYTES = 3 << 30


def _hazard(t):
    """the unrepaired parser allocates `[[]] * int(count)` for an `x<count>` item: a text with
    an astronomically large count must not be able to take the checking process down"""
    f = t.split(" ")
    if len(f) != 3:
        return False
    for r in f[0].split("/"):
        for it in r.split(","):
            if len(it) > 7 and it[0] == "x":
                try:
                    if int(it[1:]) > HAZARD:
                        return True
                except ValueError:
                    pass
    return False


def _impl_parse_guarded(t):
    """impl_parse in a child process whose address space is limited; memory exhaustion or a
    time-out there is reported as `crash MemoryError`"""
    import subprocess

    from ..lib import env

    try:
        r = subprocess.run(
            [env.PYTHON, "-m", "harness.props.c13", "--guarded-parse", enc(t)],
            cwd=env.VERIF,
            stdout=subprocess.PIPE,
            stderr=subprocess.DEVNULL,
            timeout=120,
        )
    except subprocess.TimeoutExpired:
        return "crash MemoryError"
    out = r.stdout.decode().strip().split("\n")
    if r.returncode != 0 or not out or not out[-1].startswith("RESULT "):
        return "crash MemoryError"
    return out[-1][len("RESULT ") :]


def _guard_main(argv):
    import resource

    resource.setrlimit(resource.RLIMIT_AS, (GUARD_AS_BYTES, GUARD_AS_BYTES))
    from ..lib import env

    env.setup_impl_path(None)
    print("RESULT " + impl_parse(dec(argv[0]), guarded=True))


def impl_parse(t, guarded=False):
    """`ok <pos>` | `illegal` | `crash <Class>`"""
    if not guarded and _hazard(t):
        return _impl_parse_guarded(t)
    ptn = _ptn()
    try:
        p = ptn.parse_tps(t)
    except ptn.IllegalTPS:
        return "illegal"
    except Exception as e:
        return "crash " + type(e).__name__
    try:
        return "ok " + ser.pos_str(p)
    except Exception as e:
        return "crash-ser " + type(e).__name__


def impl_format(pos):
    """hex text | `crash <Class>`"""
    ptn = _ptn()
    try:
        return enc(ptn.format_tps(pos))
    except Exception as e:
        return "crash " + type(e).__name__


def impl_roundtrip(t):
    """format_tps(parse_tps(t)) as hex | `illegal` | `crash <Class>`"""
    if _hazard(t):
        return "illegal"  # never a canonical text; not run
    ptn = _ptn()
    try:
        return enc(ptn.format_tps(ptn.parse_tps(t)))
    except ptn.IllegalTPS:
        return "illegal"
    except Exception as e:
        return "crash " + type(e).__name__


# ---------------------------------------------------------------- naming a text (labels only, no oracle)

_ASCII_DIGITS = re.compile(r"[0-9]+")


def _digits(s):
    return _ASCII_DIGITS.fullmatch(s) is not None


def zone(t):
    """unspecified-zone label of a text, or None"""
    f = t.split(" ")
    if len(f) == 3 and _digits(f[2]):
        if len(f[2]) > HUGE:
            return "huge-move-number"
        if len(f[2]) > 1 and f[2][0] == "0":
            return "leading-zero"
    return None


_PRIORITY = [
    "field-count",
    "empty-item",
    "x-count",
    "size-too-large",
    "size-too-small",
    "mark-not-last",
    "bare-mark",
    "bad-char",
    "player",
    "move-number",
    "huge-move-number",
    "leading-zero",
    "row-length",
]


def defects(t):
    """the set of things that are unusual about a text (labels for finding keys only; which
    side is right is decided by the driver's Grammar/parseTPS)"""
    f = t.split(" ")
    if len(f) != 3:
        return frozenset(["field-count"])
    found = set()
    board, who, move = f
    rows = board.split("/")
    counts_ok = True
    for r in rows:
        n = 0
        for it in r.split(","):
            if it == "":
                found.add("empty-item")
            elif it[0] == "x":
                cnt = it[1:]
                if cnt == "":
                    n += 1
                elif len(cnt) == 1 and cnt in "12345678":
                    n += int(cnt)
                elif len(rows) > 8 and _digits(cnt) and cnt[0] != "0" and int(cnt) <= len(rows):
                    n += int(cnt)  # a count that fits an over-sized board: the size is what is wrong
                else:
                    found.add("x-count")
            else:
                n += 1
                if any(c not in "12SC" for c in it):
                    found.add("bad-char")
                if it[0] in "SC":
                    found.add("bare-mark")
                elif any(c in "SC" for c in it[:-1]):
                    found.add("mark-not-last")
        if n != len(rows):
            counts_ok = False
    if len(rows) > 8:
        found.add("size-too-large")
    if len(rows) < 3:
        found.add("size-too-small")
    if who not in ("1", "2"):
        found.add("player")
    if not _digits(move) or set(move) == {"0"}:
        found.add("move-number")
    elif len(move) > HUGE:
        found.add("huge-move-number")
    elif len(move) > 1 and move[0] == "0":
        found.add("leading-zero")
    if not found and not counts_ok:
        found.add("row-length")
    return frozenset(found)


def describe(t):
    """one stable name for a text: the first of _PRIORITY among its defects"""
    found = defects(t)
    for k in _PRIORITY:
        if k in found:
            return k
    return "grammatical-text"


# ---------------------------------------------------------------- generators


def _positions(ctx):
    rng = ctx.rng
    if ctx.thorough:
        plan = {3: (120, 120), 4: (120, 120), 5: (120, 120), 6: (80, 100), 7: (50, 100), 8: (40, 100)}
        per_game = 14
    else:
        plan = {3: (24, 30), 4: (24, 30), 5: (24, 30), 6: (16, 24), 7: (10, 24), 8: (8, 24)}
        per_game = 10
    out = []
    for size, (ngames, ncons) in plan.items():
        for label, pos in gen.sample_positions(rng, [size], ngames, per_game=per_game, constructed_per_size=0):
            out.append((label, pos))
        for c in range(ncons):
            fill = rng.choice([0.0, 0.05, 0.2, 0.5, 0.8, 1.0, rng.random()])
            ply = rng.choice([0, 1, 2, 3, 17, 18, 19, 20, 199, 200, rng.randrange(0, 5000), 10 ** rng.randrange(3, 30) + rng.randrange(2)])
            pos = gen.constructed_position(rng, size, tops_only=True, fill=fill, ply=ply, derive_reserves=(c % 2 == 0))
            out.append(("constructed", pos))
    return out


def lenient_variants(rng, t, n):
    """grammatical rewrites of a canonical text: `x` -> `x1`, `x<k>` -> a split into shorter runs"""
    board, who, move = t.split(" ")
    out = []
    for _ in range(n):
        rows = []
        for r in board.split("/"):
            items = []
            for it in r.split(","):
                if it[0] != "x":
                    items.append(it)
                    continue
                k = int(it[1:]) if len(it) > 1 else 1
                mode = rng.randrange(4)
                if mode == 0:
                    items.append("x%d" % k)
                elif mode == 1:
                    items += ["x"] * k
                elif mode == 2 and k > 1:
                    a = rng.randrange(1, k)
                    items += ["x%d" % a, rng.choice(["x%d" % (k - a)] + (["x"] if k - a == 1 else []))]
                else:
                    items.append(it)
            rows.append(",".join(items))
        out.append("/".join(rows) + " " + who + " " + move)
    return out


_ALPHA = list("12SCx,/ 0123456789") + ["q", "X", "s", "c", "-", "+", "_", "\n", "\t", ".", "１", "٣", "²", "١", " ", " "]
_BAD_ITEMS = ["", "x0", "x9", "x12", "x10", "xq", "xx", "x-1", "x+1", "x1_", "x٣", "x²", "x３", "X", "X2",
              "1S2", "1SC", "1CS", "2C1", "S", "C", "S1", "C2", "1SS", "12s", "12c", "3", "0", "1 ", " 1", "1x", "x,", "1\n"]
_OK_ITEMS = ["x", "x1", "x2", "1", "2", "1S", "2C", "12", "2121C", "1" * 12 + "S"]
_BAD_WHO = ["12", "21", "3", "0", "", "11", "１", "١", "1\n", "+1", "W", "x"]
_BAD_MOVE = ["0", "00", "+1", "-1", "１", "1_0", "", "1.0", "1e1", "٣", "²", "1\n", "\n1", "1\t", "0x1", "1 ", "one", "١٠", "1 "]


def _mutate_once(rng, t):
    f = t.split(" ")
    k = rng.randrange(16)
    if k == 0 and t:  # delete a char
        i = rng.randrange(len(t))
        return t[:i] + t[i + 1 :]
    if k == 1 and t:  # duplicate a char
        i = rng.randrange(len(t))
        return t[: i + 1] + t[i:]
    if k == 2 and len(t) > 1:  # swap neighbours
        i = rng.randrange(len(t) - 1)
        return t[:i] + t[i + 1] + t[i] + t[i + 2 :]
    if k == 3 and t:  # replace a char
        i = rng.randrange(len(t))
        return t[:i] + rng.choice(_ALPHA) + t[i + 1 :]
    if k == 4:  # insert a char
        i = rng.randrange(len(t) + 1)
        return t[:i] + rng.choice(_ALPHA) + t[i:]
    if len(f) != 3:
        return t + rng.choice(_ALPHA)
    board, who, move = f
    rows = [r.split(",") for r in board.split("/")]
    if k in (5, 6, 7, 8):  # item level
        ri = rng.randrange(len(rows))
        row = rows[ri]
        ii = rng.randrange(len(row))
        if k == 5:
            row[ii] = rng.choice(_BAD_ITEMS)
        elif k == 6:
            row[ii] = rng.choice(_OK_ITEMS)
        elif k == 7:
            if rng.random() < 0.5:
                del row[ii]
            else:
                row.insert(ii, row[ii])
        else:
            # move the mark of a stack / add a mark in the wrong place
            it = row[ii]
            j = rng.randrange(len(it) + 1)
            row[ii] = it[:j] + rng.choice("SC") + it[j:]
    elif k in (9, 10):  # row level
        ri = rng.randrange(len(rows))
        r = rng.random()
        if r < 0.3:
            del rows[ri]
        elif r < 0.6:
            rows.insert(ri, list(rows[ri]))
        elif r < 0.8:
            rows[ri] = [""]
        else:
            rng.shuffle(rows)
            rows.append(["x%d" % len(rows)])
    elif k == 11:  # separators
        sep = rng.choice([("/", "\\"), ("/", "|"), (",", ";"), (",", ", "), (",", " "), ("/", " / "), ("/", "//"), (",", ",,"), ("/", ","), (",", "/")])
        b2 = "/".join(",".join(r) for r in rows)
        if rng.random() < 0.5:
            b2 = b2.replace(sep[0], sep[1], 1)
        else:
            b2 = b2.replace(sep[0], sep[1])
        return b2 + " " + who + " " + move
    elif k == 12:
        who = rng.choice(_BAD_WHO)
    elif k == 13:
        move = rng.choice(_BAD_MOVE)
    elif k == 14:  # field separators / surroundings
        b2 = "/".join(",".join(r) for r in rows)
        return rng.choice(
            [
                b2 + "  " + who + " " + move,
                b2 + " " + who + "  " + move,
                " " + t,
                t + " ",
                t + "\n",
                t + "\r\n",
                "\n" + t,
                b2 + "\t" + who + "\t" + move,
                b2 + " " + who,
                b2 + " " + who + " " + move + " " + move,
                b2 + who + move,
                b2 + " " + move + " " + who + " x",
                '[TPS "' + t + '"]',
                t.upper(),
            ]
        )
    else:  # size out of range, built from scratch
        n = rng.choice([0, 1, 2, 9, 10, 12])
        if n == 0:
            b2 = ""
        else:
            style = rng.randrange(3)
            if style == 0:
                b2 = "/".join(["x%d" % n if n > 1 else "x"] * n)
            elif style == 1:
                b2 = "/".join([",".join(["x"] * n)] * n)
            else:
                b2 = "/".join([",".join([rng.choice(["1", "2", "x", "12S"]) for _ in range(n)]) for _ in range(n)])
        return b2 + " " + who + " " + move
    return "/".join(",".join(r) for r in rows) + " " + who + " " + move


def mutants(rng, t, n):
    out = []
    for _ in range(n):
        m = _mutate_once(rng, t)
        if rng.random() < 0.15:
            m = _mutate_once(rng, m)
        out.append(m)
    return out


FIXED_TEXTS = [
    "",
    " ",
    "  ",
    "x3/x3/x3",
    "x3/x3/x3 1",
    "x3/x3/x3 1 1 1",
    "x3/x3/x3 1 1",
    "x3/x3/x3 2 1",
    "x3/x3/x3 1 0",
    "x3/x3/x3 12 1",
    "x3/x3/x3 21 1",
    "x3/x3/x3 3 1",
    "x3/x3/x3  1",
    "x3/x3/x3 1 +1",
    "x3/x3/x3 1 -1",
    "x3/x3/x3 1 １",
    "x3/x3/x3 1 1_0",
    "x3/x3/x3 1  1",
    "x3/x3/x3 1 1\n",
    "x3/x3/1,,2 1 1",
    "x3/x3/ 1 1",
    "x3/x3/x3/ 1 1",
    "/x3/x3/x3 1 1",
    "x3//x3 1 1",
    "x3/x3/xq 1 1",
    "x3/x3/x0,x3 1 1",
    "x3/x3/x9 1 1",
    "x3/x3/x12 1 1",
    "x3/x3/x4 1 1",
    "x3/x3/x99999999999 1 1",
    "x3/x3/x1_000_000_000_000 1 1",
    "x3/x3/x2 1 1",
    "x3/x3/x٣ 1 1",
    "x3/x3/x²,x 1 1",
    "x3/x3/1S2,x2 1 1",
    "x3/x3/1SC,x2 1 1",
    "x3/x3/S,x2 1 1",
    "x3/x3/C 1 1",
    "x 1 1",
    "1 1 1",
    "x2/x2 1 1",
    "1,2/2,1 2 3",
    "/".join(["x9"] * 9) + " 1 1",
    "/".join(["x10"] * 10) + " 1 1",
    "/".join([",".join(["x"] * 9)] * 9) + " 1 1",
    "/".join([",".join(["1"] * 9)] * 9) + " 1 1",
    "/".join([",".join(["1"] * 10)] * 10) + " 2 7",
    "x3/x3/x2,x1 1 1",
    "x3/x3/x1,x1,x1 1 1",
    "x3/x3/x,x,x 2 1",
    "x3,12,2S/x,22S,22C,11,21/121,212,12,1121C,1212S/21S,1,21,211S,12S/x,21S,2,x2 1 26",
    "x8/x8/x8/x8/x8/x8/x8/x8 1 1",
    "x8/x8/x8/x8/x8/x8/x8/x7,1 2 1",
]


def huge_texts():
    return [
        "x3/x3/x3 1 " + "9" * (HUGE + 1),
        "x3/x3/x3 2 1" + "0" * HUGE,
        "x3/x3/1,x2 1 " + "0" * (HUGE + 100) + "1",
    ]


def bounded_exhaustive():
    """every item text up to length 4, every player field up to length 2 and every move-number
    field up to length 3 over small alphabets, embedded in an otherwise valid 3x3 text"""
    import itertools

    out = []
    for ln in range(0, 5):
        for tup in itertools.product("12SCx0389", repeat=ln):
            out.append("".join(tup) + ",x,x/x3/x3 1 1")
    for ln in range(0, 3):
        for tup in itertools.product("0123 +１\n", repeat=ln):
            out.append("x3/x3/x3 " + "".join(tup) + " 1")
    for ln in range(0, 4):
        for tup in itertools.product("0129+-_ １\n", repeat=ln):
            out.append("x3/x3/x3 1 " + "".join(tup))
    return out


def random_strings(rng, n):
    alpha = list("12SCx,/ 0123456789") + ["\n", "q"]
    out = []
    for _ in range(n):
        ln = rng.choice([0, 1, 2, 3, 4, 5, 6, 8, 12, 16])
        out.append("".join(rng.choice(alpha) for _ in range(ln)))
    return out


# ---------------------------------------------------------------- the property predicate (evaluated by the driver)


def judge_parse(cases):
    """cases: [(text, impl_out)].  Returns a list, one entry per case: None when the
    implementation behaved as the property demands, else (kind, grammar, model_out).
    Grammar membership and the expected position come from the driver."""
    lines = []
    for t, _ in cases:
        h = enc(t)
        lines.append("tps grammar " + h)
        lines.append("tps parse " + h)
    outs = driver.run_lines(lines)
    res = []
    for i, (t, io) in enumerate(cases):
        g, mo = outs[2 * i], outs[2 * i + 1]
        kind = None
        if io.startswith("crash"):
            kind = "crash"
        elif zone(t) == "huge-move-number":
            kind = None  # only "no crash" is demanded
        elif g == "false":
            if io != "illegal":
                kind = "accepts-malformed"
        elif g == "true":
            if io != mo:
                kind = "wrong-position"
        else:
            raise driver.DriverError("driver answered %r to grammar" % g)
        res.append(None if kind is None else (kind, g, mo))
    return res


def prescription(t, g, mo):
    if zone(t) == "huge-move-number":
        return "no exception other than IllegalTPS (move number beyond CPython's int-string limit: acceptance is not demanded)"
    if g == "true":
        return mo if len(mo) < 400 else mo[:200] + "..."
    return "refusal with IllegalTPS"


def exc_class(io):
    return io.split(" ", 1)[1] if io.startswith("crash") and " " in io else ""


def key_of(kind, t, io):
    d = describe(t)
    if kind == "crash":
        return "crash-%s-%s" % (exc_class(io) or "unknown", d)
    return "%s-%s" % (kind, d)


def shrink_text(t, kind, cls, limit=1200):
    """delete chunks of characters (halving the chunk length down to 1) while the text still
    fails in the same way (same kind, same exception class) and shows no NEW defect label;
    one batch of driver lines per pass"""
    if len(t) > limit:
        return t
    chunk = max(1, len(t) // 2)
    while chunk >= 1:
        progress = True
        while progress and len(t) >= chunk:
            progress = False
            cur = defects(t)
            cands, seen = [], set()
            for i in range(0, len(t) - chunk + 1):
                c = t[:i] + t[i + chunk :]
                if c not in seen and defects(c) <= cur:
                    seen.add(c)
                    cands.append(c)
            cases = [(c, impl_parse(c)) for c in cands]
            verdicts = judge_parse(cases)
            for (c, io), v in zip(cases, verdicts):
                if v is not None and v[0] == kind and exc_class(io) == cls:
                    t = c
                    progress = True
                    break
        chunk //= 2
    return t


# ---------------------------------------------------------------- tie


def tie(ctx):
    rng = ctx.rng
    divs = []
    positions = _positions(ctx)

    # ---- format_tps vs formatTPS, and canonical texts from the Lean reference writer
    lines, meta = [], []
    for label, pos in positions:
        ps = ser.pos_str(pos)
        lines.append("tps format " + ps)
        lines.append("tps write " + ps)
        meta.append((label, pos, ps))
    outs = driver.run_lines(lines)
    canon = []
    seen_texts = set()
    for i, (label, pos, ps) in enumerate(meta):
        mo, wo = outs[2 * i], outs[2 * i + 1]
        io = impl_format(pos)
        ctx.evaluated()
        ctx.count("format:size%d" % pos.size)
        ctx.count("format:" + label.split(":")[0])
        if any(len(sq) > 0 for sq in pos.board):
            ctx.nontrivial("F|" + ps)
        if any(len(sq) >= 3 for sq in pos.board):
            ctx.count("format:has-stack>=3")
        if io != mo:
            divs.append(Divergence("corr.tps", {"op": "format", "pos": ps}, io, mo))
        if wo in ("bad-op",) or wo.startswith("crash"):
            raise driver.DriverError("writer answered %r" % wo)
        t = dec(wo)
        if t not in seen_texts:
            seen_texts.add(t)
            canon.append(t)
        if i % max(1, len(meta) // 3) == 0:
            ctx.sample({"op": "format", "pos": ps, "impl": dec(io) if not io.startswith("crash") else io})
    ctx.count("canonical-texts", len(canon))

    # ---- texts for parse_tps
    texts = []  # (class, text)
    for t in canon:
        texts.append(("canonical", t))
    n_len = 3 if ctx.thorough else 2
    for t in canon:
        for v in lenient_variants(rng, t, n_len):
            texts.append(("lenient", v))
    n_mut = 150 if ctx.thorough else 60
    for t in canon:
        for m in mutants(rng, t, n_mut):
            texts.append(("mutant", m))
    for t in FIXED_TEXTS:
        texts.append(("fixed", t))
        if _hazard(t):
            continue  # each of its mutants would need a guarded child process
        for m in mutants(rng, t, 200 if ctx.thorough else 40):
            texts.append(("mutant", m))
    for t in random_strings(rng, 300000 if ctx.thorough else 40000):
        texts.append(("random", t))
    for t in bounded_exhaustive():
        texts.append(("bounded-exhaustive", t))
    for t in huge_texts():
        texts.append(("huge", t))

    # unspecified zone: leading zeros are not part of the malformed stream
    texts = [(c, t) for c, t in texts if not (c in ("mutant", "random", "bounded-exhaustive") and zone(t) is not None)]
    # deduplicate
    seen = set()
    uniq = []
    for c, t in texts:
        if t in seen:
            continue
        seen.add(t)
        uniq.append((c, t))
    texts = uniq

    lines = ["tps parse " + enc(t) for _, t in texts]
    outs = driver.run_lines(lines)
    shown = 0
    for (c, t), mo in zip(texts, outs):
        io = impl_parse(t)
        ctx.evaluated()
        ctx.count("parse:" + c)
        ctx.count("parse-outcome:" + io.split(" ", 1)[0])
        if io.startswith("ok") or mo.startswith("ok") or (c != "canonical" and t.count(" ") == 2):
            ctx.nontrivial("P|" + t)
        if mo == "bad-op":
            raise driver.DriverError("driver could not decode %r" % t)
        if c == "huge":
            # only the absence of a crash is demanded (CPython's int-string limit is not modelled)
            if io.startswith("crash"):
                divs.append(Divergence("corr.tps", {"op": "parse", "text": t, "hex": enc(t)}, io, mo))
            continue
        if io != mo:
            divs.append(Divergence("corr.tps", {"op": "parse", "text": t, "hex": enc(t)}, io, mo))
        if c == "mutant" and shown < 3 and io == "illegal":
            shown += 1
            ctx.sample({"op": "parse", "text": t, "impl": io})

    # ---- round trip on canonical texts: format_tps(parse_tps(t)) == t
    for t in canon:
        io = impl_roundtrip(t)
        ctx.evaluated()
        ctx.count("roundtrip")
        if io != enc(t):
            divs.append(Divergence("corr.tps", {"op": "roundtrip", "text": t, "hex": enc(t)}, io, enc(t)))
    if canon:
        ctx.sample({"op": "roundtrip", "text": canon[len(canon) // 2]})
    return divs


# ---------------------------------------------------------------- search


def _format_violation(ps, io):
    """property predicate for format_tps on a position: the standard's writer (driver)"""
    wo, wf = driver.run_lines(["tps write " + ps, "tps tpswf " + ps])
    if wf != "true":
        return None
    if io.startswith("crash"):
        return ("format-crash-" + io.split(" ", 1)[1], wo)
    if io != wo:
        return ("format-not-standard", wo)
    return None


def _shrink_format(ps):
    """empty squares / lower the ply while format_tps still disagrees with the standard"""
    toks = ps.split(" ")
    board = toks[6].split(",")

    def fails(tk, b):
        p2 = " ".join(tk[:6] + [",".join(b)])
        pos = ser.parse_pos(p2.split(" "))
        io = impl_format(pos)
        return _format_violation(p2, io) is not None, p2

    for cand in ("0", "1"):
        tk = list(toks)
        tk[5] = cand
        if fails(tk, board)[0]:
            toks = tk
            break
    for i in range(len(board)):
        if board[i] == "_":
            continue
        b2 = list(board)
        b2[i] = "_"
        if fails(toks, b2)[0]:
            board = b2
            continue
        if len(board[i]) > 1:
            b2 = list(board)
            b2[i] = board[i][0]
            if fails(toks, b2)[0]:
                board = b2
    return fails(toks, board)[1]


def search(ctx, divergences, broken):
    vs = []
    # parse divergences: group by (kind, exception class, defect labels); texts with the fewest
    # labels first, so that a text with several things wrong is not reported under a second name
    pd = [d for d in divergences if d.input["op"] == "parse"]
    verdicts = judge_parse([(d.input["text"], d.impl) for d in pd])
    groups = {}
    for d, v in zip(pd, verdicts):
        if v is None:
            continue
        d.explained = True
        kind, g, mo = v
        t = d.input["text"]
        groups.setdefault((kind, exc_class(d.impl), defects(t)), []).append((t, d.impl, g, mo))
    reported = {}  # (kind, cls) -> list of (label, violation)
    for (kind, cls, labs), lst in sorted(groups.items(), key=lambda kv: (len(kv[0][2]), sorted(kv[0][2]), kv[0][0], kv[0][1])):
        merged = [e for e in reported.get((kind, cls), []) if e[0] in labs]
        if merged:
            merged[0][1].count += len(lst)
            continue
        lst.sort(key=lambda c: (len(c[0]), c[0]))
        t, io, g, mo = lst[0]
        try:
            t2 = shrink_text(t, kind, cls)
            if t2 != t:
                io2 = impl_parse(t2)
                v2 = judge_parse([(t2, io2)])[0]
                if v2 is not None and v2[0] == kind:
                    t, io, g, mo = t2, io2, v2[1], v2[2]
        except driver.DriverError:
            pass
        key = key_of(kind, t, io)
        same = [e for e in reported.get((kind, cls), []) if e[1].key == key]
        if same:
            same[0][1].count += len(lst)
            continue
        v = Violation(key, "", {"op": "parse", "text": t, "hex": enc(t), "impl": io, "grammar": g, "model": mo})
        v.count = len(lst)
        v.fmt = (t, io, g, mo)
        reported.setdefault((kind, cls), []).append((describe(t), v))
        vs.append(v)
    for v in vs:
        t, io, g, mo = v.fmt
        v.what = (
            "parse_tps(%s) gives [%s]; the text is %s the TPS grammar and the standard prescribes [%s] (%d such texts in this run)"
            % (show(t), io, "in" if g == "true" else "NOT in", prescription(t, g, mo), v.count)
        )
    # format divergences
    fkeys = {}
    for d in divergences:
        if d.input["op"] != "format":
            continue
        v = _format_violation(d.input["pos"], d.impl)
        if v is None:
            continue
        d.explained = True
        fkeys.setdefault(v[0], []).append(d.input["pos"])
    for key, lst in sorted(fkeys.items()):
        lst.sort(key=lambda s: (len(s), s))
        ps = lst[0]
        try:
            ps = _shrink_format(ps)
        except Exception:
            pass
        io = impl_format(ser.parse_pos(ps.split(" ")))
        wo = driver.run_lines(["tps write " + ps])[0]
        vs.append(
            Violation(
                key,
                "format_tps on pos=[%s] gives %r but the TPS standard writes %r (%d such positions in this run)"
                % (ps, dec(io) if not io.startswith("crash") else io, dec(wo), len(lst)),
                {"op": "format", "pos": ps, "impl": io, "standard": wo},
            )
        )
    # round-trip divergences
    rts = []
    for d in divergences:
        if d.input["op"] != "roundtrip":
            continue
        t = d.input["text"]
        if driver.run_lines(["tps canonical " + enc(t)])[0] == "true":
            d.explained = True
            rts.append((t, d.impl))
    if rts:
        rts.sort(key=lambda c: (len(c[0]), c[0]))
        t, io = rts[0]
        t = _shrink_roundtrip(t)
        io = impl_roundtrip(t)
        vs.append(
            Violation(
                "roundtrip",
                "format_tps(parse_tps(t)) != t for the canonical text t=%r: got %r (%d such texts in this run)"
                % (t, dec(io) if re.match(r"^[0-9a-f.\-]+$", io) else io, len(rts)),
                {"op": "roundtrip", "text": t, "hex": enc(t), "impl": io},
            )
        )
    return vs


def _roundtrip_fails(t):
    if driver.run_lines(["tps canonical " + enc(t)])[0] != "true":
        return False
    return impl_roundtrip(t) != enc(t)


def _shrink_roundtrip(t):
    """replace stacks by shorter ones / empty squares while the canonical text still fails to round-trip"""
    progress = True
    budget = 300
    while progress and budget > 0:
        progress = False
        for i in range(len(t)):
            budget -= 1
            c = t[:i] + t[i + 1 :]
            if _roundtrip_fails(c):
                t = c
                progress = True
                break
    return t


# ---------------------------------------------------------------- replay


def replay(ctx, data):
    r = data.get("replay", data)
    op = r.get("op", "parse")
    if op == "parse":
        t = dec(r["hex"]) if "hex" in r else r["text"]
        io = impl_parse(t)
        v = judge_parse([(t, io)])[0]
        if v is None:
            return []
        kind, g, mo = v
        return [
            Violation(
                key_of(kind, t, io),
                "parse_tps(%s) gives [%s]; the text is %s the TPS grammar and the standard prescribes [%s]"
                % (show(t), io, "in" if g == "true" else "NOT in", prescription(t, g, mo)),
                r,
            )
        ]
    if op == "format":
        ps = r["pos"]
        io = impl_format(ser.parse_pos(ps.split(" ")))
        v = _format_violation(ps, io)
        if v is None:
            return []
        return [Violation(v[0], "format_tps on pos=[%s] gives %r, the standard writes %r" % (ps, io, dec(v[1])), r)]
    if op == "roundtrip":
        t = dec(r["hex"]) if "hex" in r else r["text"]
        if _roundtrip_fails(t):
            return [Violation("roundtrip", "format_tps(parse_tps(t)) != t for canonical t=%r" % t, r)]
        return []
    return []


if __name__ == "__main__":
    import sys

    if len(sys.argv) == 3 and sys.argv[1] == "--guarded-parse":
        _guard_main(sys.argv[2:])

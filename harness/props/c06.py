"""C06 — position token encoding is lossless and mover-relative.

tie (corr.tokens.*): the real `encode`, `decode(torch.tensor(encode))`, `encode_batch` against
`Tokens.encodeE`, `Tokens.decode`, `Tokens.encodeBatch` of the Lean model, plus the
colour-swapped twin of every position (built here with the real classes).
search: the decidable predicates the theorems of Props/C06.lean are stated with
(`roundTripVerdict`, `twinOK`, byte range, `batchVerdict`, same-triple for collisions) are
evaluated BY THE DRIVER on the implementation's outputs.  No oracle lives in this file.

State across calls is part of the tie: every value the implementation returns (the list from
`encode`, the position from `decode`, the (tensor, mask) pair from `encode_batch`) is RETAINED
together with a snapshot taken at return time; later calls of other shapes follow (larger then
smaller, smaller then larger, equal, other include_sentinel, empty), the same board is encoded
with the other side to move and then again, and at the end every retained value must still be
what it was and must still satisfy the driver's predicate (`result-mutated-by-later-call`)."""
import itertools
import json
import subprocess

from ..check import Divergence, Violation
from ..lib import driver, env, gen, ser

ID = "C06"
LEAN_MODULES = ["TakVerif.Props.C06"]
# cross-operation sessions (lib/session.py): which operations this property judges
SESSION = {"kinds": {"encode"}, "sizes": (3, 4, 5, 6)}
RULE = (
    "positions of sizes 3..6: random legal play (6 biased policies; standard reserves, custom reserves inside the "
    "vocabulary 0..49/0..1, and custom reserves outside it), constructed boards (tall mixed stacks, tops-only and not, "
    "derived / arbitrary / negative reserves), a sweep of the reserve vocabulary and an enumeration of ALL 3x3 boards "
    "with at most K pieces (K=2 quick, 3 thorough) x side to move x 3 reserve settings. One evaluation = one "
    "(position, sentinel flag) run through encode (+ decode of the result, + encode of the colour-swapped twin) or one "
    "batch run through encode_batch, each compared with the Lean model. Non-trivial = the position has at least one "
    "piece (encode/decode), or the batch has two different row lengths; distinct by position text + flag. "
    "Every position is followed by its sibling (same board and reserves, other side to move) and by itself again; "
    "every returned list / position / (tensor, mask) is held until the end of the run and re-checked after all later calls "
    "(batch sessions: larger-then-smaller, smaller-then-larger, equal shape, other sentinel flag, empty)."
)
TRUSTED = [
    "modelled, not verified: torch.tensor(list of ints) / Tensor.__getitem__ / slice assignment / .numpy() / "
    "zeros_like as used by encoding.py; storing tokens <= 255 in a uint8 tensor is exact (C06_byte gives the bound); "
    "int(n ** 0.5) is the integer square root for the square counts that occur",
]
ASSUMPTIONS = [
    "positions are tak.Position objects with Python-int reserves and ply; board sizes 3..6 (the theorems hold for every size >= 1)",
    "buried walls/capstones (not tops-only) and reserves outside 0..49 / 0..1 are outside the property's domain: "
    "there only encode is compared with the model (it must behave as written), nothing is claimed about decode",
]

SIZES = (3, 4, 5, 6)


# ---------------------------------------------------------------------------------------------
# running the implementation, canonicalised


def _enc():
    from tak.model import encoding

    return encoding


def toks_str(ts):
    return ",".join(str(int(t)) for t in ts) if len(ts) else "-"


def rows_str(rows):
    return ";".join(toks_str(r) for r in rows) if len(rows) else "."


class Held:
    """a value the implementation returned, kept alive, with its text at return time"""

    __slots__ = ("kind", "obj", "snap", "call")

    def __init__(self, kind, obj, snap, call):
        self.kind, self.obj, self.snap, self.call = kind, obj, snap, call

    def now(self):
        """the text of the held object as it is now"""
        try:
            if self.kind == "encode":
                return toks_str(self.obj)
            if self.kind == "decode":
                return "ok " + ser.pos_str(self.obj)
            return batch_text(*self.obj)
        except Exception as e:
            return "unreadable " + type(e).__name__


# every implementation call of this process, in order (the replay of a state-dependent failure)
CALLS = []
HELD = []


def _log(call, kind, obj, snap):
    CALLS.append(call)
    if obj is not None:
        HELD.append(Held(kind, obj, snap, len(CALLS) - 1))


def batch_text(out, mask):
    import torch

    return rows_str(out.tolist()) + " | " + rows_str(mask.to(torch.int).tolist())


def impl_encode(pos, s, ps=None):
    """(canonical text, token list | None)"""
    call = {"op": "encode", "pos": ps if ps is not None else ser.pos_str(pos), "sentinel": int(s)}
    try:
        raw = _enc().encode(pos, bool(s))
        ts = [int(t) for t in raw]
    except Exception as e:
        _log(call, "encode", None, None)
        return "crash " + type(e).__name__, None
    _log(call, "encode", raw, toks_str(ts))
    return toks_str(ts), ts


def impl_decode(ts):
    import torch

    call = {"op": "decode", "tokens": toks_str(ts)}
    try:
        q = _enc().decode(torch.tensor(ts))
        out = "ok " + ser.pos_str(q)
    except Exception:
        _log(call, "decode", None, None)
        return "err"
    _log(call, "decode", q, out)
    return out


def impl_batch(poss, s, pss=None):
    call = {"op": "encode_batch", "batch": pss if pss is not None else [ser.pos_str(p) for p in poss], "sentinel": int(s)}
    try:
        out, mask = _enc().encode_batch(poss, bool(s))
        text = batch_text(out, mask)
    except Exception as e:
        _log(call, "encode_batch", None, None)
        return "crash " + type(e).__name__
    _log(call, "encode_batch", (out, mask), text)
    return text


def twin_of(pos):
    """the colour-swapped twin, built with the real classes: every piece changes colour, the
    reserves change hands, the other side is to move"""
    import tak
    from tak import pieces

    board = [[pieces.Piece.cached(pc.color.flip(), pc.kind) for pc in sq] for sq in pos.board]
    return tak.Position(size=pos.size, stones=(pos.stones[1], pos.stones[0]), ply=pos.ply + 1, board=board)


def sibling_of(pos):
    """same board, same reserves, the other side to move"""
    import tak

    return tak.Position(size=pos.size, stones=pos.stones, ply=pos.ply + 1, board=pos.board)


def with_reserves(pos, ws, wc, bs, bc, ply=None):
    import tak

    return tak.Position(
        size=pos.size,
        stones=(tak.StoneCounts(ws, wc), tak.StoneCounts(bs, bc)),
        ply=pos.ply if ply is None else ply,
        board=pos.board,
    )


# ---------------------------------------------------------------------------------------------
# generators


def _positions(ctx):
    """yield (label, position)"""
    import tak

    rng = ctx.rng
    if ctx.thorough:
        plan = {3: (120, 90, 150), 4: (90, 70, 120), 5: (60, 50, 90), 6: (40, 40, 80)}
    else:
        plan = {3: (20, 16, 30), 4: (16, 12, 24), 5: (12, 10, 20), 6: (10, 8, 16)}
    for size, (n_std, n_custom, n_cons) in plan.items():
        # reachable, standard reserves
        for g in range(n_std):
            policy = gen.POLICIES[g % len(gen.POLICIES)]
            game = gen.play_random_game(rng, tak.Config(size=size), policy, max_plies=8 * size * size)
            for i in _picks(rng, len(game), 6):
                yield "reach:std", game[i]
        # reachable, custom reserves inside the vocabulary
        for g in range(n_custom):
            policy = gen.POLICIES[(g + 2) % len(gen.POLICIES)]
            cfg = tak.Config(
                size=size,
                pieces=rng.choice([1, 2, size, 49, rng.randrange(1, 50), rng.randrange(1, 50)]),
                capstones=rng.choice([0, 1, 1]),
            )
            game = gen.play_random_game(rng, cfg, policy, max_plies=8 * size * size)
            for i in _picks(rng, len(game), 6):
                yield "reach:custom", game[i]
        # reachable, custom reserves that may leave the vocabulary (encode only)
        for g in range(2):
            cfg = tak.Config(size=size, pieces=rng.choice([50, 51, 60, 100]), capstones=rng.choice([0, 1, 2, 3]))
            game = gen.play_random_game(rng, cfg, "uniform", max_plies=12)
            for i in _picks(rng, len(game), 3):
                yield "reach:outside-vocab", game[i]
        # constructed
        for c in range(n_cons):
            tops = c % 5 != 4
            pos = gen.constructed_position(rng, size, tops_only=tops, derive_reserves=(c % 4 == 3))
            if c % 4 != 3:
                pos = with_reserves(
                    pos,
                    rng.choice([0, 49, rng.randrange(0, 50)]),
                    rng.randrange(0, 2),
                    rng.choice([0, 49, rng.randrange(0, 50)]),
                    rng.randrange(0, 2),
                )
            yield ("constructed" if tops else "constructed:notops"), pos
    # the reserve vocabulary, on an empty 3x3 board and on a 6x6 board with one stack
    from tak import pieces

    empty3 = [[] for _ in range(9)]
    one6 = [[] for _ in range(36)]
    one6[7] = [pieces.Piece.cached(pieces.Color.BLACK, pieces.Kind.STANDING), pieces.Piece.cached(pieces.Color.WHITE, pieces.Kind.FLAT)]
    for size, board in ((3, empty3), (6, one6)):
        if ctx.thorough and size == 3:
            combos = itertools.product(range(50), range(2), range(50), range(2))
        else:
            combos = itertools.chain(
                ((a, b, 17, 1) for a in range(50) for b in range(2)),
                ((23, 0, a, b) for a in range(50) for b in range(2)),
            )
        for ws, wc, bs, bc in combos:
            for ply in (4, 7):
                yield "vocab", tak.Position(
                    size=size, stones=(tak.StoneCounts(ws, wc), tak.StoneCounts(bs, bc)), ply=ply, board=board
                )


def _picks(rng, n, k):
    picks = {0, n - 1, min(1, n - 1), min(2, n - 1)}
    while len(picks) < min(k, n):
        picks.add(rng.randrange(n))
    return sorted(picks)


def _small_stacks(k):
    """all tops-only stacks of exactly k pieces, as letter strings (top first)"""
    if k == 0:
        return ["_"]
    tops = "abcdef"
    out = []
    for t in tops:
        for rest in itertools.product("ad", repeat=k - 1):
            out.append(t + "".join(rest))
    return out


def small_boards(kmax):
    """ALL 3x3 boards (as the list of 9 square strings) with at most kmax pieces, tops-only"""
    stacks = {k: _small_stacks(k) for k in range(kmax + 1)}

    def rec(sq, left):
        if sq == 9:
            yield []
            return
        for k in range(left + 1):
            for st in stacks[k]:
                for tail in rec(sq + 1, left - k):
                    yield [st] + tail

    return rec(0, kmax)


SMALL_RESERVES = ((10, 0, 10, 0), (5, 1, 7, 0), (7, 0, 5, 1))


def small_positions(kmax):
    """position texts of the small-board space: boards x side to move x reserve settings"""
    for b in small_boards(kmax):
        bs = ",".join(b)
        for ply in (2, 3):
            for r in SMALL_RESERVES:
                yield "3 %d %d %d %d %d %s" % (r[0], r[1], r[2], r[3], ply, bs)


# ---------------------------------------------------------------------------------------------
# observed cases (shared between tie and search)


class PosCase:
    __slots__ = ("label", "ps", "s", "enc", "enc_toks", "dec", "twin_ps", "enc_twin", "enc_twin_toks", "encwf", "call")

    def key(self):
        return (self.ps, self.s)


class BatchCase:
    __slots__ = ("poss", "s", "rows", "out", "call")


_STATE = {"pos": [], "batch": [], "small": [], "mutated": []}


def observe_position(label, pos, s, ps=None, want_decode=True, want_twin=True):
    c = PosCase()
    c.label = label
    c.ps = ps if ps is not None else ser.pos_str(pos)
    c.s = s
    c.enc, c.enc_toks = impl_encode(pos, s, c.ps)
    c.dec = impl_decode(c.enc_toks) if (want_decode and c.enc_toks is not None) else None
    c.twin_ps = c.enc_twin = c.enc_twin_toks = None
    if want_twin:
        tw = twin_of(pos)
        c.twin_ps = ser.pos_str(tw)
        c.enc_twin, c.enc_twin_toks = impl_encode(tw, s, c.twin_ps)
    c.encwf = None
    c.call = len(CALLS) - 1
    return c


def fill_encwf(cases):
    outs = driver.run_lines(["tokens encwf " + c.ps for c in cases])
    for c, o in zip(cases, outs):
        if o not in ("true", "false"):
            raise RuntimeError("driver could not parse position %r: %s" % (c.ps, o))
        c.encwf = o == "true"


def observe_batch(poss, s):
    b = BatchCase()
    b.poss = [ser.pos_str(p) for p in poss]
    b.s = s
    b.rows = [impl_encode(p, s, ps)[1] for p, ps in zip(poss, b.poss)]
    b.out = impl_batch(poss, s, b.poss)
    b.call = len(CALLS) - 1
    return b


# ---------------------------------------------------------------------------------------------
# tie


def tie(ctx):
    rng = ctx.rng
    divs = []
    cases = []
    pool = []  # (position, its include_sentinel=1 case), for batches
    for label, pos in _positions(ctx):
        ctx.count("pos:" + label)
        ctx.count("pos:size%d" % pos.size)
        first = len(cases)
        for s in (1, 0):
            cases.append(observe_position(label, pos, s))
        pool.append((pos, cases[first]))
        if label != "vocab":  # (the vocabulary sweep already visits every board with both movers)
            # state across calls: the same board and reserves with the OTHER side to move, then
            # the position itself once more
            sib = sibling_of(pos)
            for s in (1, 0):
                cases.append(observe_position("sibling", sib, s))
            for s in (1, 0):
                cases.append(observe_position("again", pos, s))
            ctx.count("pos:sibling+again")
    fill_encwf(cases)
    _STATE["pos"] = cases

    # the twin built here must be the twin the theorem speaks about (machinery self-check)
    firsts = [c for c in cases if c.s == 1]
    swaps = driver.run_lines(["tokens swap " + c.ps for c in firsts])
    for c, o in zip(firsts, swaps):
        if o != c.twin_ps:
            raise RuntimeError("harness twin %r differs from swapColours %r for %r" % (c.twin_ps, o, c.ps))

    lines, expect, meta = [], [], []
    for c in cases:
        ctx.evaluated()
        ctx.count("domain:" + ("EncWF" if c.encwf else "outside"))
        ctx.count("encode:" + ("crash" if c.enc_toks is None else "ok"))
        if c.ps.split(" ")[6].replace("_", "").replace(",", ""):
            ctx.nontrivial("%s|%d" % (c.ps, c.s))
        lines.append("tokens encode %d %s" % (c.s, c.ps))
        expect.append(c.enc)
        meta.append(("corr.tokens.encode", c))
        lines.append("tokens encode %d %s" % (c.s, c.twin_ps))
        expect.append(c.enc_twin)
        meta.append(("corr.tokens.twin", c))
        if c.encwf and c.enc_toks is not None:
            # decode is only claimed on encodings of positions of the domain
            lines.append("tokens decode " + c.enc)
            expect.append(c.dec)
            meta.append(("corr.tokens.decode", c))
            ctx.count("decode:" + c.dec.split(" ")[0])
    outs = driver.run_lines(lines)
    for (comp, c), io, mo in zip(meta, expect, outs):
        if io != mo:
            divs.append(Divergence(comp, {"pos": c.ps, "sentinel": c.s}, io, mo))
    for c in cases[:: max(1, len(cases) // 4)]:
        ctx.sample({"pos": c.ps, "sentinel": c.s, "encode": c.enc, "decode": c.dec})

    # ---- the small-board space (exhaustive): encode against the model; collisions in search
    kmax = 3 if ctx.thorough else 2
    small = []
    for ps in small_positions(kmax):
        pos = ser.parse_pos(ps.split(" "))
        small.append(observe_position("small", pos, 1, ps=ps, want_decode=False, want_twin=False))
        small[-1].encwf = True
    _STATE["small"] = small
    outs = driver.run_lines(["tokens encode 1 " + c.ps for c in small])
    for c, mo in zip(small, outs):
        ctx.evaluated()
        if c.enc != mo:
            divs.append(Divergence("corr.tokens.encode", {"pos": c.ps, "sentinel": 1}, c.enc, mo))
    ctx.count("small-board positions (all 3x3 boards with <= %d pieces x mover x 3 reserve settings)" % kmax, len(small))
    ctx.extra["exhaustive_subspaces"] = [
        "all 3x3 tops-only boards with <= %d pieces x side to move x reserves %s" % (kmax, list(SMALL_RESERVES)),
        "reserve vocabulary: every (stones 0..49, capstones 0..1) of one colour with the other fixed, both movers"
        + ("; full 4-way product on the 3x3 empty board" if ctx.thorough else ""),
    ]

    # ---- batches: shuffled, mixed sizes, adversarial length orders
    ok_pool = [p for p, c in pool if c.enc_toks is not None]
    enc_len = {id(p): len(c.enc_toks) for p, c in pool if c.enc_toks is not None}
    batches = []
    nb = 1500 if ctx.thorough else 300
    for k in range(nb):
        n = rng.choice([0, 1, 2, 2, 3, 4, 5, 8, 13])
        poss = [rng.choice(ok_pool) for _ in range(n)]
        mode = k % 5
        if mode == 1:
            poss.sort(key=lambda p: enc_len[id(p)])  # every row widens
        elif mode == 2:
            poss.sort(key=lambda p: -enc_len[id(p)])  # never widens after row 0
        elif mode == 3 and n >= 2:
            poss.sort(key=lambda p: enc_len[id(p)])
            poss[0], poss[-1] = poss[-1], poss[0]  # longest first, shortest last
        elif mode == 4 and n >= 2:
            poss[-1] = poss[0]  # equal lengths present
        else:
            rng.shuffle(poss)
        batches.append(observe_batch(poss, rng.choice([0, 1])))
    # corpus-sized batches (hundreds to thousands of rows, around powers of two): every row is still
    # the position's own encoding, whatever chunking or buffer growth happens inside
    for n in ([513, 1025, 2049, 700, 4100] if ctx.thorough else [513, 1030, 2051]):
        poss = [rng.choice(ok_pool) for _ in range(n)]
        if n % 2:
            # a few wide rows late in the batch (the buffer widens after many rows were written)
            poss[-3:] = by_len_late = sorted(ok_pool, key=lambda p: enc_len[id(p)])[-3:]
        batches.append(observe_batch(poss, rng.choice([0, 1])))
        ctx.count("batch:large(>512 rows)")
    # sessions of calls whose results are all held: a batch, then a smaller one (fewer rows AND
    # narrower), a larger one, one of equal shape, the same positions with the other flag, the
    # empty batch, a single position, and the first batch again
    by_len = sorted(ok_pool, key=lambda p: enc_len[id(p)])
    for k in range(120 if ctx.thorough else 30):
        n = rng.choice([2, 3, 4, 6, 9])
        base = [rng.choice(ok_pool) for _ in range(n)]
        s = rng.choice([0, 1])
        width = max(enc_len[id(p)] for p in base)
        narrower = [p for p in by_len if enc_len[id(p)] <= width] or base
        session = [
            (base, s),
            ([rng.choice(narrower) for _ in range(rng.randrange(1, n + 1))], s),
            (base + [rng.choice(ok_pool) for _ in range(rng.randrange(1, 5))] + [by_len[-1 - rng.randrange(3)]], s),
            (rng.sample(base, n), s),
            (base, 1 - s),
            ([], s),
            ([rng.choice(narrower)], rng.choice([0, 1])),
            (base, s),
        ]
        if k % 2:
            session[1], session[2] = session[2], session[1]  # larger first, then smaller
        for poss, ss in session:
            batches.append(observe_batch(list(poss), ss))
        ctx.count("batch:sessions(held results, 8 calls each)")
    _STATE["batch"] = batches
    outs = driver.run_lines(["tokens batch " + rows_str(b.rows) for b in batches])
    for b, mo in zip(batches, outs):
        ctx.evaluated()
        lens = {len(r) for r in b.rows}
        ctx.count("batch:rows=%s" % ("0" if not b.rows else "1" if len(b.rows) == 1 else "2+"))
        if len(lens) > 1:
            ctx.count("batch:mixed-lengths")
            ctx.nontrivial("batch|%d|%s" % (b.s, ";".join(b.poss)))
        if b.out != mo:
            divs.append(Divergence("corr.tokens.batch", {"batch": b.poss, "sentinel": b.s}, b.out, mo))
    if batches:
        b = batches[min(3, len(batches) - 1)]
        ctx.sample({"batch": b.poss, "sentinel": b.s, "out|mask": b.out})

    # ---- every value returned during this run is still held: it must still be what it was
    mutated = changed_held(HELD)
    _STATE["mutated"] = mutated
    for kind in ("encode", "decode", "encode_batch"):
        ctx.count("held:%s results re-checked at the end" % kind, sum(1 for h in HELD if h.kind == kind))
    ctx.evaluated(len(HELD))
    for h, now in mutated:
        divs.append(
            Divergence("corr.tokens.held", {"held_call": h.call, "call": CALLS[h.call]}, now, "(a returned value does not change) " + h.snap)
        )
    return divs


def changed_held(held):
    """[(held, text now)] for every retained result that no longer reads as it did at return time"""
    out = []
    for h in held:
        now = h.now()
        if now != h.snap:
            out.append((h, now))
    return out


# ---------------------------------------------------------------------------------------------
# predicates (evaluated by the driver) and search

RT_KEY = {"reserves": "reserves-lost", "board": "roundtrip-board", "size": "roundtrip-board", "tomove": "roundtrip-tomove"}


def position_failures(cases):
    """For cases inside the domain: list of (case, key, text) where a C06 predicate fails on
    the implementation's own outputs."""
    lines, meta = [], []
    bad = []
    for c in cases:
        if not c.encwf:
            continue
        if c.enc_toks is None:
            bad.append((c, "encode-crash", "encode raises (%s) on a position of the domain" % c.enc))
            continue
        lines.append("tokens bytes " + c.enc)
        meta.append((c, "bytes"))
        if c.dec is not None:
            if c.dec.startswith("ok "):
                lines.append("tokens roundtrip %s %s" % (c.ps, c.dec[3:]))
                meta.append((c, "roundtrip"))
            else:
                bad.append((c, "roundtrip-board", "decode raises on the encoding %s of the position" % c.enc))
        if c.enc_twin is not None:
            if c.enc_twin_toks is None:
                bad.append((c, "encode-crash", "encode raises (%s) on the colour-swapped twin %s" % (c.enc_twin, c.twin_ps)))
            else:
                lines.append("tokens twin %d %s %s" % (c.s, c.enc, c.enc_twin))
                meta.append((c, "twin"))
    outs = driver.run_lines(lines)
    for (c, what), o in zip(meta, outs):
        if what == "bytes" and o != "true":
            bad.append((c, "token-range", "encode emits a token that does not fit in a byte: %s" % c.enc))
        elif what == "roundtrip" and o != "ok":
            key = RT_KEY.get(o, "roundtrip-board")
            bad.append((c, key, "decode(encode(p)) = [%s] does not have the %s of p (encoding %s)" % (c.dec[3:], o, c.enc)))
        elif what == "twin" and o != "true":
            bad.append(
                (c, "not-mover-relative", "encode(p) = %s but encode(colour-swapped twin %s) = %s: differs in more than the to-play token" % (c.enc, c.twin_ps, c.enc_twin))
            )
    return bad


def collisions(cases):
    """distinct (board, side to move, reserves) triples of the domain with one encoding"""
    buckets = {}
    for c in cases:
        if c.encwf and c.enc_toks is not None:
            buckets.setdefault((c.s, c.enc), {}).setdefault(c.ps, c)
    lines, meta = [], []
    for (s, enc), d in buckets.items():
        if len(d) > 1:
            cs = sorted(d.values(), key=lambda c: (len(c.ps), c.ps))
            for other in cs[1:]:
                lines.append("tokens sametriple %s %s" % (cs[0].ps, other.ps))
                meta.append((cs[0], other))
    outs = driver.run_lines(lines)
    return [(a, b) for (a, b), o in zip(meta, outs) if o != "true"]


def batch_failures(batches):
    lines, meta, bad = [], [], []
    for b in batches:
        if any(r is None for r in b.rows):
            continue
        if b.out.startswith("crash"):
            bad.append((b, "batch-crash"))
            continue
        out, mask = b.out.split(" | ")
        lines.append("tokens batchok %s %s %s" % (rows_str(b.rows), out, mask))
        meta.append(b)
    outs = driver.run_lines(lines)
    for b, o in zip(meta, outs):
        if o != "ok":
            bad.append((b, {"mask": "batch-mask", "row": "batch-row"}.get(o, "batch-row")))
    return bad


def _reobserve(ps, s):
    pos = ser.parse_pos(ps.split(" "))
    c = observe_position("replay", pos, s, ps=ps)
    fill_encwf([c])
    return c


def shrink_position(c, key):
    """empty squares / drop buried pieces while the same predicate still fails"""
    toks = c.ps.split(" ")
    board = toks[6].split(",")

    def fails(b):
        c2 = _reobserve(" ".join(toks[:6] + [",".join(b)]), c.s)
        hit = [x for x in position_failures([c2]) if x[1] == key]
        return hit[0] if hit else None

    best = None
    for i in range(len(board)):
        for cand in ("_", board[i][:1]):
            if board[i] == cand or board[i] == "_":
                continue
            b2 = list(board)
            b2[i] = cand
            h = fails(b2)
            if h:
                board, best = b2, h
                break
    return best


def shrink_batch(b, key):
    import tak  # noqa

    poss = [ser.parse_pos(ps.split(" ")) for ps in b.poss]
    cur = b
    i = 0
    while i < len(poss) and len(poss) > 1:
        cand = poss[:i] + poss[i + 1 :]
        b2 = observe_batch(cand, b.s)
        if [x for x in batch_failures([b2]) if x[1] == key]:
            poss, cur = cand, b2
        else:
            i += 1
    return cur


def search(ctx, divergences, broken):
    vs = []
    cases = _STATE["pos"]
    small = _STATE["small"]
    if not cases:  # tie did not run to the point of observing (should not happen)
        return vs
    explained_pos = set()
    by_key = {}
    for c, key, text in position_failures(cases):
        by_key.setdefault(key, []).append((c, text))
        explained_pos.add(c.key())
    for key, lst in by_key.items():
        lst.sort(key=lambda x: (len(x[0].ps), x[0].ps, -x[0].s))
        c, text = lst[0]
        try:
            h = shrink_position(c, key)
            if h:
                c, _, text = h
        except Exception:
            pass
        c0 = lst[0][0]
        rp, how = confirmed_replay(
            key,
            [{"kind": "position", "pos": c.ps, "sentinel": c.s}, {"kind": "position", "pos": c0.ps, "sentinel": c0.s}]
            + sequence_candidates(cases, c0),
        )
        vs.append(
            Violation(
                key,
                "pos=[%s] include_sentinel=%d: %s (%d such cases in this run)%s" % (c.ps, c.s, text, len(lst), how),
                rp,
            )
        )
    # collisions: the generated positions and the small-board space (quick: <= 2 pieces; thorough: <= 3)
    col = collisions(cases + small)
    if col:
        col.sort(key=lambda ab: (len(ab[0].ps) + len(ab[1].ps), ab[0].ps, ab[1].ps))
        a, b = col[0]
        for x, y in col:
            explained_pos.add(x.key())
            explained_pos.add(y.key())
        vs.append(
            Violation(
                "collision",
                "distinct positions [%s] and [%s] (include_sentinel=%d) both encode to %s (%d colliding pairs in this run)"
                % (a.ps, b.ps, a.s, a.enc, len(col)),
                {"kind": "collision", "pos": a.ps, "pos2": b.ps, "sentinel": a.s},
            )
        )
    ctx.count("search:collision candidates", len(cases) + len(small))
    # batches
    bb = {}
    explained_batch = set()
    for b, key in batch_failures(_STATE["batch"]):
        bb.setdefault(key, []).append(b)
        explained_batch.add((tuple(b.poss), b.s))
    for key, lst in bb.items():
        lst.sort(key=lambda b: (len(b.poss), sum(map(len, b.poss))))
        b = lst[0]
        try:
            b = shrink_batch(b, key)
        except Exception:
            pass
        vs.append(
            Violation(
                key,
                "encode_batch(%d positions, include_sentinel=%d) returns [%s] for the per-position encodings [%s]: "
                "not the rows padded with 0 under a mask of exactly the real tokens (%d such batches in this run)"
                % (len(b.poss), b.s, b.out, rows_str(b.rows), len(lst)),
                {"kind": "batch", "batch": b.poss, "sentinel": b.s},
            )
        )
    # results that a later call changed
    mutated = _STATE.get("mutated") or []
    explained_held = set()
    if mutated:
        by_call = {b.call: b for b in _STATE["batch"]}
        lines, meta = [], []
        for h, now in mutated:
            explained_held.add(h.call)
            b = by_call.get(h.call)
            if h.kind == "encode_batch" and b is not None and " | " in now and all(r is not None for r in b.rows):
                out, mask = now.split(" | ")
                lines.append("tokens batchok %s %s %s" % (rows_str(b.rows), out, mask))
                meta.append(h.call)
        verdict = dict(zip(meta, driver.run_lines(lines)))
        mutated.sort(key=lambda hn: (len(hn[0].snap), hn[0].call))
        h, now = mutated[0]
        rp, how = confirmed_replay("result-mutated-by-later-call", held_candidates(h))
        vs.append(
            Violation(
                "result-mutated-by-later-call",
                "the value returned by call #%d %s was [%s] at return time and reads [%s] after later calls%s "
                "(%d retained results changed in this run)%s"
                % (
                    h.call,
                    json.dumps(CALLS[h.call]),
                    h.snap,
                    now,
                    (": the driver's batch predicate on it now says '%s'" % verdict[h.call]) if h.call in verdict else "",
                    len(mutated),
                    how,
                ),
                rp,
            )
        )
    for d in divergences:
        if "held_call" in d.input and d.input["held_call"] in explained_held:
            d.explained = True
        if "pos" in d.input and (d.input["pos"], d.input["sentinel"]) in explained_pos:
            d.explained = True
        if "batch" in d.input and (tuple(d.input["batch"]), d.input["sentinel"]) in explained_batch:
            d.explained = True
    return vs


# ---------------------------------------------------------------------------------------------
# replays that depend on what the process did before: call sequences, confirmed in a fresh process

_FRESH = """
import json, sys
from harness.lib import env
env.setup_impl_path(None)
from harness.props import c06
vs = c06.replay(None, json.load(sys.stdin))
print("RESULT " + json.dumps([v.key for v in vs]))
"""


def fresh_keys(rp, timeout=600):
    """run a replay in a NEW interpreter (no state left over from this run); the keys it reports"""
    r = subprocess.run(
        [env.PYTHON, "-c", _FRESH], cwd=env.VERIF, input=json.dumps({"replay": rp}).encode(), stdout=subprocess.PIPE, stderr=subprocess.PIPE, timeout=timeout
    )
    for line in r.stdout.decode().splitlines():
        if line.startswith("RESULT "):
            return json.loads(line[7:])
    raise RuntimeError("fresh replay failed: " + r.stderr.decode(errors="replace")[-1500:])


def confirmed_replay(key, candidates, limit=5):
    """the first candidate replay that shows `key` again in a fresh process"""
    tried = 0
    for rp in candidates:
        if tried >= limit:
            break
        tried += 1
        try:
            if key in fresh_keys(rp):
                return rp, "" if rp.get("kind") != "calls" else " [state-dependent: the replay is the sequence of %d calls]" % len(rp["calls"])
        except Exception:
            continue
    return candidates[-1], " [not reproduced in a fresh process by %d shorter replays; replay = the longest call sequence tried]" % tried


def sequence_candidates(cases, c):
    """call sequences ending in the observation of `c`: the cases observed just before it"""
    i = cases.index(c)
    out = []
    for back in (1, 2, 4, 8):
        seq = [{"op": "position", "pos": x.ps, "sentinel": x.s} for x in cases[max(0, i - back) : i + 1]]
        out.append({"kind": "calls", "calls": seq})
    out.append({"kind": "calls", "calls": CALLS[: c.call + 1] + [{"op": "position", "pos": c.ps, "sentinel": c.s}]})
    return out


def _shape(call):
    b = call.get("batch", [])
    return len(b), max([len(x) for x in b] or [0])


def held_candidates(h):
    """call sequences that start with the call whose result is held, followed by later calls"""
    first = CALLS[h.call]
    later = CALLS[h.call + 1 :]
    same = [c for c in later if c["op"] == first["op"]]
    picks = []
    if first["op"] == "encode_batch":
        n, w = _shape(first)
        fits = [c for c in same if _shape(c)[0] <= n and _shape(c)[1] <= w and _shape(c)[0] > 0]
        picks += fits[:1] + same[:1] + [c for c in same if _shape(c)[0] >= n and _shape(c)[1] >= w][:1]
    else:
        picks += later[:1] + same[:1]
    out = [{"kind": "calls", "calls": [first, c]} for c in picks]
    if same:
        out.append({"kind": "calls", "calls": [first] + same[:8]})
    out.append({"kind": "calls", "calls": [first] + later[:200]})
    out.append({"kind": "calls", "calls": CALLS[: h.call + 1] + later[:2000]})
    return out


def replay_calls(r):
    """run a call sequence with every result held; all C06 predicates on what was observed"""
    vs = []
    h0, cases, batches = len(HELD), [], []
    for call in r["calls"]:
        op, s = call["op"], int(call.get("sentinel", 1))
        if op == "position":
            cases.append(_reobserve(call["pos"], s))
        elif op == "encode":
            impl_encode(ser.parse_pos(call["pos"].split(" ")), s, call["pos"])
        elif op == "decode":
            impl_decode([] if call["tokens"] == "-" else [int(x) for x in call["tokens"].split(",")])
        elif op == "encode_batch":
            batches.append(observe_batch([ser.parse_pos(ps.split(" ")) for ps in call["batch"]], s))
    for h, now in changed_held(HELD[h0:]):
        vs.append(
            Violation(
                "result-mutated-by-later-call",
                "the value returned by %s was [%s] at return time and reads [%s] after the later calls of the sequence"
                % (json.dumps(CALLS[h.call]), h.snap, now),
                r,
            )
        )
    for c, key, text in position_failures(cases):
        vs.append(Violation(key, "pos=[%s] include_sentinel=%d: %s" % (c.ps, c.s, text), r))
    for x, y in collisions(cases):
        vs.append(Violation("collision", "distinct positions [%s] and [%s] both encode to %s" % (x.ps, y.ps, x.enc), r))
    for b, key in batch_failures(batches):
        vs.append(Violation(key, "encode_batch gives [%s] for rows [%s]" % (b.out, rows_str(b.rows)), r))
    return vs


def replay(ctx, data):
    r = data.get("replay", data)
    kind = r.get("kind", "position")
    s = int(r.get("sentinel", 1))
    vs = []
    if kind == "calls":
        return replay_calls(r)
    if kind == "position":
        c = _reobserve(r["pos"], s)
        for c, key, text in position_failures([c]):
            vs.append(Violation(key, "pos=[%s] include_sentinel=%d: %s" % (c.ps, c.s, text), r))
    elif kind == "collision":
        a, b = _reobserve(r["pos"], s), _reobserve(r["pos2"], s)
        for x, y in collisions([a, b]):
            vs.append(Violation("collision", "distinct positions [%s] and [%s] both encode to %s" % (x.ps, y.ps, x.enc), r))
    elif kind == "batch":
        b = observe_batch([ser.parse_pos(ps.split(" ")) for ps in r["batch"]], s)
        for b, key in batch_failures([b]):
            vs.append(Violation(key, "encode_batch gives [%s] for rows [%s]" % (b.out, rows_str(b.rows)), r))
    return vs

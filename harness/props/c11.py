"""C11 — a self-play transcript is a legal game with correct outcome labels.

The real `tak.self_play.play_one_game` is run in-process against
  * SCRIPTED engines (an object with `analyze`, `tree_probs`, `stats`) that force chosen legal
    lines to each ending (road for either colour, double road, flat win on a full board, drawn
    flat count, reserve exhaustion, resignation in either direction at / just below the
    threshold, ply limit hit exactly / exceeded by one), the children being built with the real
    `Position.move`, dyadic probabilities / values, and the sampler's draw forced or recorded
    by wrapping `torch.multinomial`;
  * the real `MCTS` with harness evaluators (uniform, random, and a deterministic "shuffler" that
    steers games into recurring boards), each engine object playing several games in a row.
Every engine call is recorded from outside (`Recorder`).  For every game the harness sends
  `selfplay ok   <cfg> <implementation transcript + observer's trace + Transcript.results>`
  `selfplay play <cfg> <recorded engine answers>`
to the Lean driver: the first evaluates the decidable `TranscriptOK` of Spec/TranscriptOK.lean on
the implementation's data, the second runs the model `playOneGame` on the same oracle; the
model's transcript is diffed with the implementation's.  No predicate is evaluated in Python.
"""
import contextlib
import json
import math
import os
from fractions import Fraction

from ..check import Divergence, Violation
from ..lib import driver, env, gen, ser

ID = "C11"
LEAN_MODULES = ["TakVerif.Props.C11"]
NEEDS_EXT = True
NEEDS_STUBS = True
RULE = (
    "one evaluation = one complete game of the real play_one_game, checked twice: TranscriptOK decided by the Lean "
    "driver on the implementation's transcript (+ observed v_zero / sampled index / Transcript.results), and the model's "
    "transcript for the recorded engine answers diffed with the implementation's (positions, candidates, probabilities, "
    "result, labels exactly; values as correctly rounded quotients). Scripted games: lines to every ending found by random "
    "legal play with the real rules on 3x3..5x5 (+ fixtures in corpus/C11), each replayed with ply limits T-2..T+1 around the "
    "terminal ply T, 0, -1, large; resignation injected at a random ply for White and Black to move, claim and give-up, "
    "|v0| == threshold and one ulp-ish (2^-20) below, thresholds 1/2, 3/4, 0.95, 1, 0, -1/2; candidate subsets with dyadic "
    "probabilities, forced or one-hot draws, |value| up to simulations. Real MCTS: uniform and random evaluators, sizes "
    "3..5 (6 thorough), budgets 1..32, thresholds and limits varied; plus a deterministic 'shuffler' evaluator (a pure "
    "function of the token encoding, like a network) that places 2..5 flats and then only slides them over empty squares, so "
    "that boards recur and the ply limit is what ends the game (counted: games-with-a-recurring-board); every engine object "
    "plays 1..3 games in a row (engine lifetime = many games, as in run_job; counted: engine-game-no). A game that asks for "
    "more than ply_limit+2 searches is stopped by the recorder and TranscriptOK is evaluated on the positions it searched. Non-trivial = distinct (cfg, realised line); the "
    "histogram counts endings, sizes, engine kinds."
)
TRUSTED = [
    "the driver's adjudication is winnerOutcome = Impl.winner of Model/Winner.lean (C02 proves Impl.winner = Spec.outcome); it is "
    "tied to the implementation on every position that ends a game or is recorded (op `selfplay outcome`)",
    "modelled, not verified: torch.multinomial returns an index below len(probs); numpy/torch float32 -> Python float is exact",
]
ASSUMPTIONS = [
    "engine answers satisfy AnswerOK (C08/C09/C10): children accepted by Position.move with their positions, one "
    "probability per child summing to 1 within eps (0 scripted, 1.1e-3 real search), |value| <= simulations >= 1",
    "C01_move_refines_rules (hypothesis h01 of C11_chain/_stops/_result/_model_satisfies_spec)",
    "sizes 3..8 (Config has no default reserves beyond 8); threshold and ply limit finite numbers",
]

MCTS_EPS = Fraction(11, 10000)
TINY = Fraction(1, 2 ** 20)

# ------------------------------------------------------------------ serialisation


def fr(x):
    """exact rational of a number the implementation holds (None for nan/inf)"""
    if isinstance(x, Fraction):
        return x
    if isinstance(x, bool):
        return Fraction(int(x))
    if isinstance(x, int):
        return Fraction(x)
    try:
        x = float(x)
    except Exception:
        return None
    if math.isnan(x) or math.isinf(x):
        return None
    return Fraction(x)


def fs(q):
    if q is None:
        return "nan"
    q = Fraction(q)
    return str(q.numerator) if q.denominator == 1 else "%d/%d" % (q.numerator, q.denominator)


def color_tok(r):
    import tak

    if r is None:
        return "N"
    if isinstance(r, tak.Color):
        return "W" if r == tak.Color.WHITE else "B"
    return "X"


def cfg_tokens(cfg, eps):
    return [str(cfg["size"]), fs(Fraction(cfg["threshold"])), str(cfg["ply_limit"]), fs(eps)]


def sec(tag, items):
    return [tag, str(len(items))] + [t for it in items for t in it]


def transcript_tokens(log):
    """P / M / Q / V sections of what the implementation recorded"""
    toks = [color_tok(log.result)]
    toks += sec("P", [ser.pos_str(p).split(" ") for p in log.positions])
    toks += sec("M", [[str(len(ms))] + [t for m in ms for t in ser.move_str(m).split(" ")] for ms in log.moves])
    toks += sec("Q", [[str(len(ps))] + [fs(fr(x)) for x in list(ps)] for ps in log.probs])
    toks += sec("V", [[fs(fr(v))] for v in log.values])
    return toks


# ------------------------------------------------------------------ engines


class FakeNode:
    def __init__(self, move, position):
        self.move = move
        self.position = position


class FakeTree:
    def __init__(self, position, children, value, simulations, v_zero, probs, force):
        self.position = position
        self.move = None
        self.children = children
        self.value = value
        self.simulations = simulations
        self.v_zero = v_zero
        self._probs = probs
        self._force = force


class FakeStats:
    pass


def first_legal(pos):
    import tak

    for m in pos.all_moves():
        try:
            pos.move(m)
            return m
        except tak.IllegalMove:
            continue
    return None


class Scripted:
    """engine following `line` (list of entries: cands, probs, value, sims, v0, chosen, force);
    when the line is used up, `fallback(pos, i)` supplies the entry (default: first legal move,
    one-hot), so a replay never fails for want of script"""

    def __init__(self, line, fallback=None):
        self.line = line
        self.fallback = fallback
        self.i = 0
        self.stats = FakeStats()
        self.pending_force = None

    def entry(self, pos):
        if self.i < len(self.line):
            return self.line[self.i]
        if self.fallback is not None:
            return self.fallback(pos, self.i)
        m = first_legal(pos)
        return dict(cands=[ser.move_str(m)], probs=["1"], value="0", sims=1, v0="0", chosen=0, force=False)

    def analyze(self, pos):
        import tak

        e = self.entry(pos)
        self.i += 1
        moves = [ser.parse_move(s.split(" ")) for s in e["cands"]]
        try:
            children = [FakeNode(m, pos.move(m)) for m in moves]  # the REAL Position.move
        except tak.IllegalMove:
            # the game has left the scripted line (the code under test went somewhere else than
            # the sampled child): keep playing legally, the transcript predicate will say what broke
            m = first_legal(pos)
            e = dict(cands=[ser.move_str(m)], probs=["1"], value="0", sims=1, v0="0", chosen=0, force=False)
            children = [FakeNode(m, pos.move(m))]
        return FakeTree(
            pos,
            children,
            float(Fraction(e["value"])),
            int(e["sims"]),
            float(Fraction(e["v0"])),
            [float(Fraction(p)) for p in e["probs"]],
            int(e["chosen"]) if e.get("force") else None,
        )

    def tree_probs(self, tree):
        import torch

        self.pending_force = tree._force
        return torch.tensor(tree._probs, dtype=torch.float32)


class GameDidNotStop(Exception):
    pass


class Recorder:
    """wraps any engine; notes every answer the way play_one_game can see it"""

    def __init__(self, inner):
        self.inner = inner
        self.answers = []
        self.awaiting = False
        self.engine_failed = False  # the engine (or the sampler on the engine's probabilities) raised
        self.max_calls = None  # give up on a game that asks for more searches than this
        self.ran_away = False

    @property
    def stats(self):
        return self.inner.stats

    @stats.setter
    def stats(self, v):
        self.inner.stats = v

    def analyze(self, pos):
        self.awaiting = False
        if self.max_calls is not None and len(self.answers) >= self.max_calls:
            # a game never needs more than ply_limit + 1 searches; this one does not stop
            self.ran_away = True
            raise GameDidNotStop()
        try:
            tree = self.inner.analyze(pos)
        except Exception:
            self.engine_failed = True
            raise
        self.answers.append(
            dict(
                pos=pos,
                children=[(c.move, c.position) for c in tree.children],
                value=tree.value,
                sims=tree.simulations,
                v0=tree.v_zero,
                probs=None,
                chosen=None,
            )
        )
        return tree

    def tree_probs(self, tree):
        try:
            probs = self.inner.tree_probs(tree)
        except Exception:
            self.engine_failed = True
            raise
        self.answers[-1]["probs"] = [float(x) for x in probs.detach().clone().tolist()]
        self.awaiting = True
        return probs


@contextlib.contextmanager
def sampler_hook(rec):
    """record (and, for a scripted engine that says so, force) the draw play_one_game makes
    right after `tree_probs`; draws made inside the engine's own search are left alone"""
    import torch

    orig = torch.multinomial

    def multinomial(input, num_samples, *a, **k):
        if rec.awaiting:
            rec.awaiting = False
            forced = getattr(rec.inner, "pending_force", None)
            if forced is not None:
                rec.inner.pending_force = None
                r = torch.tensor([forced])
            else:
                try:
                    r = orig(input, num_samples, *a, **k)
                except Exception:
                    rec.engine_failed = True  # probabilities the sampler refuses (inf/nan/negative/all zero)
                    raise
            rec.answers[-1]["chosen"] = int(r.reshape(-1)[0].item())
            return r
        return orig(input, num_samples, *a, **k)

    torch.multinomial = multinomial
    try:
        yield
    finally:
        torch.multinomial = orig


class Uniform:
    def __init__(self, value):
        self.value = value

    def evaluate(self, pos):
        import torch
        from tak.model import encoding

        n = encoding.n_moves_for_size(pos.size)
        return torch.full((encoding.MAX_MOVE_ID,), 1.0 / n), self.value


class RandomEval:
    """random priors (floor well above the cut-off) and dyadic values from its own generator"""

    def __init__(self, seed):
        import random

        self.rng = random.Random(seed)

    def evaluate(self, pos):
        import torch
        from tak.model import encoding

        n = encoding.n_moves_for_size(pos.size)
        g = torch.Generator()
        g.manual_seed(self.rng.randrange(1 << 30))
        raw = torch.rand(n, generator=g) + 0.05
        out = torch.zeros(encoding.MAX_MOVE_ID)
        out[:n] = raw / raw.sum()
        return out, self.rng.randrange(-16, 17) / 16.0


class Sharp:
    """a confident network: nearly all prior mass on two or three moves, every other move of the
    table just above the search's cut-off, and an evaluation that likes the position for the side
    to move (so that after a few visits the unvisited floor moves look best: the regularised
    policy then hinges on alpha to many digits)"""

    def __init__(self, seed, value):
        import random

        self.rng = random.Random(seed)
        self.value = value

    def evaluate(self, pos):
        import torch
        from tak.model import encoding

        from ..lib import treedump as td

        n = encoding.n_moves_for_size(pos.size)
        floor = self.rng.choice([1.5e-6, 2e-6, 3e-6, 1e-5])
        out = torch.zeros(encoding.MAX_MOVE_ID)
        legal = td.legal_ids(pos)
        if self.rng.random() < 0.5:
            out[:n] = floor  # the whole table at the floor
            mass = floor * n
        else:
            for i in legal:  # only what can be played
                out[i] = floor
            mass = floor * len(legal)
        k = self.rng.choice([1, 2, 3, 3])
        heavy = legal[:k] if self.rng.random() < 0.5 else self.rng.sample(legal, min(k, len(legal)))
        for i in heavy:
            out[i] = (1.0 - mass) / max(1, len(heavy))
        return out, self.value


class Shuffler:
    """A deterministic evaluator that, like a network, is a pure function of what the network
    sees (the token encoding: board, reserves, side to move -- not the ply).  While fewer than
    `stones` pieces are on the board it wants to place a flat; after that it only wants to
    SLIDE, so the game walks through the finite set of arrangements of those few pieces and
    comes back to boards it has been on (no road is possible with so few pieces): long games up
    to the ply limit with few distinct boards.  Which move it prefers is a hash of (salt,
    encoding, move); `focus` of the prior mass goes to the preferred move, the rest is spread
    over the other moves of the same kind (well above the search's cut-off)."""

    def __init__(self, salt, stones, focus, value):
        self.salt = salt
        self.stones = stones
        self.focus = focus
        self.value = value

    def evaluate(self, pos):
        import zlib

        import tak
        import torch
        from tak.model import encoding

        key = bytes(encoding.encode(pos, include_sentinel=False))
        on_board = sum(len(sq) for sq in pos.board)
        want_slide = on_board >= self.stones
        cands, quiet = [], []
        for m in pos.all_moves():
            if m.type.is_slide() != want_slide or m.type in (tak.MoveType.PLACE_STANDING, tak.MoveType.PLACE_CAPSTONE):
                continue
            try:
                pos.move(m)
            except tak.IllegalMove:
                continue
            cands.append(m)
            if want_slide:
                dx, dy = m.type.direction()
                if all(len(pos[m.x + dx * (j + 1), m.y + dy * (j + 1)]) == 0 for j in range(len(m.slides))):
                    quiet.append(m)  # covers nothing: every piece stays a top piece and keeps moving
        if quiet:
            cands = quiet
        out = torch.zeros(encoding.MAX_MOVE_ID)
        if not cands:  # nothing of the wanted kind: no opinion
            n = encoding.n_moves_for_size(pos.size)
            out[:n] = 1.0 / n
            return out, self.value
        ids = [encoding.encode_move(pos.size, m) for m in cands]
        best = max(ids, key=lambda i: zlib.crc32(key + b"/%d/%d" % (self.salt, i)))
        if len(ids) == 1:
            out[best] = 1.0
        else:
            for i in ids:
                out[i] = (1.0 - self.focus) / (len(ids) - 1)
            out[best] = self.focus
        return out, self.value


# ------------------------------------------------------------------ running one case


class Obs:
    pass


def build_engine(case, fallback=None):
    if case["kind"] == "scripted":
        return Scripted(case["line"], fallback)
    from tak import mcts

    m = case["mcts"]
    if m["evaluator"] == "uniform":
        ev = Uniform(float(Fraction(m["value"])))
    elif m["evaluator"] == "shuffler":
        ev = Shuffler(m["eval_seed"], m["stones"], float(Fraction(m["focus"])), float(Fraction(m["value"])))
    elif m["evaluator"] == "sharp":
        ev = Sharp(m["eval_seed"], float(Fraction(m["value"])))
    else:
        ev = RandomEval(m["eval_seed"])
    return mcts.MCTS(mcts.Config(time_limit=0, simulation_limit=m["sims"], C=m.get("C", 4)), ev)


def play(engine, c, torch_seed=None):
    """one game of the real play_one_game on `engine` (which may have played before)"""
    import torch
    from tak import self_play

    cfg = self_play.SelfPlayConfig(
        engine_factory=None,
        size=c["size"],
        workers=1,
        resignation_threshold=float(Fraction(c["threshold"])),
        ply_limit=c["ply_limit"],
    )
    rec = Recorder(engine)
    rec.max_calls = max(int(c["ply_limit"]), -1) + 3
    if torch_seed is not None:
        torch.manual_seed(torch_seed)
    log, crash = None, None
    with sampler_hook(rec):
        try:
            log = self_play.play_one_game(cfg, rec)
        except Exception as e:  # the game function has no domain error of its own
            crash = type(e).__name__
    return rec, log, crash


def run_case(case, fallback=None, engine=None):
    """play one game with the real code; returns what was observed.
    `case["mcts"]["before"]` lists the games (cfg, torch seed) the same engine object played
    earlier in its life, as a worker's engine does in run_job; they are played again first
    unless the caller hands in the engine in that state."""
    if engine is None:
        engine = build_engine(case, fallback)
        if case["kind"] == "mcts":
            for b in case["mcts"].get("before", []):
                play(engine, b["cfg"], b["torch_seed"])
    rec, log, crash = play(engine, case["cfg"], case["mcts"]["torch_seed"] if case["kind"] == "mcts" else None)
    if log is not None and case.get("via_pickle"):
        # the transcript as the trainer receives it from a self-play worker: through a pickle
        import pickle

        try:
            log = pickle.loads(pickle.dumps(log))
        except Exception as e:
            log, crash = None, "pickle:" + type(e).__name__
    o = Obs()
    o.case = case
    o.rec = rec
    o.log = log
    o.crash = crash
    o.engine = engine
    o.labels = None
    if o.log is not None:
        try:
            o.labels = list(o.log.results)
        except Exception as e:
            o.crash = "results:" + type(e).__name__
    elif rec.ran_away:
        # the game did not stop and play_one_game's own log is lost with its frame: what the
        # driver is shown instead is what the engine was asked (the positions searched, with
        # their candidates, probabilities and values), recorded as a game without a winner
        o.log = SearchedPositions(rec)
        o.labels = [0] * len(rec.answers)
    return o


class SearchedPositions:
    """stand-in for the transcript of a game that never returned: the searches it asked for"""

    def __init__(self, rec):
        self.positions = [a["pos"] for a in rec.answers]
        self.moves = [[m for m, _ in a["children"]] for a in rec.answers]
        self.probs = [a["probs"] or [] for a in rec.answers]
        self.values = [Fraction(fr(a["value"]) or 0) / max(1, int(a["sims"])) for a in rec.answers]
        self.result = None


def realised_line(o):
    """the engine's answers as an explicit script (what a replay needs)"""
    out = []
    for a in o.rec.answers:
        out.append(
            dict(
                cands=[ser.move_str(m) for m, _ in a["children"]],
                probs=[fs(fr(x)) for x in (a["probs"] or [])],
                value=fs(fr(a["value"])),
                sims=int(a["sims"]),
                v0=fs(fr(a["v0"])),
                chosen=int(a["chosen"] or 0),
                force=a["chosen"] is not None,
            )
        )
    return out


def eps_of(case):
    return Fraction(0) if case["kind"] == "scripted" else MCTS_EPS


def ok_line(o):
    case = o.case
    toks = ["selfplay", "ok"] + cfg_tokens(case["cfg"], eps_of(case)) + transcript_tokens(o.log)
    ans = o.rec.answers
    toks += sec("Z", [[fs(fr(a["v0"]))] for a in ans])
    toks += sec("C", [[str(int(a["chosen"] or 0))] for a in ans])
    toks += sec("L", [[fs(fr(x))] for x in o.labels])
    return " ".join(toks)


def play_line(o):
    case = o.case
    toks = ["selfplay", "play"] + cfg_tokens(case["cfg"], eps_of(case)) + [str(len(o.rec.answers))]
    for a in o.rec.answers:
        toks.append(str(len(a["children"])))
        for m, p in a["children"]:
            toks += ser.move_str(m).split(" ") + ser.pos_str(p).split(" ")
        probs = a["probs"] or []
        toks.append(str(len(probs)))
        toks += [fs(fr(x)) for x in probs]
        toks += [fs(fr(a["value"])), str(int(a["sims"])), fs(fr(a["v0"])), str(int(a["chosen"] or 0))]
    return " ".join(toks)


def split_sections(toks):
    """`<result> P n … M n … Q n … V n … [L n …]` -> dict of raw token lists"""
    out = {"result": toks[0]}
    order = ["P", "M", "Q", "V", "L"]
    pos = 1
    for tag in order:
        if pos >= len(toks) or toks[pos] != tag:
            continue
        n = int(toks[pos + 1])
        pos += 2
        start = pos
        if tag == "P":
            pos += 7 * n
        elif tag == "M":
            for _ in range(n):
                k = int(toks[pos])
                pos += 1 + 4 * k
        elif tag == "Q":
            for _ in range(n):
                k = int(toks[pos])
                pos += 1 + k
        else:
            pos += n
        out[tag] = toks[start:pos]
    return out


def compare_with_model(o, model_out):
    """returns (stop, answers_flag, list of differing fields)"""
    if model_out == "short":
        return "short", "", ["model asked for more answers than the engine gave"]
    toks = model_out.split(" ")
    stop, aflag = toks[0], toks[1]
    m = split_sections(toks[2:])
    i = split_sections(transcript_tokens(o.log) + sec("L", [[fs(fr(x))] for x in o.labels]))
    diffs = []
    for tag in ("result", "P", "M", "Q", "L"):
        if m.get(tag) != i.get(tag):
            diffs.append(tag)
    mv, iv = m.get("V", []), i.get("V", [])
    if len(mv) != len(iv):
        diffs.append("V")
    else:
        for a, b in zip(mv, iv):
            if b == "nan" or float(Fraction(a)) != float(Fraction(b)):
                diffs.append("V")
                break
    return stop, aflag, diffs


KEY_OF_CLAUSE = {
    "aligned": "misaligned",
    "lined": "misaligned",
    "start": "chain-broken",
    "legal": "chain-broken",
    "chain": "chain-broken",
    "distribution": "distribution",
    "value-range": "value-range",
    "live": "stop-rule",
    "early-resignation": "stop-rule",
    "not-a-number": "value-range",
}


def key_of(verdict):
    """`fail:<clause>:<index>:<ending>` -> stable finding key"""
    _, clause, _, ending = verdict.split(":")
    if clause in ("ending", "result-type", "labels") and ending == "plylimit":
        return "ply-limit-labels"
    if clause in ("ending", "result-type"):
        if ending.startswith("decided"):
            return "winner-not-recorded"
        if ending == "resignation":
            return "resignation-result"
        return "stop-rule"
    if clause == "labels":
        return "labels"
    return KEY_OF_CLAUSE.get(clause, "transcript-" + clause)


def evaluate(ctx, observations):
    """driver verdicts for a batch of observed games.
    Returns list of dicts: verdict (`ok` | `fail:…` | `crash <cls>`), diffs, stop, answers"""
    lines, slots = [], []
    for o in observations:
        if o.log is None or o.labels is None:
            slots.append(None)
            continue
        text = ok_line(o)
        if " nan" in text:  # a recorded number that is no number at all: nothing to send
            slots.append("nan")
            continue
        slots.append(len(lines))
        lines += [text, play_line(o)]
    outs = driver.run_lines(lines)
    res = []
    for o, s in zip(observations, slots):
        if s is None:
            res.append(dict(verdict="crash " + str(o.crash), diffs=[], stop="", answers=""))
        elif s == "nan":
            res.append(dict(verdict="fail:not-a-number:0:unknown", diffs=[], stop="", answers=""))
        else:
            v = outs[s]
            if v == "bad-op" or outs[s + 1] == "bad-op":
                raise driver.DriverError("selfplay component refused a line: " + lines[s][:300])
            stop, aflag, diffs = compare_with_model(o, outs[s + 1])
            res.append(dict(verdict=v, diffs=diffs, stop=stop, answers=aflag))
    return res


# ------------------------------------------------------------------ generating cases


def classify_end(pos):
    """ending kind of a terminal position, from the implementation's own adjudication
    (coverage bookkeeping only; no verdict depends on it)"""
    import attrs
    import tak

    color, reason = pos.winner()
    if reason is None:
        return None
    w = "draw" if color is None else ("W" if color == tak.Color.WHITE else "B")
    if reason == tak.WinReason.ROAD:
        if attrs.evolve(pos, ply=pos.ply + 1).has_road() != color:
            return "double-road-" + w
        return "road-" + w
    if all(pos.board):
        return "full-" + w
    return "reserve-" + w


def find_lines(ctx, size, playouts):
    """random legal play with the real rules until the game is over: shortest line per ending"""
    import tak

    best, other = {}, {}
    for g in range(playouts):
        pol = gen.POLICIES[g % len(gen.POLICIES)]
        ps, ms = gen.play_random_game(ctx.rng, tak.Config(size=size), pol, max_plies=40 * size, keep_moves=True)
        k = classify_end(ps[-1])
        if k is None:
            continue
        if k not in best or len(ms) < len(best[k]):
            best[k] = ms
        elif len(ms) <= 2 * len(best[k]) + 4:
            other[k] = ms  # a second, different line to the same ending
    for k, ms in other.items():
        best[k + "#2"] = ms
    return best


def load_fixtures():
    """lines to the rare endings kept in corpus/C11/line-*.json (size, ending, moves)"""
    d = os.path.join(env.VERIF, "corpus", "C11")
    if not os.path.isdir(d):
        return
    for f in sorted(os.listdir(d)):
        if f.startswith("line-") and f.endswith(".json"):
            data = json.load(open(os.path.join(d, f)))
            yield data["size"], data["ending"], [ser.parse_move(m.split(" ")) for m in data["moves"]]


def dyadic_probs(rng, k, chosen, onehot):
    if onehot or k == 1:
        return [Fraction(1) if j == chosen else Fraction(0) for j in range(k)]
    den = 16 if k <= 8 else 256
    w = [1] * k
    for _ in range(den - k):
        w[rng.randrange(k)] += 1
    if rng.random() < 0.3:
        # some zero-probability candidates (never the chosen one)
        for j in range(k):
            if j != chosen and w[j] == 1 and rng.random() < 0.5:
                w[chosen] += w[j]
                w[j] = 0
    return [Fraction(x, den) for x in w]


def decorate(rng, pos, move, thr, v0=None, wide=False):
    """one script entry playing `move` in `pos`: a candidate subset (the move among other legal
    moves, shuffled), dyadic probabilities, value up to +-simulations, a quiet v0"""
    import tak

    others = []
    pool = pos.all_moves()
    rng.shuffle(pool)
    want = rng.choice([0, 1, 2, 3, 6]) if not wide else len(pool)
    for m in pool:
        if len(others) >= want:
            break
        if m == move:
            continue
        try:
            pos.move(m)
        except tak.IllegalMove:
            continue
        others.append(m)
    cands = others + [move]
    rng.shuffle(cands)
    chosen = cands.index(move)
    onehot = rng.random() < 0.25
    probs = dyadic_probs(rng, len(cands), chosen, onehot)
    sims = rng.choice([1, 2, 4, 8, 16])
    value = Fraction(rng.choice([-sims, sims, rng.randrange(-sims, sims + 1), 0]))
    if rng.random() < 0.5:
        value = value / 2
    if v0 is None:
        quiet = [Fraction(0), Fraction(1, 4), Fraction(-1, 4)]
        t = Fraction(thr)
        if t > TINY:
            quiet += [t - TINY, -(t - TINY), t / 2]
        v0 = rng.choice([q for q in quiet if abs(q) < t] or [None])
    return dict(
        cands=[ser.move_str(m) for m in cands],
        probs=[fs(p) for p in probs],
        value=fs(value),
        sims=sims,
        v0=fs(v0 if v0 is not None else Fraction(0)),
        chosen=chosen,
        force=not onehot,
    )


def script_for(rng, size, moves, thr, resign_at=None, resign_v0=None, wide=False):
    import tak

    pos = tak.Position.from_config(tak.Config(size=size))
    line = []
    for i, m in enumerate(moves):
        if resign_at is not None and i == resign_at:
            line.append(decorate(rng, pos, m, thr, v0=resign_v0, wide=wide))
            break
        line.append(decorate(rng, pos, m, thr, wide=wide))
        pos = pos.move(m)
    return line


THRESHOLDS = ["3/4", "1/2", str(Fraction(0.95)), "1"]


def long_line(rng, size, T):
    """T legal plies that never end the game: a few placements, then stacks shuffled about"""
    import tak

    for _attempt in range(20):
        pos = tak.Position.from_config(tak.Config(size=size))
        moves = []
        while len(moves) < T:
            cands = pos.all_moves()
            rng.shuffle(cands)
            nxt = None
            place_ok = len(moves) < 2 * size
            for m in cands:
                if m.type.value < 3 and not place_ok:
                    continue
                try:
                    q = pos.move(m)
                except tak.IllegalMove:
                    continue
                if q.winner()[1] is None:
                    nxt = (m, q)
                    break
            if nxt is None:
                break
            moves.append(nxt[0])
            pos = nxt[1]
        if len(moves) >= T:
            return moves
    return None


def scripted_cases(ctx, lines_by_size):
    """the scripted part of the tie: (label, case) pairs"""
    rng = ctx.rng
    # a long game (beyond 256 plies: counters that fit a byte do not fit this game), cut by the ply
    # limit, and handed on through a pickle as every worker's transcript is
    for size, T in ((5, 300),) if not ctx.thorough else ((5, 300), (4, 270), (6, 520)):
        mv = long_line(rng, size, T)
        if mv:
            thr = "2"
            yield "end:long-game|limit:T-1|via-pickle", dict(kind="scripted", cfg=dict(size=size, threshold=thr, ply_limit=T - 1), line=script_for(rng, size, mv, thr), via_pickle=True)
    for size, lines in sorted(lines_by_size.items()):
        for kind, moves in sorted(lines.items()):
            T = len(moves)  # the terminal position has ply T
            thr = rng.choice(THRESHOLDS)
            limits = [T + 20, T, T - 1, T - 2, T + 1, 0, 1, -1]
            if not ctx.thorough and size >= 5:
                limits = [T + 20, T - 1]
            for lim in limits:
                case = dict(
                    kind="scripted",
                    cfg=dict(size=size, threshold=thr, ply_limit=lim),
                    line=script_for(rng, size, moves, thr, wide=(size == 3 and lim == T + 20 and rng.random() < 0.3)),
                )
                if rng.random() < 0.25:
                    case["via_pickle"] = True
                yield "end:%s|limit:%s" % (kind.split("#")[0], "T%+d" % (lim - T) if abs(lim - T) <= 2 else ("big" if lim > T else str(lim))), case
            # resignations along this line
            n_res = 4 if (ctx.thorough or size <= 4) else 1
            for _ in range(n_res):
                if T < 2:
                    continue
                thr = rng.choice(THRESHOLDS)
                t = Fraction(thr)
                at = rng.randrange(0, T)
                sign = rng.choice([1, -1])
                exact = rng.random() < 0.6
                v0 = sign * (t if exact else t + rng.choice([TINY, Fraction(1, 8)]))
                case = dict(
                    kind="scripted",
                    cfg=dict(size=size, threshold=thr, ply_limit=T + 20),
                    line=script_for(rng, size, moves, thr, resign_at=at, resign_v0=v0),
                )
                yield "resign:%s:%s:%s" % ("claim" if sign > 0 else "giveup", "W" if at % 2 == 0 else "B", "exact" if exact else "above"), case
                # the same line with v0 just below the threshold everywhere: nobody resigns
                if exact and t > TINY:
                    line = script_for(rng, size, moves, thr)
                    line[at]["v0"] = fs(sign * (t - TINY))
                    yield "resign:just-below", dict(kind="scripted", cfg=dict(size=size, threshold=thr, ply_limit=T + 20), line=line)
    # degenerate thresholds: 0 (everything resigns at once) and negative
    import tak

    for thr, v0 in (("0", "0"), ("0", "-1/4"), ("-1/2", "0"), ("-1/2", "-3/4"), ("-1/2", "1/4")):
        pos = tak.Position.from_config(tak.Config(size=3))
        e = decorate(rng, pos, first_legal(pos), "1", v0=Fraction(v0))
        yield "threshold<=0", dict(kind="scripted", cfg=dict(size=3, threshold=thr, ply_limit=5), line=[e])


def mcts_cases(ctx):
    """games of the real search; each item is a SESSION: a list of (label, case) played one
    after the other by ONE engine object (a worker keeps its engine for all its games)"""
    rng = ctx.rng
    if ctx.thorough:
        plan = [(3, 80, [1, 2, 8, 32, 64]), (4, 30, [1, 2, 8, 16]), (5, 8, [1, 2, 4]), (6, 2, [1, 2])]
    else:
        plan = [(3, 44, [1, 2, 8, 32]), (4, 12, [1, 2, 8]), (5, 3, [1, 2])]
    for size, n, budgets in plan:
        g = 0
        while g < n:
            sims = budgets[g % len(budgets)]
            evaluator = ("uniform", "random", "sharp", "random")[g % 4]
            if evaluator == "sharp":
                sims = rng.choice([3, 6, 6, 12])
            spec = dict(
                sims=sims,
                evaluator=evaluator,
                value=rng.choice(["0", "1/4", "-1/4", "1/2"]) if evaluator != "sharp" else rng.choice(["1/2", "3/4", "7/8", "1/4"]),
                eval_seed=rng.randrange(1 << 30),
            )
            games = rng.choice([1, 1, 2, 3]) if size <= 4 else 1
            session = []
            for _ in range(games):
                thr = rng.choice(["1/2", "3/4", str(Fraction(0.95)), "2"])
                if size == 3:
                    lim = rng.choice([0, 1, 5, 12, 30, 100])
                elif size == 4:
                    lim = rng.choice([1, 6, 14, 40])
                else:
                    lim = rng.choice([0, 3, 6]) if size == 6 or not ctx.thorough else rng.choice([3, 8, 16])
                session.append(("mcts:%s" % evaluator, dict(size=size, threshold=thr, ply_limit=lim), rng.randrange(1 << 30)))
                g += 1
            yield spec, session
    # steered games: few pieces, slides only -> boards recur, the ply limit is what ends the game;
    # every engine plays several such games
    if ctx.thorough:
        steer = [(3, 14), (4, 5)]
    else:
        steer = [(3, 8), (4, 2)]
    for size, n in steer:
        for k in range(n):
            spec = dict(
                sims=rng.choice([1, 2, 4]),
                evaluator="shuffler",
                value=rng.choice(["0", "1/8", "-1/8"]),
                eval_seed=rng.randrange(1 << 30),
                stones=rng.choice([2, 2, 3, 4]) if size == 3 else rng.choice([2, 4, 5]),
                focus=rng.choice(["1", "63/64", "7/8"]),
            )
            session = []
            for j in range(rng.choice([2, 3])):
                lim = rng.choice([8, 16, 24, 40]) if size == 3 else rng.choice([10, 20])
                session.append(("mcts:shuffler", dict(size=size, threshold=rng.choice(["3/4", "2"]), ply_limit=lim), rng.randrange(1 << 30)))
            yield spec, session


def run_sessions(ctx, sessions):
    """play every session on one engine each; returns the labelled observations"""
    out = []
    for spec, session in sessions:
        engine, before = None, []
        for label, cfg, torch_seed in session:
            m = dict(spec)
            m["torch_seed"] = torch_seed
            m["before"] = list(before)
            case = dict(kind="mcts", cfg=cfg, mcts=m)
            if engine is None:
                engine = build_engine(case)
            o = run_case(case, engine=engine)
            ctx.count("engine-game-no:%d" % min(len(before) + 1, 3))
            if o.log is not None:
                boards = {ser.pos_str(p).split(" ", 6)[6] + str(p.ply % 2) for p in o.log.positions}
                if len(boards) < len(o.log.positions):
                    ctx.count("games-with-a-recurring-board")
                    ctx.count("recurring-boards", len(o.log.positions) - len(boards))
            out.append((label, o))
            before.append(dict(cfg=cfg, torch_seed=torch_seed))
    return out


# ------------------------------------------------------------------ protocol entry points


def replay_payload(o):
    """cfg + the realised scripted line (a game of the real search is replayed by its seeds)"""
    case = o.case
    if case["kind"] == "mcts":
        return dict(kind="mcts", cfg=case["cfg"], mcts=case["mcts"])
    return dict(kind="scripted", cfg=case["cfg"], line=realised_line(o))


def describe(o, r):
    if o.rec.ran_away:
        c = o.case["cfg"]
        return (
            "size=%d ply_limit=%d engine=%s (game no. %d of this engine): play_one_game did not stop -- it asked for search no. %d; "
            "plies of the positions searched: %s; TranscriptOK on the searched positions -> driver says %s"
            % (c["size"], c["ply_limit"], o.case["kind"], len(o.case.get("mcts", {}).get("before", [])) + 1,
               len(o.rec.answers) + 1, [a["pos"].ply for a in o.rec.answers], r["verdict"])
        )
    c = o.case["cfg"]
    n = len(o.log.positions) if o.log is not None else 0
    res = color_tok(o.log.result) if o.log is not None else "-"
    return "size=%d threshold=%s ply_limit=%d engine=%s: %d positions recorded, result=%s (%r), labels=%s -> driver says %s" % (
        c["size"],
        c["threshold"],
        c["ply_limit"],
        o.case["kind"],
        n,
        res,
        getattr(o.log, "result", None),
        [float(x) for x in (o.labels or [])][:8],
        r["verdict"],
    )


def outcome_tie(ctx, observations):
    """tie of the driver's local adjudication to Position.winner() on every recorded position
    and on the position that ended each game"""
    import tak

    seen, lines, want = set(), [], []
    for o in observations:
        ps = [a["pos"] for a in o.rec.answers]
        if o.rec.answers:
            a = o.rec.answers[-1]
            if a["chosen"] is not None and a["chosen"] < len(a["children"]):
                ps.append(a["children"][a["chosen"]][1])
        for p in ps:
            s = ser.pos_str(p)
            if s in seen:
                continue
            seen.add(s)
            color, reason = p.winner()
            w = "none" if reason is None else ("draw" if color is None else ("W" if color == tak.Color.WHITE else "B"))
            lines.append("selfplay outcome " + s)
            want.append((s, w))
    outs = driver.run_lines(lines)
    divs = []
    for (s, w), m in zip(want, outs):
        ctx.count("outcome-tie")
        if w != m:
            divs.append(Divergence("corr.selfplay.outcome", {"pos": s}, w, m))
    return divs


def settle_runaway(o, r):
    """a game that asked for more searches than its ply limit allows"""
    if r["verdict"] == "ok":  # cannot be: that many positions in a row, all within the limit, yet a legal chain
        r["verdict"] = "fail:live:%d:unfinished" % len(o.rec.answers)
    r["diffs"] = []  # there is no transcript of the implementation to diff with the model's


def process(ctx, labelled_cases=(), labelled_observations=()):
    """run, evaluate, book-keep; returns the divergences"""
    observations, labels = [], []
    for label, case in labelled_cases:
        observations.append(run_case(case))
        labels.append(label)
    for label, o in labelled_observations:
        observations.append(o)
        labels.append(label)
    results = evaluate(ctx, observations)
    divs, fails = [], []
    for label, o, r in zip(labels, observations, results):
        ctx.evaluated()
        for part in label.split("|"):
            ctx.count(part)
        ctx.count("size%d" % o.case["cfg"]["size"])
        ctx.count("engine:" + o.case["kind"])
        if r["stop"]:
            ctx.count("model-stop:" + r["stop"])
        if r["answers"].startswith("answers-bad"):
            ctx.count("engine-precondition-failed")
        if o.log is not None:
            ctx.count("plies", len(o.log.positions))
            ctx.nontrivial(str(sorted(o.case["cfg"].items())) + " ".join(transcript_tokens(o.log)))
        bad = r["verdict"] != "ok"
        if o.rec.ran_away:
            ctx.count("game-did-not-stop")
            settle_runaway(o, r)
            bad = True
        if bad and r["verdict"].startswith("crash") and o.rec.engine_failed:
            # the exception came out of the engine, not out of play_one_game (C08-C10's business)
            ctx.count("excused:engine-raised")
            bad = False
        if bad and r["answers"].startswith("answers-bad") and r["verdict"].split(":")[1] in ("distribution", "value-range") and o.case["kind"] == "scripted":
            # a SCRIPTED engine was told to answer outside its contract: not a finding about
            # play_one_game.  (For the real search the property says it outright: the recorded search
            # probabilities are a distribution - whichever layer produced them.)
            ctx.count("excused:engine-contract")
            bad = False
        if bad:
            d = Divergence("spec.transcript", replay_payload(o), r["verdict"], "ok")
            divs.append(d)
            fails.append((o, r, d))
        if r["diffs"]:
            d = Divergence("corr.selfplay", replay_payload(o), "differs in " + ",".join(r["diffs"]), "model transcript")
            d.explained = bad  # a game that violates the property cannot agree with the (proved) model
            divs.append(d)
    if not hasattr(ctx, "c11_fails"):
        ctx.c11_fails = []
    ctx.c11_fails.extend(fails)
    divs += outcome_tie(ctx, observations)
    for o, r in list(zip(observations, results))[:: max(1, len(observations) // 5)]:
        ctx.sample(dict(cfg=o.case["cfg"], engine=o.case["kind"], plies=len(o.log.positions) if o.log else None, verdict=r["verdict"], model_stop=r["stop"]))
    return divs


def tie(ctx):
    import time

    divs = []
    rounds = 8 if ctx.thorough else 2
    for rnd in range(rounds):
        t0 = time.time()
        lines_by_size = {}
        plan = {3: 1200, 4: 250, 5: 24} if not ctx.thorough else {3: 3000, 4: 600, 5: 60, 6: 8}
        for size, n in plan.items():
            lines_by_size[size] = find_lines(ctx, size, n)
            for k in lines_by_size[size]:
                ctx.count("found:%d:%s" % (size, k.split("#")[0]))
        for size, kind, moves in load_fixtures():
            if size not in lines_by_size and kind.endswith("-winding"):
                lines_by_size[size] = {}  # shapes random play does not reach: always played
            if size in lines_by_size and kind not in lines_by_size[size]:
                lines_by_size[size][kind] = moves
                ctx.count("fixture:%d:%s" % (size, kind))
        t1 = time.time()
        divs += process(ctx, list(scripted_cases(ctx, lines_by_size)))
        t2 = time.time()
        divs += process(ctx, labelled_observations=run_sessions(ctx, list(mcts_cases(ctx))))
        ctx.note("round %d: line search %.1fs, scripted games %.1fs, real-search games %.1fs" % (rnd, t1 - t0, t2 - t1, time.time() - t2))
    return divs


def search(ctx, divergences, broken):
    fails = getattr(ctx, "c11_fails", [])
    ctx.c11_fails = []
    by_key = {}
    for o, r, d in fails:
        d.explained = True
        key = "crash-" + r["verdict"].split(" ", 1)[1] if r["verdict"].startswith("crash") else key_of(r["verdict"])
        by_key.setdefault(key, []).append((o, r))
    vs = []
    for key, lst in sorted(by_key.items()):
        # smallest failing game of the class is the replay
        lst.sort(key=lambda t: (t[0].case["kind"] != "scripted", len(t[0].rec.answers) == 0, len(t[0].rec.answers), t[0].case["cfg"]["size"]))
        o, r = lst[0]
        vs.append(Violation(key, describe(o, r) + " (%d such games in this run)" % len(lst), replay_payload(o)))
    return vs


def replay(ctx, data):
    rp = data.get("replay", data)
    case = dict(kind=rp["kind"], cfg=rp["cfg"])
    if rp["kind"] == "scripted":
        case["line"] = rp["line"]
    else:
        case["mcts"] = rp["mcts"]
    o = run_case(case)
    r = evaluate(ctx, [o])[0]
    if o.rec.ran_away:
        settle_runaway(o, r)
    ctx.count("replayed:" + (classify_replay(o) or "?"))
    if r["verdict"] == "ok" and not r["diffs"]:
        return []
    if r["verdict"] == "ok":
        return [Violation("model-mismatch", "implementation and model transcripts differ in %s; %s" % (r["diffs"], describe(o, r)), rp)]
    key = "crash-" + r["verdict"].split(" ", 1)[1] if r["verdict"].startswith("crash") else key_of(r["verdict"])
    return [Violation(key, describe(o, r), rp)]


def classify_replay(o):
    try:
        a = o.rec.answers[-1]
        if a["chosen"] is None:
            return "resignation"
        return classify_end(a["children"][a["chosen"]][1]) or "plylimit"
    except Exception:
        return None

"""Cross-operation sessions: one long-lived interpreter, many live positions of several board sizes,
every public operation on positions interleaved at random on objects derived from one another.

Why: the per-operation ties call each operation on freshly built inputs.  State that leaks between
calls — a cache keyed too coarsely, a field carried along by `attrs.evolve`, a module-level scratch
buffer shared by board sizes, an argument modified in place — only shows when operations are
interleaved on objects that descend from each other (format, then move, then format the child;
transform, then move, then adjudicate; 5x5 work between two 6x6 questions; decode the same tensor
twice).  A session does exactly that and compares every observable with the Lean model, judged by
the predicate of the property that owns the operation.

A session is an explicit list of operations (JSON), so a failure replays in a fresh interpreter and
shrinks by dropping operations.  Objects are referred to by slot; an operation that creates an
object always owns one slot (empty when the implementation refused), so slots are stable.

Operation kinds and who judges them (`judge` argument = set of kinds to compare):
  move      p.move(m)                     model `move apply`  (= the rules, C01)
  winner    p.winner(), p.has_road()      model `winner specboth`  (the specification, C02)
  allmoves  p.all_moves()                 model `gen legal`: every legal move exactly once (C03)
  format    format_tps(p)                 model `tps write` (reference writer, C13)
  parse     parse_tps(format_tps(p))      model `tps parse` of the same text (C13)
  tpos      transform_position(s, p)      model `symmetry tpos` (C15)
  encode    encode(p), decode(encode(p))  decidable round-trip verdict `tokens roundtrip`; equal
                                          values encode equally within the session; the decoded
                                          tensor is not modified (C06)
  retained  every object still equals the text taken when it was created (C05)
  new       from_config(cfg) holds the configured reserves                 (always judged)
  inv       the successor of an accepted move satisfies the physical-consistency invariant of the
            configuration its game started from                            (C04)
  variants  symmetries(p): the position first, each distinct image once    (C15)
  copy      pickle round trip / deepcopy of a position: an equal value (==), and everything asked of
            the copy later is judged like anything else
Returned containers are the caller's: the lists handed out by all_moves() and symmetries() are
scrambled after they were read.  Moves are sometimes derived from other moves with attrs.evolve.
Lineage: every object records which kinds of operation produced it or an ancestor, so that a
property can also judge e.g. `winner` on objects that descend from a transformation.
"""
import json
import os
import random
import subprocess
import sys

from . import driver, env, gen, ser

KINDS = ("move", "winner", "allmoves", "format", "parse", "tpos", "encode", "retained", "new", "inv", "variants", "copy")


def _hex(s):
    return ".".join("%04x" % ord(c) for c in s) if s else "-"


# ---------------------------------------------------------------------------------- planning


def plan(seed, n_ops, sizes=(3, 4, 5, 6, 7, 8), with_tokens=True):
    """Build the op list by running the implementation (choices depend on what exists), but the
    resulting list is explicit and replays without the generator."""
    rng = random.Random(seed)
    ex = Executor(record=True)
    ops = []
    plan.last_executor = ex

    def do(op):
        ops.append(op)
        ex.step(op)

    for size in sizes:
        do({"op": "new", "cfg": [size, None, None]})
        cfg = gen.random_config(rng, size, custom_prob=1.0)
        do({"op": "new", "cfg": [size, cfg.pieces, cfg.capstones]})
        for _ in range(2):
            p = gen.constructed_position(rng, size, tops_only=True, fill=rng.choice([0.5, 0.8, 1.0]))
            do({"op": "lit", "pos": ser.pos_str(p)})
        for ps in _road_rich(rng, size, 8):
            do({"op": "lit", "pos": ps})
    weights = [("move", 46), ("winner", 14), ("allmoves", 4), ("format", 10), ("parse", 3), ("tpos", 6), ("encode", 6 if with_tokens else 0), ("variants", 2), ("copy", 3), ("sameboard", 3)]
    kinds = [k for k, w in weights for _ in range(w)]
    while len(ops) < n_ops:
        live = ex.live()
        if not live:
            break
        # recency bias: half of the time one of the 12 newest objects
        slot = rng.choice(live[-12:]) if rng.random() < 0.5 else rng.choice(live)
        obj = ex.objs[slot]
        if rng.random() < 0.06:
            # a chain on freshly derived objects: derive (transform / TPS round trip / token round
            # trip / nothing), play one to three moves, then ask everything about the result
            how = rng.choice(["tpos", "tpos", "parse", "encode" if with_tokens else "tpos", "none", "copy"])
            cur = slot
            if how == "tpos":
                do({"op": "tpos", "obj": cur, "k": rng.randrange(1, 8)})
                cur = ex.out[-1]["slot"]
            elif how == "parse":
                do({"op": "format", "obj": cur})
                do({"op": "parse", "obj": cur})
                cur = ex.out[-1]["slot"]
            elif how == "encode":
                do({"op": "encode", "obj": cur, "again": False})
                cur = ex.out[-1]["slot"]
            elif how == "copy":
                do({"op": "copy", "obj": cur, "how": rng.choice(["pickle", "deepcopy"])})
                cur = ex.out[-1]["slot"]
            if ex.objs[cur] is None:
                continue
            do({"op": "format", "obj": cur})
            for _ in range(rng.choice([1, 1, 2, 3])):
                o = ex.objs[cur]
                try:
                    ms = list(o.all_moves())
                except Exception:
                    ms = []
                # prefer moves the implementation accepts (progress), sometimes any
                rng.shuffle(ms)
                nxt = None
                for m in ms[:12]:
                    do({"op": "move", "obj": cur, "move": ser.move_str(m)})
                    if ex.objs[ex.out[-1]["slot"]] is not None:
                        nxt = ex.out[-1]["slot"]
                        break
                if nxt is None:
                    break
                cur = nxt
                do({"op": "winner", "obj": cur})
            do({"op": "format", "obj": cur})
            do({"op": "allmoves", "obj": cur})
            do({"op": "parse", "obj": cur})
            do({"op": "variants", "obj": cur})
            continue
        k = rng.choice(kinds)
        if k == "move":
            r = rng.random()
            m = None
            if r < 0.7:
                try:
                    ms = list(obj.all_moves())
                    if ms:
                        m = rng.choice(ms)
                except Exception:
                    m = None
            if m is None:
                if r < 0.9:
                    m = rng.choice(_wf(obj.size))
                else:
                    m = gen.illformed_moves(rng, obj.size, 1, obj)[0]
            op = {"op": "move", "obj": slot, "move": ser.move_str(m)}
            if m.slides and rng.random() < 0.3:
                # the same move, derived from another slide with attrs.evolve (as callers that
                # enumerate variations of a move do) instead of built by the constructor
                try:  # (the object may have been damaged by the implementation: never index blindly)
                    tall = max(1, len(obj.board[m.x + m.y * obj.size]))
                except Exception:
                    tall = 1
                other = tuple(rng.choice(_SLIDE_TEMPLATES + [(sum(m.slides) + 1,), (sum(m.slides) + 2,), (tall,)]))
                op["evolved_from"] = ",".join(str(d) for d in other)
            do(op)
        elif k == "copy":
            do({"op": "copy", "obj": slot, "how": rng.choice(["pickle", "deepcopy"])})
        elif k == "sameboard":
            # another position value over the SAME board list (only the ply differs: the other side
            # is to move), then a move tried on each of the two
            do({"op": "sameboard", "obj": slot, "dply": rng.choice([1, 1, -1, 2])})
            twin = ex.out[-1].get("slot")
            if twin is not None and ex.objs[twin] is not None:
                for who in (slot, twin, slot):
                    try:
                        ms = list(ex.objs[who].all_moves())
                    except Exception:
                        ms = []
                    if ms:
                        do({"op": "move", "obj": who, "move": ser.move_str(rng.choice(ms))})
        elif k == "tpos":
            do({"op": "tpos", "obj": slot, "k": rng.randrange(8)})
        elif k == "encode":
            do({"op": "encode", "obj": slot, "again": rng.random() < 0.5})
        else:
            do({"op": k, "obj": slot})
    return ops


_SLIDE_TEMPLATES = [(1,), (2,), (3,), (1, 1), (2, 1), (1, 2), (4,), (1, 1, 1)]
_WF = {}


def _wf(size):
    if size not in _WF:
        _WF[size] = gen.wellformed_moves(size)
    return _WF[size]


def _road_rich(rng, size, n):
    """positions one move away from (or just past) a road, as text: chains with one square cut"""
    from types import SimpleNamespace

    from . import roadgen

    out = []
    tries = 0
    while len(out) < n and tries < 4 * n:
        tries += 1
        colour = rng.randrange(2)
        chain = roadgen.random_path(rng, size, rng.random() < 0.5)
        if not chain:
            continue
        base = roadgen.board_from_chain(rng, size, chain, colour, rng.choice(["empty", "noise", "hostile"]))
        if rng.random() < 0.7:
            base, _ = roadgen.cut(rng, size, base, chain, colour, "empty", rng.randrange(len(chain)))
        ply = rng.choice([4, 5, 6, 7, 20, 21])
        out.append("%d %d %d %d %d %d %s" % (size, rng.randrange(3, 20), rng.randrange(0, 2), rng.randrange(3, 20), rng.randrange(0, 2), ply, ",".join(base)))
    return out


# ---------------------------------------------------------------------------------- execution


class Executor:
    """runs an op list against the real implementation; collects canonical outputs"""

    def __init__(self, record=False):
        import tak
        from tak import ptn

        self.tak = tak
        self.ptn = ptn
        self.objs = []  # slot -> object or None
        self.texts = []  # slot -> text at creation or None
        self.lineage = []  # slot -> frozenset of kinds
        self.cfgs = []  # slot -> "n pieces caps" of the configuration its game started from, or None
        self.out = []  # per op: dict
        self._live = []
        self._sym = None
        self._enc = None

    def live(self):
        return self._live

    def _slot(self, obj, lineage, cfg=None):
        self.cfgs.append(cfg if obj is not None else None)
        if obj is None:
            self.objs.append(None)
            self.texts.append(None)
            self.lineage.append(frozenset())
            return len(self.objs) - 1
        self.objs.append(obj)
        self.texts.append(ser.pos_str(obj))
        self.lineage.append(frozenset(lineage))
        self._live.append(len(self.objs) - 1)
        return len(self.objs) - 1

    def _symmetry(self):
        if self._sym is None:
            from tak.symmetry import symmetry as S

            self._sym = S
        return self._sym

    def _encoding(self):
        if self._enc is None:
            from tak.model import encoding

            self._enc = encoding
        return self._enc

    def step(self, op):
        tak = self.tak
        k = op["op"]
        rec = {"op": k}
        if k in ("new", "lit"):
            cfgt = None
            try:
                if k == "new":
                    n, pc, cp = op["cfg"]
                    cfg = tak.Config(size=n) if pc is None else tak.Config(size=n, pieces=pc, capstones=cp)
                    obj = tak.Position.from_config(cfg)
                    rec["cfg"] = list(op["cfg"])
                    rec["impl"] = ser.pos_str(obj)
                    if pc is not None:
                        cfgt = "%d %d %d" % (n, pc, cp)
                else:
                    obj = ser.parse_pos(op["pos"].split(" "))
                    cfgt = _config_of_text(op["pos"])
            except Exception as e:
                obj = None
                rec["impl"] = "crash " + type(e).__name__
            rec["slot"] = self._slot(obj, [], cfgt)
            self.out.append(rec)
            return rec
        i = op["obj"]
        obj = self.objs[i] if 0 <= i < len(self.objs) else None
        if obj is None:
            rec["skipped"] = True
            if k in ("move", "tpos", "parse", "encode", "copy", "sameboard"):
                rec["slot"] = self._slot(None, [])
            self.out.append(rec)
            return rec
        rec["obj"] = i
        rec["in"] = self.texts[i]
        lin = self.lineage[i]
        rec["lineage"] = sorted(lin)
        cfg_here = self.cfgs[i]
        if k == "move":
            m = ser.parse_move(op["move"].split(" "))
            rec["move"] = op["move"]
            if op.get("evolved_from"):
                import attrs

                tmpl = tak.Move(m.x, m.y, m.type, tuple(int(d) for d in op["evolved_from"].split(",")))
                m = attrs.evolve(tmpl, slides=m.slides)
                rec["evolved_from"] = op["evolved_from"]
            q = None
            try:
                q = obj.move(m)
                rec["impl"] = "ok " + ser.pos_str(q)
            except tak.IllegalMove:
                rec["impl"] = "illegal"
            except Exception as e:
                rec["impl"] = "crash " + type(e).__name__
                q = None
            rec["slot"] = self._slot(q if rec["impl"].startswith("ok ") else None, lin | {"move"}, cfg_here)
            rec["cfg_text"] = cfg_here
        elif k == "copy":
            import copy as _copy
            import pickle

            q = None
            try:
                q = pickle.loads(pickle.dumps(obj)) if op.get("how") == "pickle" else _copy.deepcopy(obj)
                rec["impl"] = "ok " + ser.pos_str(q)
                rec["eq"] = bool(q == obj) and bool(obj == q)
                rec["eq_rebuilt"] = bool(q == ser.parse_pos(self.texts[i].split(" ")))
            except Exception as e:
                rec["impl"] = "crash " + type(e).__name__
                q = None
            rec["slot"] = self._slot(q, lin | {"copy"}, cfg_here)
        elif k == "sameboard":
            import attrs

            q = None
            try:
                dply = int(op.get("dply", 1))
                if obj.ply + dply < 0:
                    dply = 1  # a ply is a natural number: there is no position before the first
                q = attrs.evolve(obj, ply=obj.ply + dply)
                rec["impl"] = "ok " + ser.pos_str(q)
                t = self.texts[i].split(" ")
                t[5] = str(int(t[5]) + dply)
                rec["want"] = "ok " + " ".join(t)
            except Exception as e:
                rec["impl"] = "crash " + type(e).__name__
            rec["slot"] = self._slot(q, lin | {"sameboard"}, None)
        elif k == "variants":
            S = self._symmetry()
            try:
                out = S.symmetries(obj)
                rec["impl"] = " ".join(",".join(str(int(v)) for row in s_ for v in row) + " " + ser.pos_str(p_) for s_, p_ in out)
                rec["n"] = len(out)
                # the list is the caller's now
                if isinstance(out, list) and out:
                    out.reverse()
                    del out[0]
            except Exception as e:
                rec["impl"] = "crash " + type(e).__name__
        elif k == "winner":
            try:
                w = obj.winner()
                a = "%s %s" % (_col(w[0]), _reason(w[1]))
            except Exception as e:
                a = "crash %s" % type(e).__name__
            try:
                b = _col(obj.has_road())
            except Exception as e:
                b = "crash-%s" % type(e).__name__
            rec["impl"] = a + " " + b
        elif k == "allmoves":
            try:
                lst = obj.all_moves()
                rec["impl"] = sorted(ser.move_str(m) for m in lst)
                if isinstance(lst, list) and lst:  # the list is the caller's now
                    lst.reverse()
                    del lst[::2]
            except Exception as e:
                rec["impl"] = "crash " + type(e).__name__
        elif k == "format":
            try:
                rec["impl"] = _hex(self.ptn.format_tps(obj))
            except Exception as e:
                rec["impl"] = "crash " + type(e).__name__
        elif k == "parse":
            q = None
            try:
                t = self.ptn.format_tps(obj)
                rec["text"] = _hex(t)
                try:
                    q = self.ptn.parse_tps(t)
                    rec["impl"] = "ok " + ser.pos_str(q)
                    rec["eq"] = bool(q == obj)
                except self.ptn.IllegalTPS:
                    rec["impl"] = "illegal"
            except Exception as e:
                rec["impl"] = "crash " + type(e).__name__
                q = None
            rec["slot"] = self._slot(q if rec.get("impl", "").startswith("ok ") else None, lin | {"parse"}, None)  # TPS does not carry the reserves of a custom configuration
        elif k == "tpos":
            S = self._symmetry()
            q = None
            try:
                sym = list(S.SYMMETRIES)[op["k"]]
                rec["matrix"] = ",".join(str(int(v)) for row in sym for v in row)
                q = S.transform_position(sym, obj)
                rec["impl"] = "ok " + ser.pos_str(q)
            except Exception as e:
                rec["impl"] = "crash " + type(e).__name__
                q = None
            rec["slot"] = self._slot(q if rec["impl"].startswith("ok ") else None, lin | {"tpos"}, cfg_here)
        elif k == "encode":
            E = self._encoding()
            q = None
            st = obj.stones
            in_domain = 3 <= obj.size <= 6 and all(0 <= s.stones <= 49 and 0 <= s.caps <= 1 for s in st)
            rec["in_domain"] = in_domain
            if not in_domain:
                rec["skipped"] = True
            else:
                try:
                    t = E.encode(obj)
                    toks = [int(v) for v in t]
                    rec["tokens"] = toks
                    import torch

                    tt = t if hasattr(t, "dtype") else torch.tensor(toks)
                    q = E.decode(tt)
                    rec["impl"] = "ok " + ser.pos_str(q)
                    after = [int(v) for v in tt]
                    if after != toks:
                        rec["input_mutated"] = after
                    if op.get("again"):
                        q2 = E.decode(tt)
                        rec["impl_again"] = "ok " + ser.pos_str(q2)
                except Exception as e:
                    rec["impl"] = "crash " + type(e).__name__
                    q = None
            rec["slot"] = self._slot(q if rec.get("impl", "").startswith("ok ") else None, lin | {"encode"}, cfg_here)
        self.out.append(rec)
        return rec

    def finish(self):
        """retained objects still equal the text taken at creation"""
        bad = []
        for i, o in enumerate(self.objs):
            if o is None:
                continue
            try:
                now = ser.pos_str(o)
            except Exception as e:
                now = "crash " + type(e).__name__
            if now != self.texts[i]:
                bad.append({"slot": i, "created": self.texts[i], "now": now})
        return bad


def _config_of_text(ps):
    """the configuration a literal position belongs to, if there is one: both colours have the same
    number of stones (board + reserve) and of capstones, nothing negative.  (Only selects WHICH
    configuration the Lean invariant is evaluated for.)"""
    t = ps.split(" ")
    n, ws, wc, bs, bc = (int(x) for x in t[:5])
    if min(ws, wc, bs, bc) < 0:
        return None
    b = t[6]
    w_st, w_cp = b.count("a") + b.count("b") + ws, b.count("c") + wc
    b_st, b_cp = b.count("d") + b.count("e") + bs, b.count("f") + bc
    if (w_st, w_cp) != (b_st, b_cp):
        return None
    return "%d %d %d" % (n, w_st, w_cp)


def _col(c):
    from tak import pieces

    if c is None:
        return "N"
    if isinstance(c, pieces.Color):
        return "W" if c == pieces.Color.WHITE else "B"
    return "?%r" % (c,)


def _reason(r):
    import tak

    if r is None:
        return "NONE"
    if isinstance(r, tak.WinReason):
        return r.name
    return "?%r" % (r,)


def execute(ops):
    ex = Executor()
    for op in ops:
        ex.step(op)
    return ex.out, ex.finish()


# ---------------------------------------------------------------------------------- judging


def judge(out, retained_bad, kinds, lineage_kinds=()):
    """Compare the recorded outputs with the Lean model.  Returns a list of failures
    {index, kind, what} in op order.  `kinds`: operation kinds judged on every object;
    `lineage_kinds`: objects descending from one of these are judged on *every* operation."""
    kinds = set(kinds)
    lineage_kinds = set(lineage_kinds)
    model_m = driver.run_lines(["symmetry matrices"])[0]
    mats = model_m[len("ok "):].split(";") if model_m.startswith("ok ") else []
    lines, refs = [], []

    def want(rec):
        if rec["op"] == "new":
            return "cfg" in rec
        if rec.get("skipped") or "in" not in rec:
            return False
        if rec["op"] == "move" and "inv" in kinds:
            return True
        return rec["op"] in kinds or bool(lineage_kinds & set(rec.get("lineage", ())))

    seen_enc = {}
    fails = []
    for idx, rec in enumerate(out):
        if not want(rec):
            continue
        k = rec["op"]
        if k == "new":
            n, pc, cp = rec["cfg"]
            if pc is None:
                lines.append("move defaults %d" % n)
                refs.append((idx, "new-default"))
            else:
                lines.append("move fromconfig %d %d %d" % (n, pc, cp))
                refs.append((idx, "new"))
            continue
        if k == "move":
            if "move" in kinds or lineage_kinds & set(rec.get("lineage", ())):
                lines.append("move apply %s %s" % (rec["in"], rec["move"]))
                refs.append((idx, "move"))
            if "inv" in kinds and str(rec.get("impl", "")).startswith("ok "):
                if rec.get("cfg_text"):
                    lines.append("move inv %s %s" % (rec["cfg_text"], rec["impl"][3:]))
                    refs.append((idx, "inv"))
                # whatever configuration the position belongs to: stones and capstones per colour
                # (board + reserve, counted by the Lean `onBoard`) are the same before and after
                lines.append("move totals " + rec["in"])
                refs.append((idx, "totals-before"))
                lines.append("move totals " + rec["impl"][3:])
                refs.append((idx, "totals-after"))
        elif k == "copy":
            imp = rec.get("impl", "")
            if imp != "ok " + rec["in"]:
                fails.append({"index": idx, "kind": "copy", "what": "a %s of position [%s] reads [%s]" % ("copy", rec["in"], imp)})
            elif not rec.get("eq") or not rec.get("eq_rebuilt"):
                fails.append({"index": idx, "kind": "copy", "what": "a pickled / deep-copied position [%s] has the same content but does not compare equal (== %s; == a position rebuilt from the same content: %s)" % (rec["in"], rec.get("eq"), rec.get("eq_rebuilt"))})
        elif k == "variants":
            imp = rec.get("impl", "")
            if imp.startswith("crash"):
                fails.append({"index": idx, "kind": "variants", "what": "symmetries([%s]) raised %s" % (rec["in"], imp)})
            else:
                lines.append("symmetry checkvariants %s %s" % (rec["in"], imp))
                refs.append((idx, "variants"))
        elif k == "winner":
            lines.append("winner specboth " + rec["in"])
            refs.append((idx, "winner"))
        elif k == "allmoves":
            lines.append("gen legalgen " + rec["in"])
            refs.append((idx, "allmoves"))
        elif k == "format":
            lines.append("tps write " + rec["in"])
            refs.append((idx, "format"))
        elif k == "parse":
            if "text" in rec:
                lines.append("tps write " + rec["in"])
                refs.append((idx, "parse-text"))
                lines.append("tps parse " + rec["text"])
                refs.append((idx, "parse"))
            else:
                fails.append({"index": idx, "kind": "format", "what": "format_tps raised: %s on [%s]" % (rec.get("impl"), rec["in"])})
        elif k == "tpos":
            if rec.get("matrix") in mats:
                lines.append("symmetry tpos %d %s" % (mats.index(rec["matrix"]), rec["in"]))
                refs.append((idx, "tpos"))
            elif "matrix" not in rec:
                fails.append({"index": idx, "kind": "tpos", "what": "transform_position raised: %s on [%s]" % (rec.get("impl"), rec["in"])})
        elif k == "encode":
            imp = rec.get("impl", "")
            if not imp.startswith("ok "):
                fails.append({"index": idx, "kind": "encode", "what": "encode/decode of [%s] (in the vocabulary's domain) gives %s" % (rec["in"], imp)})
                continue
            lines.append("tokens roundtrip %s %s" % (rec["in"], imp[3:]))
            refs.append((idx, "encode"))
            if "input_mutated" in rec:
                fails.append({"index": idx, "kind": "encode", "what": "decode modified the token tensor it was given: %s -> %s (position [%s])" % (rec["tokens"], rec["input_mutated"], rec["in"])})
            if "impl_again" in rec and rec["impl_again"] != imp:
                fails.append({"index": idx, "kind": "encode", "what": "decoding the same encoded tensor twice gives [%s] then [%s] (position [%s])" % (imp[3:], rec["impl_again"][3:], rec["in"])})
            key = rec["in"]
            if key in seen_enc and seen_enc[key][1] != rec["tokens"]:
                fails.append({"index": idx, "kind": "encode", "what": "equal positions [%s] encoded differently within one session: op %d gave %s, now %s" % (key, seen_enc[key][0], seen_enc[key][1], rec["tokens"])})
            seen_enc.setdefault(key, (idx, rec["tokens"]))
    answers = driver.run_lines(lines)
    for (idx, what), ans in zip(refs, answers):
        rec = out[idx]
        imp = rec.get("impl")
        if what == "new":
            if imp != ans:
                fails.append({"index": idx, "kind": "new", "what": "Position.from_config(Config(size=%s, pieces=%s, capstones=%s)) is [%s]; the configured start position is [%s]" % (rec["cfg"][0], rec["cfg"][1], rec["cfg"][2], imp, ans)})
        elif what == "new-default":
            pass
        elif what == "totals-before":
            rec["_totals"] = ans
        elif what == "totals-after":
            if ans != rec.get("_totals"):
                fails.append({"index": idx, "kind": "inv", "what": "the accepted move [%s] on [%s] gives [%s]: stones/capstones per colour (board + reserve) change from [%s] to [%s]" % (rec["move"], rec["in"], imp[3:], rec.get("_totals"), ans)})
        elif what == "inv":
            if ans != "true":
                fails.append({"index": idx, "kind": "inv", "what": "configuration [%s]: the accepted move [%s] on [%s] gives [%s], which violates %s" % (rec["cfg_text"], rec["move"], rec["in"], imp[3:], ans)})
        elif what == "variants":
            if ans != "true":
                fails.append({"index": idx, "kind": "variants", "what": "symmetries([%s]) = %d entries [%s…]: not (position itself first, no duplicates, all eight images)" % (rec["in"], rec.get("n", -1), imp[:300])})
        elif what == "move":
            if imp != ans:
                fails.append({"index": idx, "kind": "move", "what": "position [%s] move [%s]: implementation gives [%s], the rules give [%s]" % (rec["in"], rec["move"], imp, ans)})
        elif what == "winner":
            if imp != ans:
                fails.append({"index": idx, "kind": "winner", "what": "position [%s]: winner()+has_road() give [%s], the specification gives [%s]" % (rec["in"], imp, ans)})
        elif what == "allmoves":
            legal = ([] if ans == "." else [m.replace(":", " ") for m in ans.split(";") if m]) if ans != "bad-op" else None
            if isinstance(imp, str):
                fails.append({"index": idx, "kind": "allmoves", "what": "all_moves() on [%s] raised %s" % (rec["in"], imp)})
            elif legal is not None:
                legal = sorted(_norm_move(m) for m in legal)
                got = [_norm_move(m) for m in imp]
                missing = [m for m in legal if m not in set(got)]
                dups = sorted({m for m in got if got.count(m) > 1}) if len(set(got)) != len(got) else []
                if missing or dups:
                    fails.append({"index": idx, "kind": "allmoves", "what": "all_moves() on [%s]: legal moves not listed %s; listed more than once %s" % (rec["in"], missing[:5], dups[:5])})
        elif what == "format":
            if imp != ans:
                fails.append({"index": idx, "kind": "format", "what": "format_tps of [%s] gives %r, the standard says %r" % (rec["in"], _unhex(imp), _unhex(ans))})
        elif what == "parse-text":
            if rec["text"] != ans:
                fails.append({"index": idx, "kind": "format", "what": "format_tps of [%s] gives %r, the standard says %r" % (rec["in"], _unhex(rec["text"]), _unhex(ans))})
        elif what == "parse":
            if imp != ans:
                fails.append({"index": idx, "kind": "parse", "what": "parse_tps(%r) gives [%s], the grammar's reading is [%s]" % (_unhex(rec["text"]), imp, ans)})
            elif imp == "ok " + rec["in"] and rec.get("eq") is False:
                fails.append({"index": idx, "kind": "parse", "what": "parse_tps(format_tps(p)) has the content of p = [%s] but does not compare equal to it (==)%s" % (rec["in"], " [p descends from a pickled / deep-copied position]" if "copy" in rec.get("lineage", ()) else "")})
        elif what == "tpos":
            if imp != ans:
                fails.append({"index": idx, "kind": "tpos", "what": "transform_position(%s, [%s]) gives [%s], expected [%s]" % (rec["matrix"], rec["in"], imp, ans)})
        elif what == "encode":
            if ans != "ok":
                fails.append({"index": idx, "kind": "encode", "what": "decode(encode(p)) for p=[%s] gives [%s]: %s" % (rec["in"], imp[3:], ans)})
    if "retained" in kinds:
        for b in retained_bad:
            fails.append({"index": len(out), "kind": "retained", "what": "object of slot %d was [%s] when created and reads [%s] at the end of the session" % (b["slot"], b["created"], b["now"])})
    fails.sort(key=lambda f: f["index"])
    return fails


def _norm_move(m):
    """placements carry no drops in either spelling"""
    t = m.split(" ")
    if len(t) == 4 and t[2] in ("0", "1", "2"):
        t[3] = "none"
    return " ".join(t)


def _unhex(h):
    if not isinstance(h, str) or h.startswith("crash"):
        return h
    if h == "-":
        return ""
    try:
        return "".join(chr(int(x, 16)) for x in h.split(".") if x)
    except ValueError:
        return h


# ---------------------------------------------------------------------------------- fresh-interpreter runs


def run_fresh(ops, kinds, lineage_kinds=(), timeout=600):
    """execute + judge in a fresh interpreter (module-level state of the implementation starts
    empty): returns the failure list"""
    payload = json.dumps({"ops": ops, "kinds": sorted(kinds), "lineage": sorted(lineage_kinds)})
    e = dict(os.environ)
    r = subprocess.run([env.PYTHON, "-m", "harness.lib.session"], input=payload.encode(), cwd=env.VERIF, env=e, stdout=subprocess.PIPE, stderr=subprocess.PIPE, timeout=timeout)
    if r.returncode != 0:
        raise RuntimeError("session subprocess failed: " + r.stderr.decode(errors="replace")[-1500:])
    return json.loads(r.stdout.decode().strip().split("\n")[-1])


def _deps_closed(ops, keep):
    """drop ops whose object slot was created by a dropped op; renumber slots"""
    slot_of = {}  # old slot -> new slot
    new_ops = []
    old_slot = new_slot = 0
    for i, op in enumerate(ops):
        creates = op["op"] in ("new", "lit", "move", "tpos", "parse", "encode", "copy", "sameboard")
        uses = op.get("obj")
        ok = keep[i] and (uses is None or uses in slot_of)
        if ok:
            o = dict(op)
            if uses is not None:
                o["obj"] = slot_of[uses]
            new_ops.append(o)
            if creates:
                slot_of[old_slot] = new_slot
                new_slot += 1
        if creates:
            old_slot += 1
    return new_ops


def shrink(ops, kinds, lineage_kinds, fail_kind, budget_runs=24):
    """ddmin-style: drop chunks of operations while a failure of the same kind remains"""
    def fails(cand):
        try:
            fs = run_fresh(cand, kinds, lineage_kinds)
        except Exception:
            return None
        fs = [f for f in fs if f["kind"] == fail_kind]
        return fs[0] if fs else None

    best = ops
    first = fails(best)
    if first is None:
        return ops, None  # does not reproduce in a fresh interpreter
    best = best[: first["index"] + 1] if first["index"] < len(best) else best
    runs = 1
    n = 2
    while runs < budget_runs and len(best) > 1:
        size = max(1, len(best) // n)
        progressed = False
        for start in range(0, len(best), size):
            if runs >= budget_runs:
                break
            keep = [not (start <= i < start + size) for i in range(len(best))]
            cand = _deps_closed(best, keep)
            if len(cand) >= len(best) or not cand:
                continue
            runs += 1
            f = fails(cand)
            if f is not None:
                best = cand[: f["index"] + 1] if f["index"] < len(cand) else cand
                first = f
                n = max(n - 1, 2)
                progressed = True
                break
        if not progressed:
            if size == 1:
                break
            n = min(len(best), n * 2)
    return best, first


# ---------------------------------------------------------------------------------- entry points for checks


def start(ctx, kinds, lineage_kinds=(), n_sessions=None, n_ops=None, sizes=(3, 4, 5, 6, 7, 8), with_tokens=None):
    """Launch the sessions of a property check, each planned, executed and judged in its own fresh
    interpreter, in the background (they run while the check's tie does).  `finish` collects them."""
    kinds = set(kinds)
    if with_tokens is None:
        with_tokens = "encode" in kinds or "retained" in kinds
    n_sessions = n_sessions or (6 if ctx.thorough else 2)
    n_ops = n_ops or (12000 if ctx.thorough else 5000)
    procs = []
    for s in range(n_sessions):
        seed = ctx.seed * 7919 + s * 104729 + 17
        szs = sizes if s % 2 == 0 else tuple(rng_pick(seed, sizes))
        payload = json.dumps({"plan": {"seed": seed, "n_ops": n_ops, "sizes": list(szs), "with_tokens": with_tokens}, "kinds": sorted(kinds), "lineage": sorted(lineage_kinds)})
        p = subprocess.Popen([env.PYTHON, "-m", "harness.lib.session"], cwd=env.VERIF, env=dict(os.environ), stdin=subprocess.PIPE, stdout=subprocess.PIPE, stderr=subprocess.PIPE)
        p.stdin.write(payload.encode())
        p.stdin.close()
        p.stdin = None
        procs.append(p)
    return {"procs": procs, "kinds": kinds, "lineage": set(lineage_kinds)}


def finish(ctx, Violation, handle):
    """Collect the sessions started by `start`; returns Violations (with shrunk call-sequence replays)."""
    kinds, lineage_kinds = handle["kinds"], handle["lineage"]
    out_v = []
    results = []
    for p in handle["procs"]:
        try:
            so, se = p.communicate(timeout=1800)
            rc = p.returncode
        except Exception as e:
            p.kill()
            raise RuntimeError("session subprocess did not finish: %r" % (e,))
        if rc != 0:
            raise RuntimeError("session subprocess failed: " + se.decode(errors="replace")[-1500:])
        results.append(json.loads(so.decode().strip().split("\n")[-1]))
    for res in results:
        ops, fs = res["ops"], res["fails"]
        ctx.evaluated(len(ops))
        ctx.count("session:ops", len(ops))
        for op in ops:
            ctx.count("session:op-" + op["op"])
        if not fs:
            continue
        f0 = fs[0]
        small, f = shrink(ops, kinds, lineage_kinds, f0["kind"])
        if f is None:
            small, f = ops[: f0["index"] + 1], f0
        out_v.append(
            Violation(
                "session-" + f["kind"],
                "in a session of interleaved operations (%d operations after shrinking): %s" % (len(small), f["what"]),
                {"kind": "session", "ops": small, "judge": sorted(kinds), "lineage": sorted(lineage_kinds), "failure": f},
            )
        )
        break
    return out_v


def rng_pick(seed, sizes):
    r = random.Random(seed)
    k = r.choice([1, 2, 3])
    return sorted(r.sample(list(sizes), min(k, len(sizes))))


def replay(ctx, Violation, data):
    rp = data.get("replay", data)
    fs = run_fresh(rp["ops"], set(rp["judge"]), set(rp.get("lineage", ())))
    return [Violation("session-" + f["kind"], f["what"], rp) for f in fs[:1]]


def run(ctx, Violation, **kw):
    return finish(ctx, Violation, start(ctx, **kw))


def _main():
    payload = json.loads(sys.stdin.read())
    env.setup_impl_path(None)
    if "plan" in payload:
        # plan and execute in one go in this fresh interpreter (planning runs every operation once)
        pl = payload["plan"]
        ops = plan(pl["seed"], pl["n_ops"], tuple(pl["sizes"]), pl["with_tokens"])
        ex = plan.last_executor
        fs = judge(ex.out, ex.finish(), payload["kinds"], payload.get("lineage", ()))
        print(json.dumps({"ops": ops, "fails": fs}))
        return
    out, bad = execute(payload["ops"])
    fs = judge(out, bad, payload["kinds"], payload.get("lineage", ()))
    print(json.dumps(fs))


if __name__ == "__main__":
    _main()

"""Helpers for C16: building tiny real `xformer.Transformer`s, exporting their weights bit-exactly,
talking to the `xformer` driver component.  No arithmetic of the forward pass lives here."""
import struct

import torch


def bits(x):
    """IEEE-754 double bit pattern of a Python float, as a decimal string"""
    return str(struct.unpack("<Q", struct.pack("<d", float(x)))[0])


def unbits(s):
    return struct.unpack("<d", struct.pack("<Q", int(s)))[0]


def bits_list(t):
    """tensor / iterable of numbers -> 'bits,bits,…' (or '-')"""
    if isinstance(t, torch.Tensor):
        t = t.detach().to(torch.float64).reshape(-1)
        if t.numel() == 0:
            return "-"
        raw = t.contiguous().view(torch.int64).tolist()
        return ",".join(str(v & 0xFFFFFFFFFFFFFFFF) for v in raw)
    t = list(t)
    return ",".join(bits(v) for v in t) if t else "-"


def parse_bits_list(s):
    if s == "-":
        return []
    return [unbits(v) for v in s.split(",")]


class Cfg:
    """plain description of one model; `seed` determines every weight"""

    FIELDS = ("n_vocab", "n_ctx", "n_head", "d_head", "n_layer", "causal", "pos", "head", "seed", "dtype", "train")

    def __init__(self, **kw):
        self.train = False
        self.dtype = "float64"
        for k, v in kw.items():
            setattr(self, k, v)

    @property
    def d_model(self):
        return self.n_head * self.d_head

    def to_json(self):
        return {k: getattr(self, k) for k in self.FIELDS}

    @staticmethod
    def from_json(d):
        return Cfg(**{k: d[k] for k in Cfg.FIELDS if k in d})

    def short(self):
        return "L%d d%d h%d %s %s %s %s%s" % (
            self.n_layer,
            self.d_model,
            self.n_head,
            self.pos,
            "causal" if self.causal else "full",
            self.head,
            self.dtype,
            " train" if self.train else "",
        )


def build(cfg):
    """the real `xformer.Transformer` for cfg, every parameter drawn from a generator seeded by cfg.seed
    (std large enough that attention patterns, ReLU gates and layer norms are all non-degenerate)"""
    import xformer
    from xformer import model as xm

    if cfg.head == "pv":
        from tak.model import heads

        head = heads.PolicyValue
    else:
        head = xm.TextUnembedding
    dt = getattr(torch, cfg.dtype)
    xc = xformer.Config(
        n_vocab=cfg.n_vocab,
        n_layer=cfg.n_layer,
        d_model=cfg.d_model,
        d_head=cfg.d_head,
        n_ctx=cfg.n_ctx,
        positional_encoding=cfg.pos,
        output_head=head,
        autoregressive_mask=bool(cfg.causal),
    )
    m = xformer.Transformer(xc, dtype=dt)
    m.init_weights()
    g = torch.Generator().manual_seed(int(cfg.seed))
    with torch.no_grad():
        for p in m.parameters():
            # drawn in float64 and cast, so that float32 and float64 builds of one seed share weights
            if p.dim() >= 2:
                fan_in = p.shape[-1]
                v = torch.randn(p.shape, generator=g, dtype=torch.float64) * (1.6 / fan_in**0.5)
                if p.shape[0] == cfg.n_vocab or p.shape[0] == cfg.n_ctx:
                    v = torch.randn(p.shape, generator=g, dtype=torch.float64)
            else:
                v = torch.randn(p.shape, generator=g, dtype=torch.float64) * 0.4
            p.copy_(v.to(dt))
        # layer-norm gains around 1, not around 0
        for mod in m.modules():
            if isinstance(mod, torch.nn.LayerNorm):
                mod.weight.add_(1.0)
    m.train(bool(cfg.train))
    return m


def export(m, cfg, out_ids=None):
    """weights in the order the driver expects (= parameter registration order), shape-checked.
    Returns (n_out, 'bits,bits,…').  `out_ids`: subset of output rows of the last linear layer."""
    d = cfg.d_model
    ps = [p.detach() for p in m.parameters()]
    exp = [(cfg.n_vocab, d)]
    if cfg.pos == "learned":
        exp.append((cfg.n_ctx, d))
    for _ in range(cfg.n_layer):
        exp += [(d,), (d,), (3 * d, d), (3 * d,), (d, d), (d,), (d,), (d,), (4 * d, d), (4 * d,), (d, 4 * d), (d,)]
    exp += [(d,), (d,)]
    if cfg.head == "pv":
        exp += [(1, d), (1,)]
    n_fixed = len(exp)
    if len(ps) != n_fixed + 2:
        raise RuntimeError("C16 export: %d parameters, expected %d" % (len(ps), n_fixed + 2))
    for p, e in zip(ps, exp):
        if tuple(p.shape) != e:
            raise RuntimeError("C16 export: parameter order/shape changed: %s vs %s" % (tuple(p.shape), e))
    w, b = ps[-2], ps[-1]
    if w.dim() != 2 or w.shape[1] != d or b.shape != (w.shape[0],):
        raise RuntimeError("C16 export: output layer shape %s %s" % (tuple(w.shape), tuple(b.shape)))
    if out_ids is not None:
        idx = torch.tensor(list(out_ids), dtype=torch.long)
        w, b = w[idx], b[idx]
    parts = [bits_list(p) for p in ps[:-2]] + [bits_list(w), bits_list(b)]
    return w.shape[0], ",".join(x for x in parts if x != "-")


def rows_str(rows):
    return "/".join(",".join(str(int(t)) for t in r) if len(r) else "-" for r in rows)


def masks_str(masks):
    if masks is None:
        return "none"
    return "/".join("".join("1" if b else "0" for b in r) if len(r) else "-" for r in masks)


def case_line(op, cfg, n_out, weights, rows, masks):
    return "xformer %s %d %d %d %d %d %d %s %d %s %s %s" % (
        op,
        cfg.n_vocab,
        cfg.n_ctx,
        cfg.n_head,
        cfg.d_head,
        cfg.n_layer,
        1 if cfg.causal else 0,
        cfg.pos,
        n_out,
        rows_str(rows),
        masks_str(masks),
        weights,
    )


def parse_rows_answer(ans, kind):
    """driver answer -> list per row: None (reject) | text: list of rows of floats | pv: (value, [logits])"""
    if not ans.startswith("ok "):
        return None
    out = []
    for f in ans[3:].split(" | "):
        if f == "reject":
            out.append(None)
        elif kind == "text":
            out.append([] if f == "-" else [parse_bits_list(r) for r in f.split(";")])
        else:
            v, l = f.split(";")
            out.append((unbits(v), parse_bits_list(l)))
    return out


def close_line(tol, a, b):
    return "xformer close %s %s %s" % (bits(tol), bits_list(a), bits_list(b))


def parse_close(ans):
    """-> (good, maxdiff, scale)"""
    t = ans.split(" ")
    if t[0] != "ok":
        return None
    return t[1] == "true", unbits(t[2]), unbits(t[3])

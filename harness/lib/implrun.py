"""Running the real implementation and canonicalising what it does."""
from . import ser


def move_out(pos, m):
    """`ok <pos>` | `illegal` | `crash <ExceptionClass>`"""
    import tak

    try:
        q = pos.move(m)
    except tak.IllegalMove:
        return "illegal"
    except Exception as e:  # any other exception class is a crash
        return "crash " + type(e).__name__
    try:
        return "ok " + ser.pos_str(q)
    except Exception as e:
        return "crash-ser " + type(e).__name__

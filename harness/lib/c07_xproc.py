"""C07: move ids across interpreters, and after callers have modified lists handed to them.

`python -m harness.lib.c07_xproc produce <path>`  (started with one PYTHONHASHSEED)
    pickles, for every table size, the moves `decode_move(n, i)` and equal moves built from scratch.
`python -m harness.lib.c07_xproc consume <path>`  (started with ANOTHER PYTHONHASHSEED)
    unpickles them - as a self-play worker's transcript arrives in the trainer - and reports the id
    `encode_move` / `encode_moves_batch` give each of them; then modifies, in place, the lists the
    public helpers `all_moves_for_size(n)` and `Position.all_moves()` returned (they are the
    caller's) and reports the tables again.
Nothing is judged here: the caller compares with ids 0..n-1 and with the tables before.
"""
import json
import pickle
import random
import sys

from . import env


def mv(m):
    s = m.slides
    st = "none" if s is None else ("-" if len(s) == 0 else ",".join(str(d) for d in s))
    return "%d:%d:%d:%s" % (m.x, m.y, m.type.value, st)


def sizes(encoding):
    return [n for n in range(len(encoding.MOVES_BY_SIZE)) if n >= 3]


def produce(path):
    import tak
    from tak.model import encoding

    out = {}
    for n in sizes(encoding):
        cnt = encoding.n_moves_for_size(n)
        dec = [encoding.decode_move(n, i) for i in range(cnt)]
        fresh = [tak.Move(m.x, m.y, tak.MoveType(m.type.value), None if m.slides is None else tuple(int(d) for d in m.slides)) for m in dec]
        out[n] = (dec, fresh)
    with open(path, "wb") as f:
        pickle.dump(out, f)
    print("produced")


def tables(encoding):
    t = {}
    for n in sizes(encoding):
        cnt = encoding.n_moves_for_size(n)
        dec, ids = [], []
        for i in range(cnt):
            try:
                m = encoding.decode_move(n, i)
                dec.append(mv(m))
            except Exception as e:
                dec.append("crash " + type(e).__name__)
                ids.append("crash")
                continue
            try:
                ids.append(int(encoding.encode_move(n, m)))
            except Exception as e:
                ids.append("crash " + type(e).__name__)
        t[str(n)] = {"decode": dec, "encode_of_decode": ids}
    return t


def consume(path):
    import tak
    from tak import moves
    from tak.model import encoding

    with open(path, "rb") as f:
        data = pickle.load(f)
    res = {"pickled": {}, "before": tables(encoding)}
    held = []
    for n, (dec, fresh) in data.items():
        r = {}
        for name, lst in (("decoded", dec), ("rebuilt", fresh)):
            ids = []
            for m in lst:
                try:
                    ids.append(int(encoding.encode_move(n, m)))
                except Exception as e:
                    ids.append("crash " + type(e).__name__)
            try:
                # a permuted order, so that two sizes do not ask for identical id prefixes
                perm = list(range(len(lst)))
                random.Random(n).shuffle(perm)
                t = encoding.encode_moves_batch(n, [lst[i] for i in perm])
                inv = [0] * len(perm)
                got = [int(v) for v in t.tolist()]
                for pos_, i in enumerate(perm):
                    inv[i] = got[pos_]
                b = inv
                held.append((n, name, t, got))
            except Exception as e:
                b = "crash " + type(e).__name__
            eq = [bool(m == encoding.decode_move(n, i)) for i, m in enumerate(lst)]
            r[name] = {"encode_move": ids, "encode_moves_batch": b, "equal_to_local": all(eq)}
        res["pickled"][str(n)] = r
    # every batch tensor handed out above is still what it was (a result is a value, not a view of
    # a buffer the next call reuses)
    res["held_changed"] = [[n, name] for n, name, t, got in held if [int(v) for v in t.tolist()] != got]
    # the caller does what it likes with lists it was handed
    rng = random.Random(7)
    for n in sizes(encoding):
        lst = moves.all_moves_for_size(n)
        if isinstance(lst, list):
            rng.shuffle(lst)
            del lst[::3]
            lst.sort(key=lambda m: (m.y, m.x))
        p = tak.Position.from_config(tak.Config(size=n))
        am = p.all_moves()
        if isinstance(am, list):
            am.reverse()
            del am[: len(am) // 2]
    res["after"] = tables(encoding)
    print("C07X " + json.dumps(res))


def lateimport(path):
    """the generator is used for every size BEFORE tak.model.encoding is imported for the first time
    (a script that plays first and encodes later): the id tables are the same tables"""
    import tak

    rng = random.Random(3)
    for n in range(3, 9):
        p = tak.Position.from_config(tak.Config(size=n))
        for _ in range(6):
            ms = p.all_moves()
            rng.shuffle(ms)
            for m in ms:
                try:
                    p = p.move(m)
                    break
                except tak.IllegalMove:
                    continue
    from tak.model import encoding

    print("C07X " + json.dumps({"tables": tables(encoding)}))


if __name__ == "__main__":
    env.setup_impl_path(None)
    {"produce": produce, "consume": consume, "lateimport": lateimport}[sys.argv[1]](sys.argv[2])

"""Talking to the native Lean driver: batch of lines in, same number of lines out."""
import os
import subprocess
import tempfile

from . import env


class DriverError(Exception):
    pass


def run_lines(lines, timeout=3000):
    """Send `lines` (no newlines inside) to the driver; return the list of answers."""
    if not lines:
        return []
    if not os.path.exists(env.DRIVER):
        raise DriverError("driver not built: " + env.DRIVER)
    data = ("\n".join(lines) + "\n").encode()
    r = subprocess.run([env.DRIVER], input=data, stdout=subprocess.PIPE, stderr=subprocess.PIPE, timeout=timeout)
    if r.returncode != 0:
        raise DriverError("driver exit %d: %s" % (r.returncode, r.stderr.decode(errors="replace")[-2000:]))
    out = r.stdout.decode().split("\n")
    if out and out[-1] == "":
        out.pop()
    if len(out) != len(lines):
        raise DriverError("driver answered %d lines for %d inputs" % (len(out), len(lines)))
    return out

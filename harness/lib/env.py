"""Paths and process environment shared by every check."""
import os
import sys

VERIF = os.path.dirname(os.path.dirname(os.path.dirname(os.path.abspath(__file__))))
REPO = os.environ.get("VERIF_REPO", "/repo")
REPO_PY = os.path.join(REPO, "python")
LEAN_DIR = os.path.join(VERIF, "lean")
CACHE = os.path.join(VERIF, ".cache")
BOOTSTRAP = os.path.join(VERIF, "harness", "bootstrap")
PYTHON = "/venv/bin/python"
DRIVER = os.path.join(LEAN_DIR, ".lake", "build", "bin", "takdriver")
GUARD = "NELHAGE_TAKTICIAN_PYTHON_VERIF"


def seed():
    try:
        return int(os.environ.get("VERIF_SEED", "0"))
    except ValueError:
        return 0


def setup_impl_path(ext_dir=None):
    """Make `/repo/python` (the working tree) importable in this process and in children."""
    os.environ[GUARD] = "1"
    parts = [BOOTSTRAP]
    if ext_dir:
        parts.append(ext_dir)
    parts.append(REPO_PY)
    for p in reversed(parts):
        if p not in sys.path:
            sys.path.insert(0, p)
    old = os.environ.get("PYTHONPATH", "")
    os.environ["PYTHONPATH"] = os.pathsep.join(parts + ([old] if old else []))
    os.environ.setdefault("OMP_NUM_THREADS", "1")
    os.environ.setdefault("MKL_NUM_THREADS", "1")

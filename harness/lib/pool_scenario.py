"""C18: run ONE scenario against the real self-play worker pool and print what happened as JSON.

Started by harness/props/c18.py as `python -m harness.lib.pool_scenario '<scenario json>'` (cwd = /verif,
own session so that the caller can kill the whole process group).  Nothing here judges anything: the
outcome is only observed and serialised; prediction and verdict come from the Lean driver.

scenario = {"W": 2, "requests": [5, 2], "faults": ["game:0:2", ...], "T": 10.0, "slow": 0.0, "api": "play_many"}
fault tokens are the driver's (TakVerif/Driver/Pool.lean): factory:j  game:j:k  killplay:j:k  killwait:j:r  killinit:j

api = "play_many" (default): one `MultiprocessSelfPlayEngine`, consecutive `play_many(N)` calls; afterwards
      `stop()` — ALSO after a request has raised (what `play_many_games` / the trainer do in `finally`); the
      teardown must come back (return or raise) within the same bound T.
api = "play_many_games": ONE call of the public entry point `play_many_games(config, N)` (engine creation,
      play_many, `finally: stop()`); the WHOLE call must return or raise within T of the reference time.
      (killwait faults are not available here: the engine is not reachable before the call.)
Reference time of a request = max(call start, every worker ready/failed in its factory, last fault fired).
"""
import json
import os
import signal
import sys
import tempfile
import threading
import time


def _read_markers(d):
    out = {}
    try:
        names = os.listdir(d)
    except OSError:
        return out
    for n in names:
        if n.startswith("."):
            continue
        try:
            with open(os.path.join(d, n)) as f:
                out[n] = json.load(f)
        except (OSError, ValueError):
            pass
    return out


def spec_of(scenario, nonce):
    spec = {"factory": [], "game": {}, "killplay": {}, "killinit": [], "slow": scenario.get("slow", 0.0), "nonce": nonce}
    if scenario.get("pause"):
        spec["compress"] = scenario.get("compress", 1)
    if scenario.get("exc"):
        spec["exc"] = scenario["exc"]
    for f in scenario["faults"]:
        t = f.split(":")
        if t[0] == "factory":
            spec["factory"].append(int(t[1]))
        elif t[0] == "game":
            spec["game"][t[1]] = int(t[2])
        elif t[0] == "killplay":
            spec["killplay"][t[1]] = int(t[2])
        elif t[0] == "killinit":
            spec["killinit"].append(int(t[1]))
    return spec


def _signal_of(scenario):
    """the signal that ends a worker abruptly: what the OOM killer sends (KILL), what a supervisor,
    `kill <pid>` or a closing terminal send (TERM, HUP), what a crash in native code raises (SEGV, ABRT)"""
    return {"KILL": signal.SIGKILL, "TERM": signal.SIGTERM, "HUP": signal.SIGHUP, "SEGV": signal.SIGSEGV, "ABRT": signal.SIGABRT}[scenario.get("sig", "KILL")]


def _pid_gone(pid):
    try:
        with open("/proc/%d/stat" % pid) as f:
            st = f.read()
        return st.rsplit(")", 1)[1].split()[0] in ("Z", "X")
    except (OSError, IndexError):
        return True


def _worker_children():
    import multiprocessing

    return [p for p in multiprocessing.active_children() if p.name.startswith("selfplay-worker-")]


class Monitor:
    """watches the marker directory: fired faults, kill windows, the reference time"""

    def __init__(self, d, W, t_engine, procs=None):
        self.d, self.W, self.t_engine, self.procs = d, W, t_engine, procs
        self.faults = []  # (time, kind) of every fault that has FIRED
        self.killed = set()
        self.seen = set()  # play_many_games mode: workers that have been seen alive
        self.sig = signal.SIGKILL  # what "abrupt death" is delivered as (scenario["sig"])

    def kill(self, j, pid):
        try:
            os.kill(pid, self.sig)
        except ProcessLookupError:
            pass
        t0 = time.time()
        if self.procs is not None and j < len(self.procs):
            self.procs[j].join(10)
        else:
            while not _pid_gone(pid) and time.time() - t0 < 10:
                time.sleep(0.02)
        self.faults.append((time.time(), "kill"))
        self.killed.add(j)

    def _silently_dead(self, j, alive):
        """worker j ended before saying anything (e.g. killed by the parent while still importing)"""
        if self.procs is not None:
            return self.procs[j].exitcode is not None
        return j in self.seen and j not in alive

    def settled(self, markers):
        ts = []
        alive = set()
        if self.procs is None:
            for p in _worker_children():
                try:
                    alive.add(int(p.name.rsplit("-", 1)[1]))
                except ValueError:
                    pass
            self.seen |= alive
        for j in range(self.W):
            m = markers.get("ready-%d" % j) or markers.get("fault-factory-%d" % j)
            if m is None:
                if self._silently_dead(j, alive):
                    continue
                return None
            ts.append(m["t"])
        return max(ts) if ts else self.t_engine

    def scan(self):
        markers = _read_markers(self.d)
        for n, m in markers.items():
            if n.startswith("fault-factory-") and (m["t"], "factory") not in self.faults:
                self.faults.append((m["t"], "factory"))
            if n.startswith("fault-game-") and (m["t"], "game") not in self.faults:
                self.faults.append((m["t"], "game"))
        for j in range(self.W):  # a worker announced its kill window
            m = markers.get("window-%d" % j) or markers.get("window-init-%d" % j)
            if m is not None and j not in self.killed:
                time.sleep(0.2)
                self.kill(j, m["pid"])
        return markers

    def t_ref(self, t_call, ts):
        return max([t_call, ts] + [t for t, _ in self.faults])

    def last_fault(self):
        return max(self.faults)[1] if self.faults else "none"

    def watch(self, th, t_call, T):
        """wait for thread `th`; returns None when it ended, else seconds blocked past the reference time"""
        while True:
            th.join(0.05)
            markers = self.scan()
            if not th.is_alive():
                return None
            ts = self.settled(markers)
            now = time.time()
            if ts is None:
                if now - t_call > 180:
                    raise RuntimeError("workers did not start within 180 s")
                continue
            ref = self.t_ref(t_call, ts)
            if now > ref + T:
                return round(now - ref, 2)


def _tags(logs, tf, seen_tags, prev_return, obs):
    dups = carried = 0
    tags = []
    for lg in logs:
        tag = getattr(lg, "stats", None)
        if not isinstance(tag, tf.Tag):
            tags.append("untagged")
            continue
        k = tag.key()
        tags.append(k)
        if k in seen_tags:
            dups += 1
        seen_tags.add(k)
        if prev_return is not None and tag.t_start < prev_return:
            carried += 1
    obs["dups"] = dups
    obs["carried"] = carried
    obs["by_worker"] = sorted(set(t.split("/")[0] for t in tags))
    obs["plies"] = sorted(len(lg.positions) for lg in logs)


def run_play_many(scenario, d, factory, res):
    from tak import self_play
    import takverif_factories as tf

    W = scenario["W"]
    T = float(scenario.get("T", 10.0))
    cfg = self_play.SelfPlayConfig(engine_factory=factory, size=3, workers=W)
    if scenario.get("ply_limit") is not None:
        cfg.ply_limit = int(scenario["ply_limit"])  # games that run into the ply limit are games too
    if scenario.get("nofile"):
        # the caller KEEPS every transcript it was given (a replay store); descriptors are finite
        import resource

        soft, hard = resource.getrlimit(resource.RLIMIT_NOFILE)
        resource.setrlimit(resource.RLIMIT_NOFILE, (min(int(scenario["nofile"]), hard), hard))
    kept = res.setdefault("_kept", [])
    t_engine = time.time()
    # The engine is built in a watched thread: scripted start-up faults fire while it is being built,
    # and building it is part of the first request's bounded time (a constructor that waits for the
    # workers must not wait forever for one that died).
    ebox = {}

    def build():
        try:
            ebox["engine"] = self_play.MultiprocessSelfPlayEngine(config=cfg)
        except BaseException as ex:  # noqa
            ebox["exc"] = type(ex).__name__
        ebox["t_end"] = time.time()

    mon = Monitor(d, W, t_engine, None)
    mon.sig = _signal_of(scenario)
    bth = threading.Thread(target=build, daemon=True)
    bth.start()
    blocked = mon.watch(bth, t_engine, T)
    if blocked is not None or "exc" in ebox:
        obs = {"N": scenario["requests"][0], "request": 1, "fault": mon.last_fault(), "faults_fired": sorted(k for _, k in mon.faults), "exitcodes": [], "at": "engine-construction"}
        if blocked is not None:
            obs.update(outcome="blocked", blocked_s=blocked)
        else:
            markers = mon.scan()
            ts = mon.settled(markers) or t_engine
            obs.update(outcome="raised", exc=ebox["exc"], ms=max(0, int((ebox["t_end"] - mon.t_ref(t_engine, ts)) * 1000)))
        obs["seconds"] = round(time.time() - t_engine, 2)
        res["requests"].append(obs)
        res["stop"] = None
        return
    engine = ebox["engine"]
    procs = engine.processes
    res["_procs"] = procs
    mon.procs = procs
    # a worker scripted to be killed while it starts up IS killed before the first request is made,
    # however slowly it starts (otherwise a loaded machine turns the script into a different one:
    # the request is served by the others, and the sleeping worker blocks stop())
    t0 = time.time()
    while time.time() - t0 < 170:
        mon.scan()
        todo = [int(f.split(":")[1]) for f in scenario["faults"] if f.startswith("killinit:")]
        if all(j in mon.killed or (j < len(procs) and procs[j].exitcode is not None) for j in todo):
            break
        time.sleep(0.05)
    seen_tags = set()
    prev_return = None
    t_call = t_engine
    for r, n in enumerate(scenario["requests"], start=1):
        if r > 1 and scenario.get("pause"):
            # the engine sits idle between two requests (a training step between rollout batches);
            # the workers' timed waits run `compress` times faster, so for them this is minutes
            time.sleep(float(scenario["pause"]))
        # worker j SIGKILLed while idle, before this request starts
        for f in scenario["faults"]:
            t = f.split(":")
            if t[0] == "killwait" and int(t[2]) == r:
                j = int(t[1])
                t0 = time.time()
                while "ready-%d" % j not in _read_markers(d):
                    if time.time() - t0 > 120 or procs[j].exitcode is not None:
                        break
                    time.sleep(0.05)
                if procs[j].exitcode is None:
                    time.sleep(0.3)  # let it reach cmd.get()
                    mon.kill(j, procs[j].pid)
        box = {}

        def call(n=n, box=box):
            try:
                box["logs"] = engine.play_many(n)
            except BaseException as ex:  # noqa
                box["exc"] = type(ex).__name__
            box["t_end"] = time.time()

        t_call = time.time()
        th = threading.Thread(target=call, daemon=True)
        th.start()
        obs = {"N": n, "request": r}
        # the bound is about noticing a failure, not about playing fast: a large request gets time
        # to be played (50 ms per game on top of T; a busy machine plays thousands of games slowly)
        blocked = mon.watch(th, t_call, T + 0.05 * n)
        markers = mon.scan()
        ts = mon.settled(markers) or t_call
        obs["fault"] = mon.last_fault()
        obs["faults_fired"] = sorted(k for _, k in mon.faults)
        obs["exitcodes"] = [p.exitcode for p in procs]
        if blocked is not None:
            obs["outcome"] = "blocked"
            obs["blocked_s"] = blocked
        elif "logs" in box:
            obs["outcome"] = "returned"
            obs["n"] = len(box["logs"])
            kept.append(box["logs"])
            _tags(box["logs"], tf, seen_tags, prev_return, obs)
            prev_return = box["t_end"]
        else:
            obs["outcome"] = "raised"
            obs["exc"] = box["exc"]
            obs["ms"] = max(0, int((box["t_end"] - mon.t_ref(t_call, ts)) * 1000))
        obs["seconds"] = round(time.time() - t_call, 2)
        res["requests"].append(obs)
        if obs["outcome"] != "returned":
            break

    last = res["requests"][-1]["outcome"] if res["requests"] else None
    if last in ("returned", "raised"):
        # what play_many_games / the trainer do next, also after a failure: engine.stop()
        sbox = {}

        def stop():
            try:
                engine.stop()
            except BaseException as ex:  # noqa
                sbox["exc"] = type(ex).__name__

        t0 = time.time()
        th = threading.Thread(target=stop, daemon=True)
        th.start()
        if last == "returned":
            th.join(15)
        else:
            # the whole failing request, teardown included, is bounded by T from its reference time
            markers = mon.scan()
            ts = mon.settled(markers) or t_call
            th.join(max(1.0, mon.t_ref(t_call, ts) + T - time.time()))
        st = {"after": last, "exc": sbox.get("exc")}
        st["outcome"] = "blocked" if th.is_alive() else ("raised" if "exc" in sbox else "returned")
        # play_many killed every worker before re-raising: they must all be gone shortly
        t1 = time.time()
        while last == "raised" and time.time() - t1 < 5 and any(p.exitcode is None for p in procs):
            time.sleep(0.05)
        st["exited"] = sum(1 for p in procs if p.exitcode is not None)
        st["exitcodes"] = [p.exitcode for p in procs]
        st["seconds"] = round(time.time() - t0, 2)
        res["stop"] = st


def run_play_many_games(scenario, d, factory, res):
    from tak import self_play
    import takverif_factories as tf

    W = scenario["W"]
    T = float(scenario.get("T", 10.0))
    (n,) = scenario["requests"]
    cfg = self_play.SelfPlayConfig(engine_factory=factory, size=3, workers=W)
    box = {}

    def call():
        try:
            box["logs"] = self_play.play_many_games(cfg, n)
        except BaseException as ex:  # noqa
            box["exc"] = type(ex).__name__
        box["t_end"] = time.time()

    t_call = time.time()
    mon = Monitor(d, W, t_call, None)
    mon.sig = _signal_of(scenario)
    th = threading.Thread(target=call, daemon=True)
    th.start()
    obs = {"N": n, "request": 1}
    blocked = mon.watch(th, t_call, T + 0.05 * n)
    markers = mon.scan()
    ts = mon.settled(markers) or t_call
    obs["fault"] = mon.last_fault()
    obs["faults_fired"] = sorted(k for _, k in mon.faults)
    obs["exitcodes"] = []
    if blocked is not None:
        obs["outcome"] = "blocked"
        obs["blocked_s"] = blocked
    elif "logs" in box:
        obs["outcome"] = "returned"
        obs["n"] = len(box["logs"])
        _tags(box["logs"], tf, set(), None, obs)
    else:
        obs["outcome"] = "raised"
        obs["exc"] = box["exc"]
        obs["ms"] = max(0, int((box["t_end"] - mon.t_ref(t_call, ts)) * 1000))
    obs["seconds"] = round(time.time() - t_call, 2)
    res["requests"].append(obs)
    if blocked is None:
        # the call is over (stop() included): every worker process must be gone shortly
        t0 = time.time()
        alive = _worker_children()
        while alive and time.time() - t0 < 5:
            time.sleep(0.05)
            alive = [p for p in alive if p.is_alive()]
        res["stop"] = {
            "after": obs["outcome"],
            "outcome": "returned",  # the call came back; its own stop() is part of `outcome` above
            "exc": None,
            "exited": W - len(alive),
            "exitcodes": [],
            "seconds": round(time.time() - t0, 2),
        }


def run(scenario):
    import takverif_factories as tf

    d = tempfile.mkdtemp(prefix="c18-")
    nonce = "%x" % (int(time.time() * 1e6) & 0xFFFFFFFF)
    factory = tf.ScriptedFactory(spec_of(scenario, nonce), d)
    res = {"requests": [], "W": scenario["W"], "stop": None, "error": None, "api": scenario.get("api", "play_many")}
    try:
        if res["api"] == "play_many_games":
            run_play_many_games(scenario, d, factory, res)
        else:
            run_play_many(scenario, d, factory, res)
    except BaseException as ex:  # noqa
        import traceback

        res["error"] = "%s: %s\n%s" % (type(ex).__name__, ex, traceback.format_exc()[-1500:])
    finally:
        res.pop("_kept", None)
        procs = list(res.pop("_procs", [])) + _worker_children()
        for p in procs:
            try:
                if p.exitcode is None:
                    os.kill(p.pid, signal.SIGKILL)
            except Exception:
                pass
        try:
            import shutil

            shutil.rmtree(d, ignore_errors=True)
        except Exception:
            pass
    return res


def main():
    scenario = json.loads(sys.argv[1])
    res = run(scenario)
    sys.stdout.write("\nC18RESULT " + json.dumps(res) + "\n")
    sys.stdout.flush()
    os._exit(0)


if __name__ == "__main__":
    main()

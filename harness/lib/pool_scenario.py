"""C18: run ONE scenario against the real `MultiprocessSelfPlayEngine` and print what happened as JSON.

Started by harness/props/c18.py as `python -m harness.lib.pool_scenario '<scenario json>'` (cwd = /verif,
own session so that the caller can kill the whole process group).  Nothing here judges anything: the
outcome is only observed and serialised; prediction and verdict come from the Lean driver.

scenario = {"W": 2, "requests": [5, 2], "faults": ["game:0:2", "killwait:1:2", ...], "T": 10.0, "slow": 0.0}
fault tokens are the driver's (TakVerif/Driver/Pool.lean): factory:j  game:j:k  killplay:j:k  killwait:j:r
"""
import json
import os
import signal
import sys
import tempfile
import threading
import time


def _read_markers(d):
    out = {}
    try:
        names = os.listdir(d)
    except OSError:
        return out
    for n in names:
        if n.startswith("."):
            continue
        try:
            with open(os.path.join(d, n)) as f:
                out[n] = json.load(f)
        except (OSError, ValueError):
            pass
    return out


def spec_of(scenario, nonce):
    spec = {"factory": [], "game": {}, "killplay": {}, "slow": scenario.get("slow", 0.0), "nonce": nonce}
    for f in scenario["faults"]:
        t = f.split(":")
        if t[0] == "factory":
            spec["factory"].append(int(t[1]))
        elif t[0] == "game":
            spec["game"][t[1]] = int(t[2])
        elif t[0] == "killplay":
            spec["killplay"][t[1]] = int(t[2])
    return spec


def run(scenario):
    from tak import self_play
    import takverif_factories as tf

    W = scenario["W"]
    T = float(scenario.get("T", 10.0))
    d = tempfile.mkdtemp(prefix="c18-")
    nonce = "%x" % (int(time.time() * 1e6) & 0xFFFFFFFF)
    factory = tf.ScriptedFactory(spec_of(scenario, nonce), d)
    cfg = self_play.SelfPlayConfig(engine_factory=factory, size=3, workers=W)
    res = {"requests": [], "W": W, "stop": None, "error": None}
    t_engine = time.time()
    engine = self_play.MultiprocessSelfPlayEngine(config=cfg)
    procs = engine.processes
    faults = []  # (time, kind) of every fault that has FIRED
    killed = set()

    def settled_time(markers):
        ts = []
        for j in range(W):
            m = markers.get("ready-%d" % j) or markers.get("fault-factory-%d" % j)
            if m is None:
                if procs[j].exitcode is not None:  # died before saying anything (e.g. killed)
                    continue
                return None
            ts.append(m["t"])
        return max(ts) if ts else t_engine

    def note_marker_faults(markers):
        for n, m in markers.items():
            if n.startswith("fault-factory-") and (m["t"], "factory") not in faults:
                faults.append((m["t"], "factory"))
            if n.startswith("fault-game-") and (m["t"], "game") not in faults:
                faults.append((m["t"], "game"))

    def kill_worker(j):
        os.kill(procs[j].pid, signal.SIGKILL)
        procs[j].join(10)
        faults.append((time.time(), "kill"))
        killed.add(j)

    seen_tags = set()
    prev_return = None
    try:
        for r, n in enumerate(scenario["requests"], start=1):
            # worker j SIGKILLed while idle, before this request starts
            for f in scenario["faults"]:
                t = f.split(":")
                if t[0] == "killwait" and int(t[2]) == r:
                    j = int(t[1])
                    t0 = time.time()
                    while "ready-%d" % j not in _read_markers(d):
                        if time.time() - t0 > 120 or procs[j].exitcode is not None:
                            break
                        time.sleep(0.05)
                    if procs[j].exitcode is None:
                        time.sleep(0.3)  # let it reach cmd.get()
                        kill_worker(j)
            box = {}

            def call(n=n, box=box):
                try:
                    box["logs"] = engine.play_many(n)
                except BaseException as ex:  # noqa
                    box["exc"] = type(ex).__name__
                box["t_end"] = time.time()

            t_call = time.time()
            th = threading.Thread(target=call, daemon=True)
            th.start()
            obs = {"N": n, "request": r}
            while True:
                th.join(0.05)
                markers = _read_markers(d)
                note_marker_faults(markers)
                for j in range(W):  # a worker announced its kill window
                    if "window-%d" % j in markers and j not in killed:
                        time.sleep(0.2)
                        kill_worker(j)
                if not th.is_alive():
                    break
                ts = settled_time(markers)
                now = time.time()
                if ts is None:
                    if now - t_call > 180:
                        raise RuntimeError("workers did not start within 180 s")
                    continue
                t_ref = max([t_call, ts] + [t for t, _ in faults])
                if now > t_ref + T:
                    obs["outcome"] = "blocked"
                    obs["blocked_s"] = round(now - t_ref, 2)
                    break
            markers = _read_markers(d)
            note_marker_faults(markers)
            ts = settled_time(markers) or t_call
            obs["fault"] = max(faults)[1] if faults else "none"
            obs["faults_fired"] = sorted(k for _, k in faults)
            obs["exitcodes"] = [p.exitcode for p in procs]
            if "outcome" not in obs:
                if "logs" in box:
                    logs = box["logs"]
                    obs["outcome"] = "returned"
                    obs["n"] = len(logs)
                    dups = carried = 0
                    tags = []
                    for lg in logs:
                        tag = getattr(lg, "stats", None)
                        if not isinstance(tag, tf.Tag):
                            tags.append("untagged")
                            continue
                        k = tag.key()
                        tags.append(k)
                        if k in seen_tags:
                            dups += 1
                        seen_tags.add(k)
                        if prev_return is not None and tag.t_start < prev_return:
                            carried += 1
                    obs["dups"] = dups
                    obs["carried"] = carried
                    obs["by_worker"] = sorted(set(t.split("/")[0] for t in tags))
                    obs["plies"] = sorted(len(lg.positions) for lg in logs)
                    prev_return = box["t_end"]
                else:
                    obs["outcome"] = "raised"
                    obs["exc"] = box["exc"]
                    t_ref = max([t_call, ts] + [t for t, _ in faults])
                    obs["ms"] = max(0, int((box["t_end"] - t_ref) * 1000))
            obs["seconds"] = round(time.time() - t_call, 2)
            res["requests"].append(obs)
            if obs["outcome"] != "returned":
                break

        last = res["requests"][-1]["outcome"] if res["requests"] else None
        if last == "returned":
            sbox = {}

            def stop():
                try:
                    engine.stop()
                except BaseException as ex:  # noqa
                    sbox["exc"] = type(ex).__name__

            t0 = time.time()
            th = threading.Thread(target=stop, daemon=True)
            th.start()
            th.join(15)
            res["stop"] = {
                "after": "returned",
                "returned": not th.is_alive(),
                "exc": sbox.get("exc"),
                "exited": sum(1 for p in procs if p.exitcode is not None),
                "exitcodes": [p.exitcode for p in procs],
                "seconds": round(time.time() - t0, 2),
            }
        elif last == "raised":
            # play_many killed every worker before re-raising: they must all be gone shortly
            t0 = time.time()
            while time.time() - t0 < 5 and any(p.exitcode is None for p in procs):
                time.sleep(0.05)
            res["stop"] = {
                "after": "raised",
                "exited": sum(1 for p in procs if p.exitcode is not None),
                "exitcodes": [p.exitcode for p in procs],
                "seconds": round(time.time() - t0, 2),
            }
    except BaseException as ex:  # noqa
        import traceback

        res["error"] = "%s: %s\n%s" % (type(ex).__name__, ex, traceback.format_exc()[-1500:])
    finally:
        for p in procs:
            try:
                if p.exitcode is None:
                    os.kill(p.pid, signal.SIGKILL)
            except Exception:
                pass
        try:
            import shutil

            shutil.rmtree(d, ignore_errors=True)
        except Exception:
            pass
    return res


def main():
    scenario = json.loads(sys.argv[1])
    res = run(scenario)
    sys.stdout.write("\nC18RESULT " + json.dumps(res) + "\n")
    sys.stdout.flush()
    os._exit(0)


if __name__ == "__main__":
    main()

"""C19 — one trainer PROCESS of a scripted history, run as a subprocess of the check:

    python -m harness.lib.snap_proc <spec.json>

spec = {"mode": "proc", "run_dir": …, "out": …, "opts": {…}, "actions": [...],
        "trace": <path>|null, "inject": "<syscall>:signal=KILL:when=<n>"|null}
actions (executed in order, with the REAL code):
    ["init", sid, step]            put the run into the deterministic state `sid` at `step`
    ["resume"]                     fresh TrainingRun/TrainState + `load_or_init_model`
    ["save_model", dir]            `xformer.loading.save_model` of the current model into `dir`
    ["train", seed]                one real `TrainingRun.train_step` on a synthetic rollout batch
    ["hook", "after_step"|"after_run", freq]   the real `SavingHook` method
Before the first hook action the process attaches `strace` to ITSELF (so that only the save is
traced and `when=<n>` counts from there); with `inject` set, strace kills the process on entry
to the n-th call of the named system call (the call is not executed).

spec = {"mode": "resume", "out": …, "opts": {…}, "dirs": [...], "configs": [{"name", "load_model"}]}:
run the real resume logic on each run directory under each `load_model` configuration, each on
a fresh TrainingRun/TrainState, and report what was restored."""
import json
import os
import subprocess
import sys
import time

from . import snap_common as sc

TRACED = (
    "mkdir,mkdirat,openat,open,creat,write,writev,pwrite64,pwritev,close,rename,renameat,renameat2,"
    "unlink,unlinkat,symlink,symlinkat,rmdir,link,linkat,truncate,ftruncate"
)


def write_json(path, obj):
    tmp = path + ".tmp%d" % os.getpid()
    with open(tmp, "w") as f:
        json.dump(obj, f)
    os.replace(tmp, path)


def attach_strace(trace, inject):
    cmd = ["strace", "-f", "-y", "-s", "24", "-p", str(os.getpid()), "-o", trace, "-e", "trace=" + TRACED]
    if inject:
        cmd += ["-e", "inject=" + inject]
    fd = os.open("/proc/self/status", os.O_RDONLY)
    p = subprocess.Popen(cmd, stdin=subprocess.DEVNULL, stdout=subprocess.DEVNULL, stderr=subprocess.DEVNULL)
    t0 = time.time()
    while True:
        s = os.pread(fd, 8192, 0).decode()
        tp = [l for l in s.split("\n") if l.startswith("TracerPid")][0].split()[1]
        if tp != "0":
            break
        if p.poll() is not None or time.time() - t0 > 20:
            raise RuntimeError("strace did not attach")
        time.sleep(0.002)
    time.sleep(0.03)  # let strace pick up the (single) remaining threads
    return p


def warm_up():
    """first use of torch.save / yaml.dump imports modules lazily; do it before tracing"""
    import io

    import yaml

    m = sc.mods()
    m.torch.save({"x": m.torch.zeros(1)}, io.BytesIO())
    yaml.dump(m.stats.Elapsed())
    import shutil  # noqa


def run_proc(spec):
    m = sc.mods()
    out = {"actions": [], "completed": False}
    run = sc.fresh_run(spec["run_dir"], spec.get("opts"))
    hook = None
    tracer = None
    warm_up()
    for act in spec["actions"]:
        kind = act[0]
        if kind == "init":
            sc.init_state(run, int(act[1]), int(act[2]))
            out["actions"].append({"act": act, "fp": sc.fingerprint(run.state)})
        elif kind == "resume":
            run, (k, detail, _) = sc.resume_outcome(spec["run_dir"], spec.get("opts"))
            out["actions"].append({"act": act, "resume": [k, detail]})
            if k == "error":
                out["failed"] = "resume raised " + str(detail)
                write_json(spec["out"], out)
                os._exit(4)
            run.serve_mode()
        elif kind == "train":
            if not hasattr(run, "train_params"):
                run.serve_mode()
            m.torch.manual_seed(104729 * int(act[1]) + 3)  # train_step shuffles with the default generator
            run.train_step(sc.make_batch(int(act[1])))
            out["actions"].append({"act": act, "fp": sc.fingerprint(run.state)})
        elif kind == "save_model":
            # a model-only directory, as the supervised pre-training writes it
            m.xformer.loading.save_model(run.state.model, act[1])
            out["actions"].append({"act": act, "done": True})
        elif kind == "hook":
            if hook is None or hook.freq != int(act[2]):
                hook = m.saving.SavingHook(freq=int(act[2]))
                hook.before_run(run.state, run.config)
            if tracer is None and spec.get("trace"):
                write_json(spec["out"], out)
                sys.stdout.flush()
                tracer = attach_strace(spec["trace"], spec.get("inject"))
            os.write(2, b"MARK hook-begin\n")
            getattr(hook, act[1])(run.state)
            sys.stdout.flush()
            os.write(2, b"MARK hook-end\n")
            out["actions"].append({"act": act, "done": True})
        else:
            raise ValueError(act)
    out["completed"] = True
    write_json(spec["out"], out)
    return out


def run_resume(spec):
    res, files = {}, {}
    configs = spec.get("configs") or [{"name": "unset", "load_model": None}]
    for d in spec["dirs"]:
        res[d] = {}
        for c in configs:
            opts = dict(spec.get("opts") or {})
            opts["load_model"] = c.get("load_model")
            # each configuration on its own fresh TrainingRun / model / optimiser
            _, (k, detail, base) = sc.resume_outcome(d, opts)
            res[d][c["name"]] = [k, detail, base]
        files[d] = sc.file_digests(d)
    write_json(spec["out"], {"resume": res, "files": files, "completed": True})


def run_spec_file(path):
    spec = json.load(open(path))
    if spec.get("log"):
        fd = os.open(spec["log"], os.O_WRONLY | os.O_CREAT | os.O_TRUNC, 0o644)
        os.dup2(fd, 1)
        os.dup2(fd, 2)
        os.close(fd)
    if spec.get("mode") == "resume":
        run_resume(spec)
    else:
        run_proc(spec)
    sys.stdout.flush()


def serve():
    """warm process: imports the implementation once, then runs every job in a FORKED child
    (a new process with its own address space; it never shares state with another job), many at
    a time.  stdin: `<job id> <spec path>` per line; stdout: `done <job id> <exit code> <signal>`."""
    import select

    sc.mods()
    warm_up()
    # run every kernel once (single-threaded, so no worker threads exist at fork time)
    import tempfile

    with tempfile.TemporaryDirectory() as d:
        r = sc.fresh_run(d)
        sc.init_state(r, 0, 0)
        sc.fingerprint(r.state)
    ctl = os.fdopen(os.dup(1), "w")
    sys.stdout.flush()
    print("ready", file=ctl, flush=True)
    pending = {}
    buf = b""
    eof = False
    while not eof or pending:
        rd, _, _ = select.select([] if eof else [0], [], [], 0.004 if pending else 1.0)
        if rd:
            data = os.read(0, 65536)
            if not data:
                eof = True
            buf += data
            while b"\n" in buf:
                line, buf = buf.split(b"\n", 1)
                if not line.strip():
                    continue
                jid, path = line.decode().split(" ", 1)
                pid = os.fork()
                if pid == 0:
                    code = 0
                    try:
                        os.close(0)
                        run_spec_file(path)
                    except BaseException:
                        import traceback

                        traceback.print_exc()
                        code = 3
                    sys.stdout.flush()
                    sys.stderr.flush()
                    os._exit(code)
                pending[pid] = jid
        while pending:
            try:
                pid, status = os.waitpid(-1, os.WNOHANG)
            except ChildProcessError:
                break
            if pid == 0:
                break
            if pid in pending:
                sig = os.WTERMSIG(status) if os.WIFSIGNALED(status) else 0
                code = os.WEXITSTATUS(status) if os.WIFEXITED(status) else -1
                print("done %s %d %d" % (pending.pop(pid), code, sig), file=ctl, flush=True)


def main():
    if sys.argv[1] == "--server":
        serve()
        return
    try:
        run_spec_file(sys.argv[1])
    except BaseException:
        import traceback

        traceback.print_exc()
        sys.stdout.flush()
        sys.stderr.flush()
        os._exit(3)
    os._exit(0)  # skip interpreter teardown


if __name__ == "__main__":
    main()

"""Road-aware board generator for C02 (all randomness from the rng passed in).

Boards are produced as lists of stack strings in the driver's letter code (top piece first,
`_` = empty; a b c = white flat/wall/capstone, d e f = black flat/wall/capstone) plus a
label saying which construction was used.  Nothing here decides whether a board has a
road: that is the model's job.  The generator only aims at the neighbourhood of the
decision boundary (intact chains, chains cut in one place, chains one square short,
diagonal-only contacts, long snakes, two colours at once)."""

ROADTOP = {0: "ac", 1: "df"}  # flat / capstone of a colour
FLAT = {0: "a", 1: "d"}
WALL = {0: "b", 1: "e"}
CAP = {0: "c", 1: "f"}
NBRS = ((1, 0), (-1, 0), (0, 1), (0, -1))


def random_path(rng, size, horiz, free=None, greedy=None):
    """a random self-avoiding chain of orthogonally adjacent cells from the near edge
    (column 0 when horiz, row 0 otherwise) to the far edge, inside `free` (a set of cells;
    default: the whole board).  Randomised depth-first search; `greedy` in [0,1] biases the
    neighbour order towards the far edge (low = meandering, long chains).  None if there is
    no such chain."""
    if free is None:
        free = {(x, y) for x in range(size) for y in range(size)}
    if greedy is None:
        greedy = rng.choice([0.0, 0.0, 0.15, 0.4, 0.7, 1.0])
    starts = [c for c in free if (c[0] if horiz else c[1]) == 0]
    rng.shuffle(starts)

    def far(c):
        return (c[0] if horiz else c[1]) == size - 1

    fwd = (1, 0) if horiz else (0, 1)
    for s in starts:
        path = [s]
        on = {s}
        dead = set()
        # iterative DFS with explicit choice stacks
        choices = []

        def options(c):
            opts = [(c[0] + dx, c[1] + dy) for dx, dy in NBRS]
            opts = [o for o in opts if o in free and o not in on and o not in dead]
            rng.shuffle(opts)
            if rng.random() < greedy:
                opts.sort(key=lambda o: 1 if (o[0] - c[0], o[1] - c[1]) == fwd else 0)  # popped from the end
            return opts

        choices.append(options(s))
        steps = 0
        while path and steps < 20 * size * size:
            steps += 1
            if far(path[-1]):
                return path
            opts = choices[-1]
            if not opts:
                d = path.pop()
                on.discard(d)
                dead.add(d)
                choices.pop()
                continue
            n = opts.pop()
            if n in on or n in dead:
                continue
            path.append(n)
            on.add(n)
            choices.append(options(n))
    return None


def snake(size, horiz, flip=False):
    """a boustrophedon chain that needs steps in both directions along the lines: lines
    0, 2, 4.. are filled except their last cell row/column (so that no chain in the other
    direction exists), joined alternately at the two ends"""
    cells = []
    hi = size - 2
    up = True
    for a in range(size):
        if a % 2 == 0:
            run = list(range(0, hi + 1))
            if not up:
                run.reverse()
            for b in run:
                cells.append((a, b))
            up = not up
        else:
            cells.append((a, hi if not up else 0))
    if flip:
        cells = [(a, hi - b) if b <= hi else (a, b) for a, b in cells]
    if not horiz:
        cells = [(b, a) for a, b in cells]
    return cells


def spiral(size):
    """a chain from (0,0) spiralling inwards (never reaches the far edge after the first
    turn unless size is tiny): used as a long-chain stress for the fill, the far edge being
    touched by the first leg"""
    x, y, dx, dy = 0, 0, 1, 0
    lo_x, hi_x, lo_y, hi_y = 0, size - 1, 0, size - 1
    cells = []
    seen = set()
    for _ in range(size * size):
        if (x, y) in seen:
            break
        cells.append((x, y))
        seen.add((x, y))
        nx, ny = x + dx, y + dy
        blocked = not (0 <= nx < size and 0 <= ny < size) or (nx, ny) in seen
        # keep a one-cell gap between the arms
        ax, ay = nx + dx, ny + dy
        if not blocked and (ax, ay) in seen:
            blocked = True
        if blocked:
            dx, dy = -dy, dx
            nx, ny = x + dx, y + dy
            ax, ay = nx + dx, ny + dy
            if not (0 <= nx < size and 0 <= ny < size) or (nx, ny) in seen or (ax, ay) in seen:
                break
        x, y = nx, ny
    return cells


def _under(rng, maxh):
    """random buried pieces (flats of either colour)"""
    return "".join(rng.choice("ad") for _ in range(rng.randrange(0, maxh + 1)))


def top_for(rng, colour, cap_prob=0.2):
    return CAP[colour] if rng.random() < cap_prob else FLAT[colour]


def filler(rng, size, colour, mode):
    """content of a square that is not on the chain of `colour`"""
    opp = 1 - colour
    if mode == "empty":
        return "_"
    r = rng.random()
    if mode == "hostile":  # nothing that helps `colour`
        if r < 0.35:
            return "_"
        if r < 0.6:
            return FLAT[opp] + _under(rng, 2)
        if r < 0.75:
            return WALL[colour] + _under(rng, 1)
        if r < 0.87:
            return WALL[opp] + _under(rng, 1)
        if r < 0.94:
            return CAP[opp]
        # own colour buried under an opponent top
        return FLAT[opp] + FLAT[colour] * rng.randrange(1, 3)
    # "noise": anything, including more road pieces of the same colour
    if r < 0.3:
        return "_"
    return rng.choice("abcdef") + _under(rng, 3)


def board_from_chain(rng, size, chain, colour, mode, cap_prob=0.2, bury=True):
    b = [None] * (size * size)
    on = set(chain)
    for y in range(size):
        for x in range(size):
            if (x, y) in on:
                b[x + y * size] = top_for(rng, colour, cap_prob) + (_under(rng, 3) if bury and rng.random() < 0.4 else "")
            else:
                b[x + y * size] = filler(rng, size, colour, mode)
    return b


CUTS = ["own-wall", "opp-flat", "opp-cap", "opp-wall", "empty", "buried"]


def cut(rng, size, board, chain, colour, how=None, where=None):
    """interrupt the chain at one cell"""
    opp = 1 - colour
    if how is None:
        how = rng.choice(CUTS)
    if where is None:
        where = rng.randrange(len(chain))
    x, y = chain[where]
    i = x + y * size
    b = list(board)
    if how == "own-wall":
        b[i] = WALL[colour] + b[i][1:]
    elif how == "opp-flat":
        b[i] = FLAT[opp] + _under(rng, 2)
    elif how == "opp-cap":
        b[i] = CAP[opp]
    elif how == "opp-wall":
        b[i] = WALL[opp] + _under(rng, 2)
    elif how == "empty":
        b[i] = "_"
    elif how == "buried":  # the road piece is still there, but under an opponent top
        b[i] = rng.choice([FLAT[opp], WALL[opp], CAP[opp]]) + FLAT[colour] + b[i][1:].replace("c", "a").replace("f", "d")
    return b, how


def diagonal_board(rng, size, colour, anti=False, mode="empty"):
    """only diagonal contacts: (i, i) (or the anti-diagonal)"""
    chain = [(i, size - 1 - i if anti else i) for i in range(size)]
    return board_from_chain(rng, size, chain, colour, mode, bury=False), chain


def staircase_gap(rng, size, chain):
    """indices of chain cells that are a corner (their two chain neighbours touch only
    diagonally): removing one leaves a diagonal-only contact"""
    out = []
    for i in range(1, len(chain) - 1):
        (ax, ay), (bx, by) = chain[i - 1], chain[i + 1]
        if abs(ax - bx) == 1 and abs(ay - by) == 1:
            out.append(i)
    return out


def two_colour(rng, size, same_dir=None):
    """a chain for White and, in the cells that remain, a chain for Black (or None)"""
    for _ in range(8):
        h0 = rng.random() < 0.5
        w = random_path(rng, size, h0, greedy=0.7 + 0.3 * rng.random())
        if w is None:
            continue
        free = {(x, y) for x in range(size) for y in range(size)} - set(w)
        bpath = random_path(rng, size, h0, free=free, greedy=rng.random())
        if bpath is None:
            continue
        if rng.random() < 0.5:
            w, bpath = bpath, w
        b = [None] * (size * size)
        won, bon = set(w), set(bpath)
        for y in range(size):
            for x in range(size):
                if (x, y) in won:
                    b[x + y * size] = top_for(rng, 0)
                elif (x, y) in bon:
                    b[x + y * size] = top_for(rng, 1)
                else:
                    b[x + y * size] = rng.choice(["_", "_", "b", "e", "_"])
        return b, w, bpath
    return None


def full_board(rng, size, road_free_bias=True):
    """every square occupied; many walls so that usually nobody has a road; flat counts
    equal or unequal"""
    n = size * size
    kind = rng.random()
    b = []
    for i in range(n):
        x, y = i % size, i // size
        if road_free_bias and (x + y) % 2 == 1 and rng.random() < 0.85:
            b.append(rng.choice("be") + _under(rng, 2))
        else:
            b.append(rng.choice("aaddcfbe") + _under(rng, 2))
    if kind < 0.4:
        # force equal flat counts by flipping flats
        flats = [i for i, s in enumerate(b) if s[0] in "ad"]
        w = [i for i in flats if b[i][0] == "a"]
        k = [i for i in flats if b[i][0] == "d"]
        while len(w) > len(k) + (len(flats) % 2):
            i = w.pop()
            b[i] = "d" + b[i][1:]
            k.append(i)
        while len(k) > len(w):
            i = k.pop()
            b[i] = "a" + b[i][1:]
            w.append(i)
        if len(w) != len(k) and w:
            i = w.pop()
            b[i] = "b" + b[i][1:]
    return b


# each reserve-exhaustion pattern: (wStones, wCaps, bStones, bCaps), label
RESERVES = [
    ((0, 0, 7, 1), "w-empty"),
    ((7, 1, 0, 0), "b-empty"),
    ((0, 0, 0, 0), "both-empty"),
    ((0, 1, 7, 0), "w-stones0-caps1"),
    ((7, 0, 0, 2), "b-stones0-caps2"),
    ((1, 0, 0, 1), "one-left-each"),
    ((5, 1, 5, 1), "plenty"),
    ((1, -1, 4, 0), "w-sum0-negative"),
    ((-1, 0, 3, 0), "w-negative"),
]


def sparse_board(rng, size):
    """not full, usually no road: a few pieces of any kind"""
    b = []
    for _ in range(size * size):
        r = rng.random()
        if r < 0.55:
            b.append("_")
        else:
            b.append(rng.choice("adbecf"[: 6]) + _under(rng, 2))
    if all(s != "_" for s in b):
        b[rng.randrange(len(b))] = "_"
    return b


def blob_and_road(rng, size, colour):
    """a straight road of `colour` along one row (or column) plus a LARGE group of the same colour
    that touches the same starting edge but spans nothing (the work list of a flood fill gets long
    before the road's own seed is reached)"""
    horiz = rng.random() < 0.5
    k = rng.randrange(size)  # the road's row / column
    gap = rng.choice([i for i in range(size) if abs(i - k) >= 2] or [None])
    b = ["_"] * (size * size)
    for y in range(size):
        for x in range(size):
            a, c = (x, y) if horiz else (y, x)  # a runs along the road, c across
            if c == k:
                t = FLAT[colour]
            elif gap is not None and c == gap:
                t = "_"
            elif (c < k) == (gap is not None and gap < k) and gap is not None and abs(c - k) == 1 and False:
                t = "_"
            elif a < size - 1 and abs(c - k) >= 2:
                t = FLAT[colour]  # the blob: every row but the road's neighbours, one short of the far edge
            else:
                t = "_"
            b[x + y * size] = t
    return b

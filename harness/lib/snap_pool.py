"""C19 — running many short trainer processes: a few warm interpreters (implementation imported
once) that fork one child per job.  `VERIF_C19_NOFORK=1` starts a new interpreter per job
instead."""
import json
import os
import subprocess
import threading
from concurrent.futures import ThreadPoolExecutor

from . import env


def child_env():
    e = dict(os.environ)
    e["PYTHONPATH"] = e.get("PYTHONPATH", "") + os.pathsep + env.VERIF
    e["OMP_NUM_THREADS"] = "1"
    e["MKL_NUM_THREADS"] = "1"
    e[env.GUARD] = "1"
    return e


class Pool:
    def __init__(self, workdir, n=None):
        self.workdir = workdir
        self.n = n or max(2, min(16, os.cpu_count() or 2))
        self.nofork = os.environ.get("VERIF_C19_NOFORK") == "1"
        self.seq = 0
        self.lock = threading.Lock()
        self.sem = threading.Semaphore(self.n)
        self.waiting = {}
        self.ex = ThreadPoolExecutor(max_workers=self.n)
        self.proc = None
        if not self.nofork:
            self.proc = subprocess.Popen(
                [env.PYTHON, "-u", "-m", "harness.lib.snap_proc", "--server"],
                cwd=workdir,
                env=child_env(),
                stdin=subprocess.PIPE,
                stdout=subprocess.PIPE,
                stderr=open(os.path.join(workdir, "server.err"), "w"),
                text=True,
            )
            line = self.proc.stdout.readline()
            if line.strip() != "ready":
                raise RuntimeError(
                    "snapshot worker did not start: %r %s" % (line, open(os.path.join(workdir, "server.err")).read()[-1500:])
                )
            self.reader = threading.Thread(target=self._read, daemon=True)
            self.reader.start()

    def _read(self):
        for line in self.proc.stdout:
            t = line.split()
            if len(t) == 4 and t[0] == "done":
                with self.lock:
                    slot = self.waiting.pop(t[1], None)
                if slot is not None:
                    slot["res"] = (int(t[2]), int(t[3]))
                    slot["ev"].set()
        # server gone: release everybody
        with self.lock:
            slots = list(self.waiting.values())
            self.waiting.clear()
        for slot in slots:
            slot["res"] = None
            slot["ev"].set()

    def _spec_file(self, spec):
        with self.lock:
            self.seq += 1
            k = self.seq
        path = os.path.join(self.workdir, "spec%05d.json" % k)
        spec = dict(spec)
        spec.setdefault("out", os.path.join(self.workdir, "out%05d.json" % k))
        spec.setdefault("log", os.path.join(self.workdir, "log%05d.txt" % k))
        with open(path, "w") as f:
            json.dump(spec, f)
        return k, path, spec

    def run(self, spec):
        """-> dict(code, sig, out (parsed JSON or None), spec)"""
        k, path, spec = self._spec_file(spec)
        if os.path.exists(spec["out"]):
            os.unlink(spec["out"])
        with self.sem:
            if self.nofork:
                r = subprocess.run(
                    [env.PYTHON, "-m", "harness.lib.snap_proc", path],
                    cwd=self.workdir,
                    env=child_env(),
                    stdout=subprocess.DEVNULL,
                    stderr=subprocess.DEVNULL,
                    timeout=300,
                )
                code, sig = (r.returncode, 0) if r.returncode >= 0 else (-1, -r.returncode)
            else:
                slot = {"ev": threading.Event(), "res": None}
                with self.lock:
                    self.waiting[str(k)] = slot
                    self.proc.stdin.write("%d %s\n" % (k, path))
                    self.proc.stdin.flush()
                if not slot["ev"].wait(timeout=300) or slot["res"] is None:
                    raise RuntimeError("snapshot worker lost job %d" % k)
                code, sig = slot["res"]
        out = None
        if os.path.exists(spec["out"]):
            try:
                out = json.load(open(spec["out"]))
            except ValueError:
                out = None
        return {"code": code, "sig": sig, "out": out, "spec": spec}

    def map(self, specs):
        return list(self.ex.map(self.run, specs))

    def close(self):
        if self.proc is not None:
            try:
                self.proc.stdin.close()
            except Exception:
                pass
            try:
                self.proc.wait(timeout=10)
            except Exception:
                self.proc.kill()
        self.ex.shutdown(wait=False)

"""KNOWN_FINDINGS: committed, never written at run time.
   Lines:  known: property=Cxx key=<finding key> <what fails>
           fixed: property=Cxx <commit> <what failed>          (suppresses nothing)"""
import os
import re

from . import env


def load():
    known = {}
    path = os.path.join(env.VERIF, "KNOWN_FINDINGS")
    if not os.path.exists(path):
        return known
    for line in open(path):
        line = line.strip()
        m = re.match(r"known:\s+property=(\S+)\s+key=(\S+)\s+(.*)", line)
        if m:
            known.setdefault(m.group(1), {})[m.group(2)] = m.group(3)
    return known

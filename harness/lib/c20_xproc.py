"""C20: the stream of a file dataset in ANOTHER interpreter (other hash seed): built from the same
constructor arguments, and restored from a pickle made in the checking process.
`python -m harness.lib.c20_xproc <spec.json>` prints `C20X <json>`: {"fresh": [...], "restored": [...]}
(epochs as text, serialised by props/c20.py).  Nothing is judged here."""
import json
import pickle
import sys

from . import env


def main():
    env.setup_impl_path(None)
    spec = json.load(open(sys.argv[1]))
    from ..props import c20

    out = {}
    try:
        out["fresh"] = c20.stream_text(c20.make_dataset(spec["c"]), spec["k"])
    except Exception as e:
        out["fresh"] = "crash " + type(e).__name__
    try:
        with open(spec["pickle"], "rb") as f:
            ds = pickle.load(f)
        out["restored"] = c20.stream_text(ds, spec["k"])
    except Exception as e:
        out["restored"] = "crash " + type(e).__name__
    print("C20X " + json.dumps(out))


if __name__ == "__main__":
    main()

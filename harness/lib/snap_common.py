"""C19 — implementation-side helpers shared by the saving / resuming subprocesses and by the
in-process checks: a tiny trainer configuration, deterministic train states with NON-TRIVIAL
optimiser state, and bit-exact fingerprints of everything `load_state` restores.

Nothing here decides anything about the property: it builds inputs, calls the real code and
serialises what it observes."""
import hashlib
import json
import sys
import types


def install_shims():
    """`tak.alphazero.hooks/__init__` imports `wandb` (absent, used only by the WandB hook) and
    `trainer.TrainingRun` annotates a field with `grpc.aio.Server` at class-definition time (the
    shared grpc stand-in has no such name).  Neither is touched by anything C19 runs."""
    sys.modules.setdefault("wandb", types.ModuleType("wandb"))
    try:
        import grpc

        if not hasattr(grpc, "aio"):
            grpc.aio = types.ModuleType("grpc.aio")
        if not hasattr(grpc.aio, "Server"):
            grpc.aio.Server = type("Server", (), {})
    except ImportError:
        pass


_mods = {}


def _seed():
    """VERIF_SEED varies the tensors of the scripted states (the histories are enumerated)"""
    import os

    try:
        return int(os.environ.get("VERIF_SEED", "0"))
    except ValueError:
        return 0


def mods():
    """import the implementation lazily (torch import ≈ 2 s)"""
    if not _mods:
        install_shims()
        import torch
        import xformer
        from tak.alphazero import config as azconfig
        from tak.alphazero import stats, trainer
        from tak.alphazero.hooks import saving
        from tak.model import encoding, heads

        torch.set_num_threads(1)
        _mods.update(
            torch=torch,
            xformer=xformer,
            azconfig=azconfig,
            stats=stats,
            trainer=trainer,
            saving=saving,
            heads=heads,
            encoding=encoding,
        )
    return types.SimpleNamespace(**_mods)


DTYPES = {"float32": "float32", "float16": "float16", "bfloat16": "bfloat16"}


def model_config(mopts=None):
    """`mopts`: positional_encoding sin|learned|none, head policy|text, n_layer, d_model, d_head,
    n_ctx, autoregressive_mask — every choice `xformer.Config` offers that changes the modules"""
    m = mods()
    o = mopts or {}
    kw = dict(
        n_vocab=256,
        n_layer=int(o.get("n_layer", 1)),
        d_model=int(o.get("d_model", 8)),
        d_head=int(o.get("d_head", 4)),
        n_ctx=int(o.get("n_ctx", 16)),
        positional_encoding=o.get("positional_encoding", "sin"),
        autoregressive_mask=bool(o.get("autoregressive_mask", True)),
    )
    if o.get("head", "policy") == "policy":
        kw["output_head"] = m.heads.PolicyValue
    return m.xformer.Config(**kw)


def make_config(run_dir, opts=None):
    """a tiny `tak.alphazero.Config`; `serve_dtype` is assigned AFTER construction because
    `__attrs_post_init__` forces float32 on cpu"""
    m = mods()
    opts = opts or {}
    cfg = m.azconfig.Config(
        model=model_config(opts.get("model")),
        device="cpu",
        run_dir=run_dir,
        load_model=opts.get("load_model"),
        lr=float(opts.get("lr", 1e-2)),
        replay_buffer_steps=int(opts.get("replay_buffer_steps", 3)),
        train_batch=int(opts.get("train_batch", 4)),
        train_positions=int(opts.get("train_positions", 8)),
        hooks=[],
    )
    if opts.get("train_dtype"):
        cfg.train_dtype = getattr(m.torch, opts["train_dtype"])
    if opts.get("serve_dtype"):
        cfg.serve_dtype = getattr(m.torch, opts["serve_dtype"])
    return cfg


def fresh_run(run_dir, opts=None):
    """what `TrainingRun.run_async` does before `load_or_init_model`"""
    m = mods()
    cfg = make_config(run_dir, opts)
    run = m.trainer.TrainingRun(config=cfg)
    model = m.xformer.Transformer(cfg.model, device=cfg.device)
    run.state = m.trainer.TrainState(model=model, opt=m.torch.optim.AdamW(model.parameters(), lr=cfg.lr))
    return run


def make_batch(seed, n=5, width=6):
    """a rollout batch as `encode_games` produces it (distinct rows, so `dedup_batch` keeps all);
    positions[0, 0] carries `seed % 200` as a marker"""
    m = mods()
    torch = m.torch
    g = torch.Generator().manual_seed(100003 * seed + 17 + 1000003 * _seed())
    pos = torch.randint(0, 200, (n, width), generator=g)
    pos[:, 1] = torch.arange(n)  # rows pairwise distinct
    pos[0, 0] = seed % 200
    return {
        "positions": pos.to(torch.long),
        "mask": torch.ones((n, width), dtype=torch.bool),
        "moves": torch.softmax(torch.randn(n, m.encoding.MAX_MOVE_ID, generator=g), -1),
        "values": torch.rand(n, generator=g) * 2 - 1,
    }


def init_state(run, sid, step):
    """put the run into the deterministic train state called `sid`: initialised weights, TWO
    optimiser steps (so AdamW carries step counts and both moments), a two-batch replay buffer
    and non-zero counters"""
    m = mods()
    torch = m.torch
    torch.manual_seed(7919 * sid + 1 + 1000003 * _seed())
    st = run.state
    st.model.to(run.config.train_dtype)
    # `init_weights` leaves biases and the output head as the constructor drew them, and the
    # constructor ran before the seed was set (a new interpreter seeds its generator at random):
    # draw EVERY parameter under the seed first, so that a state is a function of `sid` alone
    with torch.no_grad():
        for p in st.model.parameters():
            p.normal_(mean=0.0, std=0.05)
    st.model.init_weights()
    st.opt.state.clear()  # also after a resume the state is a function of `sid` alone
    for i in range(2):
        b = make_batch(1000 * sid + i)
        st.opt.zero_grad()
        out = st.model(b["positions"], ~b["mask"])
        if isinstance(out, dict):  # PolicyValue head
            val, mov = out["values"].float(), out["moves"].float()
            loss = ((val - b["values"]) ** 2).mean() - (torch.log_softmax(mov, -1) * b["moves"]).sum(-1).mean()
        else:  # text head: logits
            loss = (out.float() ** 2).mean() + out.float()[:, 0, : b["values"].shape[0]].diagonal().mean()
        loss.backward()
        st.opt.step()
    st.opt.zero_grad()
    st.replay_buffer = [m.trainer.dedup_batch(make_batch(2000 * sid + j, n=3 + j)) for j in range(2)]
    st.elapsed = m.stats.Elapsed()
    st.elapsed.step = int(step)
    st.elapsed.positions = 10 * sid + 3
    st.elapsed.epoch = sid + 1


def _tensor_fp(t):
    m = mods()
    t = t.detach().cpu().contiguous()
    raw = t.reshape(-1).view(m.torch.uint8).numpy().tobytes()
    return hashlib.sha256(("%s|%s|" % (t.dtype, tuple(t.shape))).encode() + raw).hexdigest()[:20]


def _canon(x):
    m = mods()
    if isinstance(x, m.torch.Tensor):
        return {"T": _tensor_fp(x)}
    if isinstance(x, dict):
        return {"D": [[repr(k), _canon(v)] for k, v in sorted(x.items(), key=lambda kv: repr(kv[0]))]}
    if isinstance(x, (list, tuple)):
        return {"L": [_canon(v) for v in x]}
    if isinstance(x, float):
        return {"F": x.hex()}
    if isinstance(x, (int, bool, str)) or x is None:
        return {"V": repr(x)}
    return {"R": repr(x)}


def _digest(obj):
    return hashlib.sha256(json.dumps(obj, sort_keys=True).encode()).hexdigest()[:20]


def fingerprint(state):
    """bit-exact digests of the four things a snapshot must restore"""
    m = mods()
    params = [[k, _tensor_fp(v)] for k, v in state.model.state_dict().items()]
    opt = _canon(state.opt.state_dict())
    replay = _canon(state.replay_buffer)
    el = state.elapsed
    if isinstance(el, m.stats.Elapsed) and all(isinstance(getattr(el, a, None), int) for a in ("step", "positions", "epoch")):
        counters = {"step": el.step, "positions": el.positions, "epoch": el.epoch}
    else:
        try:
            text = repr(el)[:80]
        except Exception as e:  # an Elapsed object built from a truncated file may lack attributes
            text = "<%s without %s>" % (type(el).__name__, e)
        counters = {"INVALID": text, "attrs": repr(sorted(getattr(el, "__dict__", {}).items()))[:120]}
    osd = state.opt.state_dict()["state"]
    opt_steps = sorted({float(v["step"]) for v in osd.values() if "step" in v})
    return {
        "params": _digest(params),
        "param_fps": dict(params),  # every tensor of state_dict (parameters AND buffers)
        "opt": _digest(opt),
        "replay": _digest(replay),
        "counters": _digest(counters),
        "step": counters.get("step"),
        "opt_steps": opt_steps,
        "replay_len": len(state.replay_buffer) if isinstance(state.replay_buffer, list) else -1,
        "param_dtype": str(next(iter(state.model.state_dict().values())).dtype),
    }


def counters_digest(el):
    m = mods()
    if isinstance(el, m.stats.Elapsed) and all(isinstance(getattr(el, a, None), int) for a in ("step", "positions", "epoch")):
        return _digest({"step": el.step, "positions": el.positions, "epoch": el.epoch})
    return None


def file_digests(run_dir):
    """what each snapshot file of the run directory CONTAINS, as the digest `fingerprint` gives
    the corresponding component (None: the file does not load, i.e. it is partial)"""
    import os

    import yaml

    m = mods()
    res = {}
    for name in sorted(os.listdir(run_dir)):
        d = os.path.join(run_dir, name)
        if os.path.islink(d) or not os.path.isdir(d):
            continue
        for f in sorted(os.listdir(d)):
            p = os.path.join(d, f)
            dig = None
            try:
                if f == "model.pt":
                    sd = m.torch.load(p, map_location="cpu")
                    # per tensor, so that the file is recognised by what it holds (every tensor it
                    # stores is bit for bit a tensor of some state), not by which keys it stores
                    dig = {k: _tensor_fp(v) for k, v in sd.items()} if isinstance(sd, dict) and sd else None
                elif f in ("opt.pt", "replay_buffer.pt"):
                    dig = _digest(_canon(m.torch.load(p, map_location="cpu")))
                elif f == "elapsed.yaml":
                    with open(p) as fh:
                        dig = counters_digest(yaml.unsafe_load(fh))
                elif f == "config.yaml":
                    with open(p) as fh:
                        cfg = yaml.unsafe_load(fh)
                    dig = _digest(_canon(sorted(vars(cfg).items()))) if isinstance(cfg, m.xformer.Config) else None
            except BaseException:
                dig = None
            res[name + "/" + f] = dig
    return res


def params_fp(tensors):
    """digest of a dict name -> tensor (order as given)"""
    return _digest([[k, _tensor_fp(v)] for k, v in tensors.items()])


def resume_outcome(run_dir, opts=None):
    """the REAL resume logic on a fresh TrainingRun/TrainState: `load_or_init_model`
    (`opts["load_model"]` sets `config.load_model`).
    Returns run, (kind, detail, base): kind in fresh | loaded | error; `base` = digests of the
    untouched fresh TrainState (what a new optimiser, an empty buffer and zero counters are)"""
    run = fresh_run(run_dir, opts)
    base = fingerprint(run.state)
    seen = {"init": 0}
    orig = run.state.model.init_weights

    def counting_init(*a, **k):
        seen["init"] += 1
        return orig(*a, **k)

    run.state.model.init_weights = counting_init
    try:
        run.load_or_init_model()
    except BaseException as e:  # a loud failure
        return run, ("error", type(e).__name__, base)
    if seen["init"]:
        return run, ("fresh", fingerprint(run.state), base)
    return run, ("loaded", fingerprint(run.state), base)

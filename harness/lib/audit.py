"""Audit of the Lean development: forbidden tokens, axioms of every property theorem."""
import os
import re
import tempfile

from . import build, env

FORBIDDEN = re.compile(
    r"\b(sorry|admit|native_decide|bv_decide|implemented_by|unsafe)\b|^\s*axiom\s|maxHeartbeats\s+0\b",
    re.M,
)
ALLOWED_AXIOMS = {"propext", "Classical.choice", "Quot.sound"}


def strip_comments(src):
    out = []
    i, n, depth = 0, len(src), 0
    while i < n:
        if src.startswith("/-", i):
            depth += 1
            i += 2
        elif depth and src.startswith("-/", i):
            depth -= 1
            i += 2
        elif depth:
            if src[i] == "\n":
                out.append("\n")
            i += 1
        elif src.startswith("--", i):
            while i < n and src[i] != "\n":
                i += 1
        elif src[i] == '"':
            j = i + 1
            while j < n and src[j] != '"':
                j += 2 if src[j] == "\\" else 1
            out.append('""')
            i = j + 1
        else:
            out.append(src[i])
            i += 1
    return "".join(out)


def grep_forbidden():
    hits = []
    root = os.path.join(env.LEAN_DIR)
    for dp, dn, fn in os.walk(root):
        if ".lake" in dp:
            continue
        for f in fn:
            if not f.endswith(".lean"):
                continue
            path = os.path.join(dp, f)
            src = strip_comments(open(path).read())
            for m in FORBIDDEN.finditer(src):
                line = src.count("\n", 0, m.start()) + 1
                hits.append("%s:%d: %s" % (os.path.relpath(path, env.VERIF), line, m.group(0).strip()))
    return hits


AXIOM_PROG = """import Lean
import {module}
open Lean Elab Command in
run_cmd do
  let env ← getEnv
  let some idx := env.getModuleIdx? `{module} | throwError "module not found"
  let mut names : Array Name := #[]
  for (n, ci) in env.constants.map₁.toList do
    if env.getModuleIdxFor? n == some idx then
      match ci with
      | .thmInfo _ => if !n.isInternal then names := names.push n
      | _ => pure ()
  for n in names.qsort (fun a b => a.toString < b.toString) do
    let axs ← liftCoreM (collectAxioms n)
    logInfo m!"THEOREM {{n}} AXIOMS {{axs.toList}}"
"""


def theorem_axioms(module):
    """Returns (ok, {theorem: [axioms]}, raw output) for every theorem declared in `module`."""
    d = os.path.join(env.CACHE, "audit")
    os.makedirs(d, exist_ok=True)
    path = os.path.join(d, "Audit_%s_%d.lean" % (module.replace(".", "_"), os.getpid()))
    open(path, "w").write(AXIOM_PROG.format(module=module))
    try:
        ok, out = build.lake_env_lean(path)
    finally:
        try:
            os.unlink(path)
        except OSError:
            pass
    res = {}
    for m in re.finditer(r"THEOREM (\S+) AXIOMS \[(.*?)\]", out, re.S):
        axs = [a.strip() for a in m.group(2).replace("\n", " ").split(",") if a.strip()]
        res[m.group(1)] = axs
    return ok, res, out

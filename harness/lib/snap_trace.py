"""C19 — reading what the saving process DID: parse an `strace -f -y` log, keep the system calls
that changed the run directory, and abstract them to the operation alphabet of the Lean model
(`mkdir:` `create:` `finish:` `unlinkin:` `rmdir:` `rename:` `unlink:` `symlink:`).

Only successful calls are kept (a failing call — `mkdir` EEXIST of the second `makedirs`,
`unlink` ENOENT — changes nothing).  A file's `create` is its `open(O_CREAT|O_TRUNC)`, its
`finish` is the LAST write before `close`; earlier writes are crash points with no operation of
their own (the file stays partial)."""
import os
import re

LINE = re.compile(r"^(\d+)\s+(\w+)\((.*)\)\s+=\s+(-?\d+|\?)(.*)$")
UNFIN = re.compile(r"^(\d+)\s+(\w+)\((.*) <unfinished \.\.\.>$")
RESUMED = re.compile(r"^(\d+)\s+<\.\.\. (\w+) resumed>(.*)$")
STR = re.compile(r'"((?:[^"\\]|\\.)*)"')
FD = re.compile(r"(?:(\d+)|AT_FDCWD)<([^>]*)>")
WRITE_CALLS = ("write", "writev", "pwrite64", "pwritev")


class Sys:
    def __init__(self, line_no, pid, name, args, ret, tail):
        self.line_no = line_no
        self.pid = pid
        self.name = name
        self.args = args
        self.killed = ret == "?"
        self.ok = (not self.killed) and int(ret) >= 0
        self.ordinal = None  # 1-based position among this pid's calls of the same name
        self.paths = []  # absolute paths the call is about
        self.flags = ""
        self.tail = tail

    def __repr__(self):
        return "%s(%s)%s" % (self.name, ",".join(self.paths), "" if self.ok else ("?" if self.killed else "!"))


def _join(base, p):
    if p.startswith("/"):
        return os.path.normpath(p)
    return os.path.normpath(os.path.join(base, p))


def parse(text):
    """all traced system calls in log order, `+++ killed` noted on the last one"""
    pending = {}
    out = []
    counters = {}
    for ln, raw in enumerate(text.split("\n")):
        raw = raw.rstrip()
        m = UNFIN.match(raw)
        if m:
            pending[m.group(1)] = (m.group(2), m.group(3))
            continue
        m = RESUMED.match(raw)
        if m and m.group(1) in pending:
            name, a0 = pending.pop(m.group(1))
            raw = "%s %s(%s%s" % (m.group(1), name, a0, m.group(3).lstrip())
        m = LINE.match(raw)
        if not m:
            continue
        pid, name, args, ret, tail = m.groups()
        s = Sys(ln, pid, name, args, ret, tail)
        key = (pid, name)
        counters[key] = counters.get(key, 0) + 1
        s.ordinal = counters[key]
        strs = [x.encode().decode("unicode_escape") for x in STR.findall(args)]
        fds = FD.findall(args)
        cwd = next((p for (n, p) in fds if n == ""), "/")
        if name in ("mkdir", "rmdir", "unlink", "creat", "open", "truncate"):
            s.paths = [_join(cwd, strs[0])] if strs else []
        elif name in ("mkdirat", "unlinkat", "openat"):
            base = fds[0][1] if fds else cwd
            s.paths = [_join(base, strs[0])] if strs else []
            s.flags = args
        elif name == "rename":
            s.paths = [_join(cwd, x) for x in strs[:2]]
        elif name in ("renameat", "renameat2"):
            bases = [p for (_, p) in fds][:2] + [cwd, cwd]
            s.paths = [_join(bases[0], strs[0]), _join(bases[1], strs[1])] if len(strs) >= 2 else []
        elif name in ("link", "linkat"):
            s.paths = [_join(cwd, x) for x in strs[:2]]
        elif name == "symlink":
            s.paths = [strs[0], _join(cwd, strs[1])] if len(strs) >= 2 else []
        elif name == "symlinkat":
            base = fds[0][1] if fds else cwd
            s.paths = [strs[0], _join(base, strs[1])] if len(strs) >= 2 else []
        elif name in WRITE_CALLS + ("close", "ftruncate"):
            s.paths = [fds[0][1]] if fds and fds[0][0] != "" else []
        if name in ("open", "creat"):
            s.flags = args
        out.append(s)
    return out


class Step:
    """one system call that changed the run directory"""

    def __init__(self, sys, op, inflight):
        self.sys = sys
        self.op = op  # abstract operation, or None for a non-final write
        self.inflight = inflight  # "dir/file" being written when the process is killed BEFORE this call


def _rel(run_dir, p):
    run_dir = os.path.normpath(run_dir)
    p = os.path.normpath(p)
    if p == run_dir:
        return ""
    if p.startswith(run_dir + "/"):
        return p[len(run_dir) + 1 :]
    return None


def effective(calls, run_dir):
    """-> list[Step]: the successful calls on `run_dir`, in order (stops at a killed call)"""
    # last write of each open..close span
    last_write = {}
    open_span = {}
    for i, s in enumerate(calls):
        if not s.ok:
            continue
        if s.name in ("openat", "open", "creat") and s.paths and _rel(run_dir, s.paths[0]):
            if re.search(r"O_WRONLY|O_RDWR|O_CREAT|O_TRUNC", s.flags) or s.name == "creat":
                open_span[s.paths[0]] = i
        elif s.name in WRITE_CALLS and s.paths and s.paths[0] in open_span:
            last_write[open_span[s.paths[0]]] = i
        elif s.name == "close" and s.paths and s.paths[0] in open_span:
            open_span.pop(s.paths[0])
    finals = set(last_write.values())
    steps = []
    inflight = None
    for i, s in enumerate(calls):
        if s.killed:
            break
        if not s.ok or not s.paths:
            continue
        rels = [_rel(run_dir, p) for p in s.paths]
        op = None
        keep = False
        if s.name in ("mkdir", "mkdirat"):
            if rels[0]:
                op, keep = "mkdir:" + rels[0], True
        elif s.name in ("openat", "open", "creat"):
            if rels[0] and (re.search(r"O_WRONLY|O_RDWR|O_CREAT|O_TRUNC", s.flags) or s.name == "creat"):
                op, keep = "create:" + rels[0], True
        elif s.name in WRITE_CALLS:
            if rels[0]:
                keep = True
                op = ("finish:" + rels[0]) if i in finals else None
        elif s.name == "rmdir":
            if rels[0]:
                op, keep = "rmdir:" + rels[0], True
        elif s.name == "unlinkat":
            if rels[0]:
                keep = True
                if "AT_REMOVEDIR" in s.flags:
                    op = "rmdir:" + rels[0]
                else:
                    op = ("unlinkin:" if "/" in rels[0] else "unlink:") + rels[0]
        elif s.name == "unlink":
            if rels[0]:
                op, keep = ("unlinkin:" if "/" in rels[0] else "unlink:") + rels[0], True
        elif s.name in ("rename", "renameat", "renameat2"):
            if len(rels) == 2 and (rels[0] or rels[1]):
                op, keep = "rename:%s:%s" % (rels[0], rels[1]), True
        elif s.name in ("symlink", "symlinkat"):
            if len(rels) == 2 and rels[1]:
                op, keep = "symlink:%s:%s" % (s.paths[0], rels[1]), True
        elif s.name in ("link", "linkat", "truncate", "ftruncate"):
            if any(rels):
                op, keep = "%s:%s" % (s.name, ":".join(r or "?" for r in rels)), True
        if not keep:
            continue
        steps.append(Step(s, op, inflight))
        if op and op.startswith("create:"):
            inflight = op[len("create:") :]
        elif op and op.startswith("finish:"):
            inflight = None
    return steps


def abstract_ops(steps):
    return [st.op for st in steps if st.op]


def model_index(steps, j):
    """number of abstract operations completed when the process is killed before step j"""
    return sum(1 for st in steps[:j] if st.op)


# ---------------------------------------------------------------------------------------------
# the run directory as the model prints it


def fs_text(run_dir, tag_of):
    """canonical text of the run directory; `tag_of("dir/file")` names the content of a file
    (`p` when it is partial)"""
    items = []
    for name in sorted(os.listdir(run_dir)):
        p = os.path.join(run_dir, name)
        if os.path.islink(p):
            items.append("%s->%s" % (name, os.readlink(p)))
        elif os.path.isdir(p):
            fs = []
            for f in sorted(os.listdir(p)):
                fp = os.path.join(p, f)
                if os.path.isfile(fp) and not os.path.islink(fp):
                    fs.append("%s=%s" % (f, tag_of(name + "/" + f)))
                else:
                    fs.append("%s=?" % f)
            items.append("%s{%s}" % (name, ",".join(fs)))
        else:
            items.append(name)
    return ";".join(items) if items else "-"


def canon_model_fs(text):
    """sort the model's listing the same way"""
    if text == "-":
        return "-"
    items = []
    for it in text.split(";"):
        if "{" in it:
            name, rest = it.split("{", 1)
            fs = sorted(x for x in rest.rstrip("}").split(",") if x)
            items.append("%s{%s}" % (name, ",".join(fs)))
        else:
            items.append(it)

    def key(it):
        return re.split(r"->|\{", it)[0]

    return ";".join(sorted(items, key=key))

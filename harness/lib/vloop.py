"""A virtual-time asyncio event loop (CPython 3.12).

Runs unmodified asyncio code deterministically and instantly:

* `time()` is a counter, not a clock;
* when nothing is ready, the clock jumps to the next pending timer (cancelled timers at the head
  of the heap are discarded first, exactly as `BaseEventLoop._run_once` would do lazily);
* when nothing is ready and no timer is pending, the loop is *idle* — real time could pass
  forever without anything happening — so it stops itself and sets `idle = True`;
* `run_in_executor(executor, func, *args)` does not use a thread: `func(*args)` is evaluated at
  the call and its result (or exception) is delivered `latency(n)` virtual seconds later, `n`
  being the index of the call.  `on_executor_done(n)` is invoked right before delivery.

No threads, no real sleeping; a run is a pure function of the scheduled callbacks.
"""
import asyncio
import heapq


class VirtualTimeLoop(asyncio.SelectorEventLoop):
    def __init__(self, latency=None):
        super().__init__()
        self._vtime = 0.0
        self.idle = False
        self.latency = latency if latency is not None else (lambda n: 0.0)
        self.executor_calls = 0
        self.in_executor_call = False
        self.on_executor_done = None
        self.iterations = 0

    # -- clock ---------------------------------------------------------------------------
    def time(self):
        return self._vtime

    def _run_once(self):
        self.iterations += 1
        if not self._ready and not self._stopping:
            while self._scheduled and self._scheduled[0]._cancelled:
                self._timer_cancelled_count -= 1
                handle = heapq.heappop(self._scheduled)
                handle._scheduled = False
            if self._scheduled:
                when = self._scheduled[0]._when
                if when > self._vtime:
                    self._vtime = when
            else:
                self.idle = True
                self.stop()
        super()._run_once()

    # -- executor ------------------------------------------------------------------------
    def run_in_executor(self, executor, func, *args):
        self._check_closed()
        fut = self.create_future()
        n = self.executor_calls
        self.executor_calls += 1
        result = exc = None
        self.in_executor_call = True
        try:
            result = func(*args)
        except Exception as e:  # delivered through the future, like a real executor
            exc = e
        finally:
            self.in_executor_call = False
        delay = max(0.0, float(self.latency(n)))

        def deliver():
            if self.on_executor_done is not None:
                self.on_executor_done(n)
            if fut.cancelled():
                return
            if exc is not None:
                fut.set_exception(exc)
            else:
                fut.set_result(result)

        self.call_later(delay, deliver)
        return fut

    # -- running -------------------------------------------------------------------------
    def run_until_idle(self):
        """Run until nothing can happen any more (or `stop()` is called).  Returns `idle`."""
        self.idle = False
        self.run_forever()
        return self.idle

    def run_coro(self, coro):
        """Like `run_until_complete`, but returns (done, result): done is False when the loop went
        idle before the coroutine finished (the coroutine is left pending)."""
        self.idle = False
        task = self.create_task(coro)
        task.add_done_callback(lambda t: self.stop())
        self.run_forever()
        if task.done():
            return True, task.result()
        return False, None

"""Building the Lean development, the native driver and (when needed) tak_ext."""
import fcntl
import hashlib
import os
import shutil
import subprocess
import sys
import time

from . import env


class Lock:
    def __init__(self, name):
        os.makedirs(env.CACHE, exist_ok=True)
        self.path = os.path.join(env.CACHE, name + ".lock")

    def __enter__(self):
        self.f = open(self.path, "w")
        fcntl.flock(self.f, fcntl.LOCK_EX)
        return self

    def __exit__(self, *a):
        fcntl.flock(self.f, fcntl.LOCK_UN)
        self.f.close()


def lake_build(targets, timeout=3000):
    """Returns (ok, output).  Serialised by a lock so several checks may run at once."""
    with Lock("lake"):
        t0 = time.time()
        r = subprocess.run(
            ["lake", "build"] + list(targets),
            cwd=env.LEAN_DIR,
            stdout=subprocess.PIPE,
            stderr=subprocess.STDOUT,
            text=True,
            timeout=timeout,
        )
        return r.returncode == 0, r.stdout, time.time() - t0


def lake_env_lean(path, timeout=3000):
    r = subprocess.run(
        ["lake", "env", "lean", path],
        cwd=env.LEAN_DIR,
        stdout=subprocess.PIPE,
        stderr=subprocess.STDOUT,
        text=True,
        timeout=timeout,
    )
    return r.returncode == 0, r.stdout


def leanchecker(modules, timeout=3000):
    with Lock("lake"):
        r = subprocess.run(
            ["lake", "env", "leanchecker"] + list(modules),
            cwd=env.LEAN_DIR,
            stdout=subprocess.PIPE,
            stderr=subprocess.STDOUT,
            text=True,
            timeout=timeout,
        )
    return r.returncode == 0, r.stdout


EXT_SETUP = r"""
import sys, os
from setuptools import setup
from torch.utils.cpp_extension import CppExtension, BuildExtension
src = sys.argv.pop(1)
setup(name="tak_ext",
      ext_modules=[CppExtension("tak_ext", [src], extra_compile_args=["-O2"])],
      cmdclass={"build_ext": BuildExtension.with_options(use_ninja=False)},
      script_args=["build_ext", "--inplace"])
"""


def build_ext():
    """Build tak_ext from the CURRENT /repo/python/ext/tak.cpp; cached by content hash.
    Returns (dir or None, log)."""
    src = os.path.join(env.REPO_PY, "ext", "tak.cpp")
    data = open(src, "rb").read()
    import torch

    h = hashlib.sha256(data + torch.__version__.encode()).hexdigest()[:16]
    d = os.path.join(env.CACHE, "ext", h)
    with Lock("ext"):
        if os.path.isdir(d) and any(f.startswith("tak_ext") and f.endswith(".so") for f in os.listdir(d)):
            return d, "cached"
        tmp = d + ".build"
        shutil.rmtree(tmp, ignore_errors=True)
        os.makedirs(tmp)
        shutil.copy(src, os.path.join(tmp, "tak.cpp"))
        open(os.path.join(tmp, "setup_ext.py"), "w").write(EXT_SETUP)
        e = dict(os.environ)
        e.pop("PYTHONPATH", None)
        r = subprocess.run(
            [env.PYTHON, "setup_ext.py", "tak.cpp"],
            cwd=tmp,
            stdout=subprocess.PIPE,
            stderr=subprocess.STDOUT,
            text=True,
            env=e,
        )
        if r.returncode != 0:
            return None, r.stdout[-4000:]
        os.makedirs(d, exist_ok=True)
        for f in os.listdir(tmp):
            if f.startswith("tak_ext") and f.endswith(".so"):
                shutil.copy(os.path.join(tmp, f), os.path.join(d, f))
        shutil.rmtree(tmp, ignore_errors=True)
        return d, r.stdout[-1000:]

"""C18: engine factories for the spawned self-play workers, and scenario helpers.

The factories themselves must be importable TOP-LEVEL in the spawned children (they are pickled into
`SelfPlayConfig.engine_factory`), and the children only have harness/bootstrap, the tak_ext directory and
/repo/python on PYTHONPATH — so the code lives in `harness/bootstrap/takverif_factories.py`; this module
re-exports it for harness code and holds the scenario helpers shared by props/c18.py.
"""
import json
import os
import sys

from . import env

if env.BOOTSTRAP not in sys.path:
    sys.path.insert(0, env.BOOTSTRAP)

from takverif_factories import ScriptedEngine, ScriptedFactory, ScriptedFaultError, Tag  # noqa: E402,F401


def canon(scn):
    """canonical text of a scenario (the replay format)"""
    d = {"W": scn["W"], "requests": list(scn["requests"]), "faults": list(scn.get("faults", []))}
    if scn.get("slow"):
        d["slow"] = scn["slow"]
    if scn.get("api", "play_many") != "play_many":
        d["api"] = scn["api"]
    for k in ("nofile", "ply_limit"):
        if scn.get(k) is not None:
            d[k] = scn[k]
    if scn.get("pause"):
        d["pause"] = scn["pause"]
        d["compress"] = scn.get("compress", 1)
    return json.dumps(d, sort_keys=True)


def scenario_sort_key(scn):
    """smaller scenarios first: the minimal failing one is what gets reported"""
    return (len(scn.get("faults", [])), scn["W"], len(scn["requests"]), sum(scn["requests"]), canon(scn))

"""Shared generators of positions and moves (all randomness from the rng passed in).

The enumeration of the well-formed move universe and of the ill-formed stream below is
the harness's own (it does not read the implementation's tables)."""
import itertools


def impl():
    import tak

    return tak


# ---------------------------------------------------------------- moves

_SLIDES = {}


def slides(n):
    """all non-empty sequences of positive ints with sum <= n"""
    if n in _SLIDES:
        return _SLIDES[n]
    out = []

    def rec(prefix, left):
        for d in range(1, left + 1):
            s = prefix + (d,)
            out.append(s)
            rec(s, left - d)

    rec((), n)
    _SLIDES[n] = out
    return out


def wellformed_moves(size):
    """every well-formed move of a board size: 3 placements per square, every slide that
    stays on the board with total <= size"""
    tak = impl()
    MT = tak.MoveType
    out = []
    for x in range(size):
        for y in range(size):
            out.append(tak.Move(x, y, MT.PLACE_FLAT))
            out.append(tak.Move(x, y, MT.PLACE_STANDING))
            out.append(tak.Move(x, y, MT.PLACE_CAPSTONE))
            for t, room in ((MT.SLIDE_LEFT, x), (MT.SLIDE_RIGHT, size - 1 - x), (MT.SLIDE_DOWN, y), (MT.SLIDE_UP, size - 1 - y)):
                for s in slides(size):
                    if len(s) <= room:
                        out.append(tak.Move(x, y, t, s))
    return out


def offboard_moves(size):
    """every slide with total <= size that leaves the board (one drop more than there are squares,
    or several) - refused by the rules whatever the stacks look like"""
    tak = impl()
    MT = tak.MoveType
    out = []
    for x in range(size):
        for y in range(size):
            for t, room in ((MT.SLIDE_LEFT, x), (MT.SLIDE_RIGHT, size - 1 - x), (MT.SLIDE_DOWN, y), (MT.SLIDE_UP, size - 1 - y)):
                for s in slides(size):
                    if len(s) > room:
                        out.append(tak.Move(x, y, t, s))
    return out


def illformed_moves(rng, size, n, pos=None):
    """a stream of moves outside (and at the edge of) the well-formed universe:
    off-board squares, None / empty / zero / negative / too long / too large drop tuples,
    placements carrying drops, slides running off the board"""
    tak = impl()
    MT = list(tak.MoveType)
    coords = list(range(-size - 1, 2 * size + 1))
    out = []
    occupied = []
    if pos is not None:
        occupied = [(i % size, i // size) for i, sq in enumerate(pos.board) if sq]
    for _ in range(n):
        r = rng.random()
        if r < 0.35 and occupied:
            x, y = rng.choice(occupied)
        elif r < 0.6:
            x, y = rng.randrange(size), rng.randrange(size)
        else:
            x, y = rng.choice(coords), rng.choice(coords)
        t = rng.choice(MT)
        k = rng.random()
        if k < 0.08:
            s = None
        elif k < 0.14:
            s = ()
        elif k < 0.24:
            # drop counts far beyond any board: around powers of two, machine-word boundaries
            ln = rng.choice([1, 1, 2, 3])
            s = tuple(rng.choice(BIG_DROPS + [0, 1, 1]) for _ in range(ln))
        else:
            ln = rng.choice([1, 1, 2, 2, 3, size, size + 1])
            s = tuple(rng.choice([-2, -1, 0, 0, 1, 1, 1, 2, 2, 3, size, size + 1]) for _ in range(ln))
        out.append(tak.Move(x, y, t, s))
    return out


BIG_DROPS = [9, 15, 16, 17, 18, 31, 32, 33, 63, 64, 65, 255, 256, 257, 2**16 + 1, 2**31 - 1, 2**31, 2**32 + 1, 2**63, 2**64 + 1, -(2**31), -17]


def tower_position(rng, size, height=None):
    """a well-formed board with one very tall stack (taller than 16, than 32: real games pile up
    captured stones well beyond the carry limit) topped by the mover's piece, and room around it"""
    tak = impl()
    from tak import pieces

    ply = rng.choice([4, 5, 10, 11])
    me = pieces.Color.WHITE if ply % 2 == 0 else pieces.Color.BLACK
    h = height or rng.choice([17, 18, 20, 33, 40])
    board = [[] for _ in range(size * size)]
    x, y = rng.randrange(size), rng.randrange(size)
    st = [pieces.Piece.cached(me, rng.choice([pieces.Kind.FLAT, pieces.Kind.FLAT, pieces.Kind.CAPSTONE]))]
    st += [pieces.Piece.cached(pieces.Color(rng.randrange(2)), pieces.Kind.FLAT) for _ in range(h - 1)]
    board[x + y * size] = st
    for _ in range(rng.randrange(0, size)):
        i = rng.randrange(size * size)
        if not board[i]:
            board[i] = [pieces.Piece.cached(pieces.Color(rng.randrange(2)), rng.choice([pieces.Kind.FLAT, pieces.Kind.STANDING]))]
    return tak.Position(size=size, stones=(tak.StoneCounts(5, 1), tak.StoneCounts(5, 1)), ply=ply, board=board), (x, y)


def illformed_moves_exhaustive(size, coords=None, maxlen=2):
    """bounded exhaustive enumeration of the ill-formed neighbourhood"""
    tak = impl()
    MT = list(tak.MoveType)
    if coords is None:
        coords = [-size - 1, -size, -1, 0, 1, size - 1, size, size + 1]
    vals = [-1, 0, 1, 2, size, size + 1]
    tuples = [None, ()]
    for ln in range(1, maxlen + 1):
        tuples += list(itertools.product(vals, repeat=ln))
    for x in coords:
        for y in coords:
            for t in MT:
                for s in tuples:
                    yield tak.Move(x, y, t, s)


# ---------------------------------------------------------------- positions

STD_PIECES = {3: 10, 4: 15, 5: 21, 6: 30, 7: 40, 8: 50}
STD_CAPS = {3: 0, 4: 0, 5: 1, 6: 1, 7: 1, 8: 2}


def random_config(rng, size, custom_prob=0.3, max_pieces=None):
    tak = impl()
    if rng.random() < custom_prob:
        hi = max_pieces if max_pieces is not None else 2 * STD_PIECES[size]
        pieces = rng.choice([1, 2, 3, size, rng.randrange(1, hi + 1)])
        caps = rng.choice([0, 1, 2, 3])
        return tak.Config(size=size, pieces=min(pieces, hi), capstones=caps)
    return tak.Config(size=size)


POLICIES = ["uniform", "stacky", "wally", "roady", "drain", "fill"]


def _weight(policy, pos, m, tak):
    MT = tak.MoveType
    if policy == "uniform":
        return 1.0
    if policy == "stacky":
        if m.type.is_slide():
            return 4.0 + sum(m.slides)
        return 1.0
    if policy == "wally":
        if m.type in (MT.PLACE_STANDING, MT.PLACE_CAPSTONE):
            return 5.0
        if m.type.is_slide():
            return 2.0
        return 1.0
    if policy == "roady":
        if m.type == MT.PLACE_FLAT:
            # prefer own row/column extension: rows for white, columns for black
            return 6.0 if (m.y == pos.size // 2 if pos.ply % 2 == 0 else m.x == pos.size // 2) else 2.0
        return 0.7
    if policy == "drain":
        return 0.2 if m.type.is_slide() else 3.0
    if policy == "fill":
        return 0.05 if m.type.is_slide() else (3.0 if m.type == MT.PLACE_FLAT else 1.5)
    return 1.0


def play_random_game(rng, cfg, policy="uniform", max_plies=200, stop_on_win=True, keep_moves=False):
    """random legal play using the implementation itself to reach positions.
    Returns the list of positions (and moves when keep_moves)."""
    tak = impl()
    pos = tak.Position.from_config(cfg)
    out = [pos]
    mvs = []
    for _ in range(max_plies):
        if stop_on_win:
            try:
                w = pos.winner()
            except Exception:
                w = (None, None)
            if w[1] is not None:
                break
        cands = pos.all_moves()
        if not cands:
            break
        weights = [_weight(policy, pos, m, tak) for m in cands]
        nxt = None
        for _try in range(60):
            m = rng.choices(cands, weights)[0]
            try:
                nxt = pos.move(m)
                break
            except tak.IllegalMove:
                continue
            except Exception:
                continue
        if nxt is None:
            break
        pos = nxt
        out.append(pos)
        mvs.append(m)
    if keep_moves:
        return out, mvs
    return out


def constructed_position(rng, size, tops_only=True, max_height=None, fill=None, ply=None, derive_reserves=True):
    """an arbitrary well-formed board: random stacks (height up to 2*size, any colour mix,
    random top kind)"""
    tak = impl()
    from tak import pieces

    if max_height is None:
        max_height = 2 * size
    if fill is None:
        fill = rng.random()
    board = []
    for _ in range(size * size):
        if rng.random() >= fill:
            board.append([])
            continue
        h = 1 if rng.random() < 0.5 else rng.randrange(1, max_height + 1)
        st = []
        for j in range(h):
            col = pieces.Color(rng.randrange(2))
            if j == 0 or not tops_only:
                kind = pieces.Kind(rng.choice([0, 0, 0, 1, 2])) if j == 0 else pieces.Kind(rng.choice([0, 0, 0, 0, 1, 2]))
            else:
                kind = pieces.Kind.FLAT
            st.append(pieces.Piece.cached(col, kind))
        board.append(st)
    if ply is None:
        ply = rng.choice([0, 1, 2, 3, 4, 5, 10, 11, rng.randrange(2, 100)])
    if derive_reserves:
        # reserves large enough to be non-negative for most boards, sometimes tiny
        cfg = tak.Config(size=size, pieces=rng.choice([STD_PIECES[size], 4 * size * size, 5]), capstones=rng.choice([STD_CAPS[size], 1, 2, size * size]))
        return tak.Position.from_squares(cfg, board, ply)
    return tak.Position(
        size=size,
        stones=(
            tak.StoneCounts(rng.randrange(0, 5), rng.randrange(0, 2)),
            tak.StoneCounts(rng.randrange(0, 5), rng.randrange(0, 2)),
        ),
        ply=ply,
        board=board,
    )


def sample_positions(rng, sizes, n_games_per_size, per_game=6, constructed_per_size=6, custom_prob=0.3, max_plies=None):
    """a mixed bag of reachable and constructed positions, with a label per position"""
    out = []
    for size in sizes:
        for g in range(n_games_per_size):
            policy = POLICIES[g % len(POLICIES)]
            cfg = random_config(rng, size, custom_prob)
            game = play_random_game(rng, cfg, policy, max_plies=max_plies or (8 * size * size))
            picks = set([0, min(1, len(game) - 1), min(2, len(game) - 1), len(game) - 1])
            while len(picks) < min(per_game, len(game)):
                picks.add(rng.randrange(len(game)))
            for i in sorted(picks):
                out.append(("reach:%s" % policy, game[i]))
        for c in range(constructed_per_size):
            tops = c % 3 != 2
            out.append(("constructed" if tops else "constructed:notops", constructed_position(rng, size, tops_only=tops, derive_reserves=(c % 2 == 0))))
    return out

"""Search-tree runs for C08/C09: harness evaluators, oracle recording, tree dumps.

Nothing here knows what a correct tree looks like: this module generates cases, runs the real
`tak.mcts.MCTS`, records what the sampler / evaluator / Dirichlet / native solver did (by wrapping
them from outside), serialises trees in the text format of lean/TakVerif/Driver/Tree.lean, parses
that format back, and diffs two parsed trees.  Every judgement is made by the Lean driver.
"""
import random
import sys
from fractions import Fraction

from . import ser

sys.setrecursionlimit(max(sys.getrecursionlimit(), 20000))

# ------------------------------------------------------------------ numbers

_RAT_CACHE = {}


def rat(x):
    """exact text of an int / float / Fraction (floats are dyadic rationals)"""
    if isinstance(x, Fraction):
        return str(x.numerator) if x.denominator == 1 else "%d/%d" % (x.numerator, x.denominator)
    if isinstance(x, bool):
        x = int(x)
    if isinstance(x, int):
        return str(x)
    x = float(x)
    t = _RAT_CACHE.get(x)
    if t is None:
        if x != x or x in (float("inf"), float("-inf")):
            raise NonFinite(x)
        n, d = x.as_integer_ratio()
        t = str(n) if d == 1 else "%d/%d" % (n, d)
        if len(_RAT_CACHE) < 200000:
            _RAT_CACHE[x] = t
    return t


class NonFinite(Exception):
    pass


_PARSE_CACHE = {}


def parse_rat(s):
    r = _PARSE_CACHE.get(s)
    if r is None:
        if "/" in s:
            n, d = s.split("/")
            r = Fraction(int(n), int(d))
        else:
            r = Fraction(int(s))
        if len(_PARSE_CACHE) < 500000:
            _PARSE_CACHE[s] = r
    return r


def vec(xs):
    """`<ntok> tok*` with runs of equal values compressed as `c*v`"""
    toks = []
    i, n = 0, len(xs)
    while i < n:
        j = i + 1
        v = xs[i]
        while j < n and xs[j] == v:
            j += 1
        toks.append(rat(v) if j - i == 1 else "%d*%s" % (j - i, rat(v)))
        i = j
    return "%d%s" % (len(toks), "".join(" " + t for t in toks))


def tensor_list(t):
    """python floats (exact images of the float32/float64 entries)"""
    return [] if t is None else t.detach().cpu().reshape(-1).tolist()


# ------------------------------------------------------------------ tree text

def answer_text(a):
    s = "%s %s" % (rat(a["value"]), vec(a["probs"]))
    if a.get("noise") is None:
        return s + " -"
    return s + " n " + vec(a["noise"])


def fresh_text(pos):
    return "%s - 0 0 0 0 - -" % ser.pos_str(pos)


class NodeUnreadable(Exception):
    """reading a field of a node of the implementation's tree raised (e.g. a lazily built child
    position whose move the rules refuse): an implementation surprise, reported as a finding"""

    def __init__(self, path, parent_pos, move, exc):
        self.path, self.parent_pos, self.move, self.exc = path, parent_pos, move, exc
        Exception.__init__(self, "node %s (move [%s] from [%s]): reading its position raised %s: %s" % (
            "/".join(map(str, path)) or "root", move, parent_pos, type(exc).__name__, str(exc)[:120]))


def dump_tree(tree, ev_of):
    """text of an implementation tree; `ev_of(node)` gives the recorded answer (dict) or None"""
    out = []

    def rec(node, path=(), parent=None):
        try:
            pos_text = ser.pos_str(node.position)
        except NonFinite:
            raise
        except Exception as e:
            mv = None
            try:
                mv = ser.move_str(node.move)
            except Exception:
                pass
            raise NodeUnreadable(path, parent, mv, e)
        out.append(pos_text)
        if node.move is None:
            out.append("-")
        else:
            out.append("m " + ser.move_str(node.move))
        out.append(rat(node.v_zero))
        out.append(rat(node.value))
        out.append(str(int(node.simulations)))
        out.append(vec(tensor_list(node.child_probs)))
        a = ev_of(node)
        if a is None:
            out.append("-")
        else:
            out.append("e " + answer_text(a))
        if node.children is None:
            out.append("-")
        else:
            out.append(str(len(node.children)))
            for i, c in enumerate(node.children):
                rec(c, path + (i,), pos_text)

    rec(tree)
    return " ".join(out)


def _parse_vec(toks, i):
    n = int(toks[i])
    i += 1
    out = []
    for t in toks[i : i + n]:
        if "*" in t:
            c, v = t.split("*")
            out.extend([parse_rat(v)] * int(c))
        else:
            out.append(parse_rat(t))
    return out, i + n


def _parse_answer(toks, i):
    value = parse_rat(toks[i])
    probs, i = _parse_vec(toks, i + 1)
    if toks[i] == "-":
        return {"value": value, "probs": probs, "noise": None}, i + 1
    assert toks[i] == "n"
    nz, i = _parse_vec(toks, i + 1)
    return {"value": value, "probs": probs, "noise": nz}, i


def _skip_answer(toks, i):
    i += 1
    i += 1 + int(toks[i])
    if toks[i] == "-":
        return i + 1
    i += 1
    return i + 1 + int(toks[i])


def parse_tree(text, with_ev=False):
    """nested dicts with Fractions; inverse of dump_tree / the driver's printer (the recorded
    evaluations are skipped unless asked for: nothing on the Python side looks at them)"""
    toks = text.split(" ")

    def rec(i):
        node = {"pos": " ".join(toks[i : i + 7])}
        i += 7
        if toks[i] == "-":
            node["move"] = None
            i += 1
        else:
            assert toks[i] == "m"
            node["move"] = " ".join(toks[i + 1 : i + 5])
            i += 5
        node["v0"] = parse_rat(toks[i])
        node["value"] = parse_rat(toks[i + 1])
        node["sims"] = int(toks[i + 2])
        node["priors"], i = _parse_vec(toks, i + 3)
        if toks[i] == "-":
            node["ev"] = None
            i += 1
        else:
            assert toks[i] == "e"
            if with_ev:
                node["ev"], i = _parse_answer(toks, i + 1)
            else:
                node["ev"] = True
                i = _skip_answer(toks, i + 1)
        if toks[i] == "-":
            node["children"] = None
            i += 1
        else:
            k = int(toks[i])
            i += 1
            cs = []
            for _ in range(k):
                c, i = rec(i)
                cs.append(c)
            node["children"] = cs
        return node, i

    node, i = rec(0)
    assert i == len(toks), "trailing tokens in tree text"
    return node


def path_str(path):
    return "-" if not path else ".".join(str(i) for i in path)


def node_at(tree, path):
    for i in path:
        tree = tree["children"][i]
    return tree


def count_nodes(t):
    n = 1
    for c in t["children"] or []:
        n += count_nodes(c)
    return n


def tree_shape(t):
    """(nodes, expanded, depth, visited nodes that were never expanded = finished games, of which drawn)"""
    nodes = exp = term = draws = 0
    depth = 0
    stack = [(t, 0)]
    while stack:
        n, d = stack.pop()
        nodes += 1
        depth = max(depth, d)
        if n["children"] is not None:
            exp += 1
            for c in n["children"]:
                stack.append((c, d + 1))
        elif n["sims"] > 0:
            term += 1
            if n["v0"] == 0:
                draws += 1
    return nodes, exp, depth, term, draws


def diff_trees(impl, model, exact_values, ptol, vtol=Fraction(0)):
    """first difference between two parsed trees as (path, field, impl value, model value), or None.
    Structure, moves, positions, visits: exact.  Values: exact when `exact_values`, else within
    vtol per visit.  Priors: relative `ptol`."""
    stack = [((), impl, model)]
    while stack:
        path, a, b = stack.pop()
        for f in ("pos", "move", "sims"):
            if a[f] != b[f]:
                return path, f, a[f], b[f]
        for f in ("v0", "value"):
            if exact_values:
                if a[f] != b[f]:
                    return path, f, a[f], b[f]
            elif abs(a[f] - b[f]) > vtol * max(1, a["sims"]):
                return path, f, a[f], b[f]
        if (a["children"] is None) != (b["children"] is None):
            return path, "expanded", a["children"] is not None, b["children"] is not None
        if len(a["priors"]) != len(b["priors"]):
            return path, "priors-length", len(a["priors"]), len(b["priors"])
        for i, (x, y) in enumerate(zip(a["priors"], b["priors"])):
            if abs(x - y) > ptol * abs(y):
                return path, "prior[%d]" % i, x, y
        if a["children"] is not None:
            if len(a["children"]) != len(b["children"]):
                return path, "children-count", len(a["children"]), len(b["children"])
            for i in range(len(a["children"]) - 1, -1, -1):
                stack.append((path + (i,), a["children"][i], b["children"][i]))
    return None


# ------------------------------------------------------------------ config text

_TABLE_TEXT = {}


def table_text(size):
    """the implementation's own id -> move decoding of a size (so that a harmless renumbering of
    move ids does not disturb the tree properties; the numbering itself is C07's business)"""
    if size not in _TABLE_TEXT:
        from tak.model import encoding

        n = encoding.n_moves_for_size(size)
        _TABLE_TEXT[size] = "%d %d %s" % (size, n, " ".join(ser.move_str(encoding.decode_move(size, i)) for i in range(n)))
    return _TABLE_TEXT[size]


def f32(x):
    import numpy as np

    return float(np.float32(x))


def cfg_text(case, ptol, vtol):
    """cutoff as the float32 the comparison `raw_probs >= cutoff_prob` is made in"""
    return "%s %d %s %s %s %s" % (
        rat(f32(case["cutoff"])),
        0 if case["noise_alpha"] is None else 1,
        rat(case["mix"]),
        rat(ptol),
        rat(vtol),
        table_text(case["size"]),
    )


# ------------------------------------------------------------------ harness evaluators

def legal_ids(pos):
    """ids (in the implementation's numbering) of the moves the implementation accepts at pos"""
    import tak
    from tak.model import encoding

    out = []
    for m in pos.all_moves():
        try:
            pos.move(m)
        except tak.IllegalMove:
            continue
        try:
            out.append(encoding.encode_move(pos.size, m))
        except KeyError:
            pass
    return sorted(set(out))


def _dy(rng, bits):
    return rng.randrange(1, 2**bits) / float(2**bits)


def _value(rng, kind):
    if kind == "adversarial":
        return rng.choice([1.0, -1.0, 0.0, 0.5, -0.5, 1.0, -1.0, 2.0**-10, -(2.0**-10), 1 - 2.0**-10])
    return rng.randrange(-16, 17) / 16.0


class HarnessEvaluator:
    """deterministic in (kind, seed, sequence of positions asked).  Priors are dyadic float32
    values and values are dyadic, so every float sum the search forms is exact."""

    def __init__(self, kind, seed, cutoff):
        self.kind = kind
        self.rng = random.Random(seed)
        self.cutoff32 = f32(cutoff)
        self.modes = {}

    def evaluate(self, pos):
        import numpy as np
        import torch
        from tak.model import encoding

        rng = self.rng
        n = encoding.n_moves_for_size(pos.size)
        W = encoding.MAX_MOVE_ID
        kind = self.kind
        if kind == "uniform":
            return torch.full((W,), 2.0**-13, dtype=torch.float32), _value(rng, kind)
        if kind == "uniform-kept":
            # an evaluator that answers from a table it keeps (a uniform-prior baseline, an evaluation
            # cache, a preallocated output buffer): the SAME tensor object on every call
            if not hasattr(self, "_kept"):
                self._kept = torch.full((W,), 2.0**-13, dtype=torch.float32)
            return self._kept, _value(rng, "uniform")
        legal = legal_ids(pos)
        if not legal:
            # no move is possible and the game is not over: outside the property's domain, the
            # search cannot continue from such a node whatever the evaluator says
            return torch.full((W,), 2.0**-13, dtype=torch.float32), _value(rng, kind)
        legal_set = set(legal)
        if kind == "random" and rng.random() < 0.2:
            # mass on legal moves only (a sharp evaluator), not normalised
            p = np.zeros((W,), dtype=np.float32)
            for i in legal:
                p[i] = _dy(rng, rng.choice([3, 6, 10])) / 256 if rng.random() < 0.7 else 0.0
            p[rng.choice(legal)] = _dy(rng, 4) / 2
            return torch.from_numpy(p), _value(rng, kind)
        # every vector keeps total mass <= 1 inside the id range (as a softmax output does), so that
        # the renormalised child priors stay at or above the cutoff floor
        if kind == "random":
            base = rng.choice([0.0, 2.0**-20, 2.0**-14, 2.0**-13])
            p = np.full((W,), base, dtype=np.float32)
            for _ in range(rng.randrange(1, 40)):
                p[rng.randrange(n)] = _dy(rng, rng.choice([3, 6, 10])) / 128
            for i in rng.sample(legal, min(len(legal), rng.randrange(1, 6))):
                p[i] = _dy(rng, rng.choice([2, 5, 10])) / 16
            return torch.from_numpy(p), _value(rng, kind)
        assert kind == "adversarial"
        mode = rng.choice(["one-legal", "cutoff-edge", "wide", "short", "exact-n", "legal-only"])
        self.modes[mode] = self.modes.get(mode, 0) + 1
        c = np.float32(self.cutoff32)
        below = float(np.nextafter(c, np.float32(0)))
        above = float(np.nextafter(c, np.float32(1)))
        keep = rng.choice(legal)
        if mode == "one-legal":
            p = np.zeros((W,), dtype=np.float32)
            for i in range(n):
                if i not in legal_set:
                    p[i] = 2.0**-13
            p[keep] = rng.choice([float(c), 2.0**-5, above])
        elif mode == "cutoff-edge":
            p = np.zeros((W,), dtype=np.float32)
            for i in range(n):
                p[i] = rng.choice([float(c), below, above, 0.0, below])
            p[keep] = rng.choice([float(c), above])
        elif mode == "wide":
            p = np.zeros((W,), dtype=np.float32)
            p[n:] = 1.0
            for i in rng.sample(range(n), min(n, 25)):
                p[i] = _dy(rng, 8) / 64
            p[keep] = _dy(rng, 4) / 2
        elif mode == "legal-only":
            p = np.zeros((W,), dtype=np.float32)
            for i in legal:
                p[i] = rng.choice([float(c), above, 2.0**-8, 2.0**-10])
            p[keep] = rng.choice([0.25, float(c), 0.5])
        elif mode == "short":
            ln = rng.randrange(keep + 1, n + 1)
            p = np.zeros((ln,), dtype=np.float32)
            for i in rng.sample(range(ln), min(ln, 25)):
                p[i] = _dy(rng, 8) / 64
            p[keep] = _dy(rng, 4) / 2
        else:
            p = np.full((n,), 2.0**-13, dtype=np.float32)
            p[keep] = 0.25
        return torch.from_numpy(p), _value(rng, kind)


_NET = {}


def network_evaluator(seed):
    """the real network path: a tiny randomly initialised transformer behind ModelWrapper"""
    if seed not in _NET:
        import torch
        import xformer
        from tak.model import heads, wrapper

        torch.manual_seed(seed)
        cfg = xformer.Config(
            n_layer=1, d_model=32, d_head=16, n_ctx=128, n_vocab=256, autoregressive_mask=False, output_head=heads.PolicyValue
        )
        model = xformer.Transformer(cfg)
        model.init_weights()
        model.eval()
        _NET[seed] = wrapper.ModelWrapper(model)
    return _NET[seed]


def make_evaluator(case):
    if case["evaluator"] == "network":
        return network_evaluator(case["eseed"] % 3)
    return HarnessEvaluator(case["evaluator"], case["eseed"], case["cutoff"])


# ------------------------------------------------------------------ recording

class HarnessFault(Exception):
    """the evaluator failed once (as a remote evaluator whose connection dropped would)"""


class Recorder:
    """Wraps the evaluator, `torch.multinomial`, `torch.distributions.Dirichlet.sample` and
    `tak_ext.solve_policy` while active.  `sampler`: `torch` keeps the real multinomial draw;
    `first`/`last`/`greedy`/`uniform` replace the draw by another index of positive probability
    (the property quantifies over whatever the sampler draws)."""

    def __init__(self, evaluator, sampler="torch", sseed=0):
        self.inner = evaluator
        self.sampler = sampler
        self.srng = random.Random(sseed)
        self.choices = []
        self.answers = []
        self.by_pos = {}
        self._alive = []
        self.solver_calls = []
        self.capture_solver = True
        self.seen_texts = None  # set() to collect the text of every position the evaluator is asked about
        self.fault_at = None  # raise HarnessFault (once) instead of answering evaluation number fault_at
        self._patched = None

    # evaluator protocol
    def evaluate(self, pos):
        if self.fault_at is not None and len(self.answers) >= self.fault_at:
            self.fault_at = None
            raise HarnessFault("scripted evaluator failure (network client error)")
        probs, value = self.inner.evaluate(pos)
        a = {"probs": tensor_list(probs), "value": float(value), "noise": None, "dtype": str(probs.dtype)}
        self.answers.append(a)
        self.by_pos[id(pos)] = a
        self._alive.append(pos)
        if self.seen_texts is not None:
            self.seen_texts.add(ser.pos_str(pos))
        return probs, value

    def ev_of(self, node):
        return self.by_pos.get(id(node.position))

    def mark(self):
        return len(self.choices), len(self.answers)

    def __enter__(self):
        import tak_ext
        import torch

        rec = self
        orig_multi = torch.multinomial
        orig_dir = torch.distributions.Dirichlet.sample
        orig_solve = tak_ext.solve_policy

        def multinomial(input, num_samples, *a, **k):
            r = orig_multi(input, num_samples, *a, **k)
            if num_samples == 1 and input.dim() == 1 and rec.sampler != "torch":
                pos = torch.nonzero(input > 0)[:, 0].tolist()
                if pos:
                    if rec.sampler == "first":
                        i = pos[0]
                    elif rec.sampler == "last":
                        i = pos[-1]
                    elif rec.sampler == "greedy":
                        i = int(torch.argmax(input).item())
                    elif rec.sampler.startswith("nth:"):
                        i = pos[int(rec.sampler[4:]) % len(pos)]  # the k-th outcome that has positive probability
                    else:
                        i = rec.srng.choice(pos)
                    r = torch.tensor([i], dtype=r.dtype)
            if num_samples == 1 and input.dim() == 1:
                rec.choices.append(int(r.item()))
            return r

        def sample(self_, *a, **k):
            r = orig_dir(self_, *a, **k)
            if rec.answers:
                rec.answers[-1]["noise"] = tensor_list(r)
                rec.answers[-1]["noise_count"] = rec.answers[-1].get("noise_count", 0) + 1
            return r

        def solve_policy(pi_theta, q, lambda_n):
            call = {"pi": pi_theta.detach().clone(), "q": q.detach().clone(), "lam": float(lambda_n)}
            try:
                w = orig_solve(pi_theta, q, lambda_n)
            except Exception as e:
                call["error"] = "%s: %s" % (type(e).__name__, e)
                if rec.capture_solver:
                    rec.solver_calls.append(call)
                raise
            call["w"] = w.detach().clone()  # the value as it was reported
            call["ret"] = w  # the object the caller was handed (it must still say the same later on)
            if rec.capture_solver:
                rec.solver_calls.append(call)
            return w

        self._patched = (orig_multi, orig_dir, orig_solve)
        torch.multinomial = multinomial
        torch.distributions.Dirichlet.sample = sample
        tak_ext.solve_policy = solve_policy
        return self

    def __exit__(self, *exc):
        import tak_ext
        import torch

        torch.multinomial, torch.distributions.Dirichlet.sample, tak_ext.solve_policy = self._patched
        self._patched = None
        return False


# ------------------------------------------------------------------ cases

EVALUATORS = ["uniform", "random", "adversarial", "network"]
SAMPLERS = ["torch", "torch", "first", "last", "greedy", "uniform"]


def start_positions(rng, size, count, custom_prob=0.25):
    """non-terminal positions: the initial one and positions from random play, including late ones
    (so that finished games are reached inside the search)"""
    import tak

    from . import gen

    out = [tak.Position.from_config(tak.Config(size=size))]
    tries = 0
    while len(out) < count and tries < 20 * count:
        tries += 1
        cfg = gen.random_config(rng, size, custom_prob=custom_prob, max_pieces=None)
        policy = rng.choice(gen.POLICIES)
        game = gen.play_random_game(rng, cfg, policy, max_plies=6 * size * size)
        live = [p for p in game if p.winner()[1] is None]
        if not live:
            continue
        r = rng.random()
        if r < 0.45:
            p = live[-1] if rng.random() < 0.5 else live[max(0, len(live) - 1 - rng.randrange(3))]
        else:
            p = rng.choice(live)
        if not legal_ids(p):
            continue
        out.append(p)
    return out[:count]


def ending_class(pos):
    """how a finished game ended (the implementation's own adjudication; used only to spread the
    generated endings over the kinds the rules know): road / board-full / reserves, won or drawn"""
    w, why = pos.winner()
    if why is None:
        return None
    if why.name == "ROAD":
        return "road"
    kind = "full" if all(pos.board) else "reserves"
    return kind + ("-draw" if w is None else "-win")


def endgame_positions(rng, size, per_class, back=(1, 1, 2, 3)):
    """live positions 1..3 plies before the end of random games with small (custom) reserves,
    balanced over the ways a game can end — road, full board, exhausted reserves; decided on flats
    or level — so that finished games of every kind, drawn ones included, sit right below the
    root and get visited.  Returns [(ending class of the game it came from, position)]."""
    import tak

    from . import gen

    buckets = {}
    want = ["road", "full-win", "full-draw", "reserves-win", "reserves-draw"]
    tries = 0
    while tries < 400 and any(len(buckets.get(k, [])) < per_class for k in want):
        tries += 1
        r = rng.random()
        if r < 0.2:
            # MORE than the standard set (roads still arrive after a handful of plies)
            from .gen import STD_CAPS, STD_PIECES

            cfg = tak.Config(size=size, pieces=STD_PIECES[size] + rng.choice([1, 2, 5, 20]), capstones=STD_CAPS[size] + rng.choice([0, 1, 2]))
        elif r < 0.6:
            cfg = tak.Config(size=size, pieces=rng.randrange(1, size + 3), capstones=rng.choice([0, 0, 1]))
        elif r < 0.8:
            cfg = tak.Config(size=size, pieces=rng.randrange(size + 1, 2 * size + 4), capstones=rng.choice([0, 1]))
        else:
            cfg = tak.Config(size=size)
        game = gen.play_random_game(rng, cfg, rng.choice(gen.POLICIES), max_plies=10 * size * size)
        cls = ending_class(game[-1])
        if cls is None or len(game) < 3:
            continue
        b = buckets.setdefault(cls, [])
        if len(b) >= per_class:
            continue
        k = min(rng.choice(back), len(game) - 1)
        p = game[-1 - k]
        if p.winner()[1] is None and legal_ids(p):
            b.append((cls, p))
    out = []
    for k in want:
        out.extend(buckets.get(k, []))
    return out


def tactical_positions(rng, size, count):
    """constructed live positions built around the rarely reached rules: the mover's capstone on top
    of a stack of two or more with a wall one or two squares away and room beyond (flattening only
    by the lone capstone on the final drop); stacks TALLER than the board (height up to 2*size:
    the carry limit is not the stack height); the mover out of flats but holding a capstone, or out
    of capstones; walls and capstones of both colours as neighbours.  Returns [(label, position)]."""
    import tak
    from tak import pieces

    W, B = pieces.Color.WHITE, pieces.Color.BLACK
    F, S, C = pieces.Kind.FLAT, pieces.Kind.STANDING, pieces.Kind.CAPSTONE
    P = pieces.Piece.cached
    out = []
    tries = 0
    while len(out) < count and tries < 40 * count:
        tries += 1
        ply = rng.choice([4, 5, 6, 7, 10, 11, 30, 31])
        me = W if ply % 2 == 0 else B
        other = B if me == W else W
        board = [[] for _ in range(size * size)]
        theme = rng.choice(["cap-stack-wall", "cap-stack-wall", "tall-stack", "tall-stack", "no-flats", "mixed"])

        def put(x, y, st):
            if 0 <= x < size and 0 <= y < size:
                board[x + y * size] = st

        def body(h):
            return [P(rng.choice([me, other]), F) for _ in range(h)]

        x, y = rng.randrange(size), rng.randrange(size)
        dx, dy = rng.choice([(1, 0), (-1, 0), (0, 1), (0, -1)])
        if theme == "cap-stack-wall":
            h = rng.choice([1, 2, 2, 3, size, size + 1])
            put(x, y, [P(me, C)] + body(h))
            d = rng.choice([1, 2, 2, 3])
            for k in range(1, d):
                if rng.random() < 0.5:
                    put(x + k * dx, y + k * dy, [P(rng.choice([me, other]), F)] + body(rng.choice([0, 0, 1, 2])))
            put(x + d * dx, y + d * dy, [P(rng.choice([me, other]), S)] + body(rng.choice([0, 0, 1, 3])))
            if rng.random() < 0.5:
                put(x + (d + 1) * dx, y + (d + 1) * dy, [P(rng.choice([me, other]), rng.choice([F, S, C]))])
        elif theme == "tall-stack":
            h = rng.choice([size, size + 1, size + 2, 2 * size])
            put(x, y, [P(me, rng.choice([F, F, S, C]))] + body(h - 1))
            if rng.random() < 0.6:
                put(x + dx, y + dy, [P(rng.choice([me, other]), rng.choice([F, S, C]))])
        else:
            put(x, y, [P(me, rng.choice([F, S, C]))] + body(rng.choice([0, 1, 2, size])))
        # neighbours and noise
        for _ in range(rng.choice([1, 2, 4, size])):
            i = rng.randrange(size * size)
            if not board[i]:
                board[i] = [P(rng.choice([me, other]), rng.choice([F, F, F, S, C]))] + body(rng.choice([0, 0, 0, 1, 2]))
        if theme == "no-flats":
            mine = tak.StoneCounts(0, rng.choice([1, 1, 2]))
        else:
            mine = tak.StoneCounts(rng.choice([1, 3, 10, 20]), rng.choice([0, 0, 1, 2]))
        theirs = tak.StoneCounts(rng.choice([1, 3, 10, 20]), rng.choice([0, 1]))
        stones = (mine, theirs) if me == W else (theirs, mine)
        pos = tak.Position(size=size, stones=stones, ply=ply, board=board)
        try:
            if pos.winner()[1] is not None or not legal_ids(pos):
                continue
        except Exception:
            continue
        out.append(("tactical:" + theme, pos))
    return out


def replay_history(cfg, moves):
    """the position after `moves` from the start of a game with configuration cfg, or None if some
    move is refused / the game ends on the way"""
    import tak

    p = tak.Position.from_config(cfg)
    for m in moves:
        if p.winner()[1] is not None:
            return None
        try:
            p = p.move(m)
        except tak.IllegalMove:
            return None
    return p


def make_case(rng, size, pos, evaluator, budget, noise, reuse, descend=None):
    return {
        "descend": descend,
        "size": size,
        "pos": ser.pos_str(pos),
        "evaluator": evaluator,
        "eseed": rng.randrange(1 << 30),
        "budget": budget,
        "noise_alpha": (rng.choice([0.3, 1.0]) if noise else None),
        "mix": rng.choice([0.25, 0.25, 0.5, 0.125]),
        "sampler": rng.choice(SAMPLERS),
        "sseed": rng.randrange(1 << 30),
        "reuse": reuse,
        "C": rng.choice([4, 4, 1.5, 0.5, 8]),
        "cutoff": 1e-6,
        # the caller changes the exploration constant of the live engine AFTER the search and asks for
        # the distributions of the same tree again (C09: the multiplier is the engine's C as it stands)
        "report_C": rng.choice([None, None, None, 2.5, 0.75]),
        # MCTS.print_tree is called on the tree after every search phase
        "dump": rng.random() < 0.3,
    }


class RunResult:
    pass


def single_thread():
    """the searches are thousands of tiny tensor operations: intra-op threads only add contention
    (check.py imports torch before OMP_NUM_THREADS is set)"""
    import torch

    try:
        torch.set_num_threads(1)
    except Exception:
        pass


def run_case(case, hold_root=False, shared=None):
    """Run the real search on a case.  Returns a RunResult with: phases (list of dicts with budget,
    start text, choices, answers, dump), pos_before/pos_after, solver_calls, error, the trees and the
    recorder (for C09's follow-up calls).

    Phases of a case: `analyze(p)` with the budget; optionally `analyze_tree` on the same root with
    the larger limit `reuse`; optionally (`descend`: list of {pick, extra}) `analyze_tree` on a CHILD
    of the tree searched so far, taken as the new root with `extra` more visits — the way a game
    played move by move walks down its tree.  `root_tree` stays the first root (its statistics are
    then not touched by the child's search), `tree` is the last root searched.

    `shared`: a dict that carries ONE engine object (and its recorder) from case to case, so that an
    engine's lifetime spans several searches (different positions, sizes, configurations).

    When the search raises, the case is run once more through `analyze_tree` on a root node the
    harness holds, so that the tree as it stood when the exception escaped can be dumped
    (`partial`); with a shared engine the root is held from the start."""
    import torch
    from tak import mcts

    pos = ser.parse_pos(case["pos"].split(" "))
    res = RunResult()
    res.case = case
    res.pos_before = ser.pos_str(pos)
    res.error = None
    res.partial = None
    res.nonfinite = False
    res.unreadable = None
    res.faulted = False
    res.phases = []
    if shared is not None and "engine" in shared:
        rec, engine = shared["rec"], shared["engine"]
        rec.sampler = case["sampler"]
        rec.srng = random.Random(case["sseed"])
        engine.config.simulation_limit = case["budget"]
        engine.config.root_noise_alpha = case["noise_alpha"]
        engine.config.root_noise_mix = case["mix"]
        engine.config.C = case["C"]
        engine.config.cutoff_prob = case["cutoff"]
        rec.solver_calls = []
    else:
        evaluator = make_evaluator(case)
        rec = Recorder(evaluator, case["sampler"], case["sseed"])
        cfg = mcts.Config(
            time_limit=0,
            simulation_limit=case["budget"],
            root_noise_alpha=case["noise_alpha"],
            root_noise_mix=case["mix"],
            C=case["C"],
            cutoff_prob=case["cutoff"],
        )
        engine = mcts.MCTS(cfg, rec)
        if shared is not None:
            shared["rec"], shared["engine"] = rec, engine
    if shared is not None:
        hold_root = True
    res.rec = rec
    torch.manual_seed(case["sseed"])
    res.engine = engine
    res.pos = pos
    tree = None
    res.root_tree = None
    steps = [("fresh", case["budget"], None)]
    if case.get("reuse"):
        steps.append(("same", case["reuse"], None))
    for d in case.get("descend") or []:
        steps.append(("child", d["extra"], d["pick"]))
    with rec:
        for k, (how, n, pick) in enumerate(steps):
            c0, a0 = rec.mark()
            held = None
            root_path = None
            if how == "child":
                kids = tree.children or []
                if not kids:
                    break
                visited = [i for i, c in enumerate(kids) if c.simulations > 0]
                pool = visited if visited and pick % 10 < 8 else list(range(len(kids)))
                ci = pool[(pick // 10) % len(pool)]
                tree = kids[ci]
                root_path = ci
                n = max(1, int(tree.simulations) + n)  # a limit of 0 would mean "no limit"
            try:
                try:
                    start = fresh_text(pos) if tree is None else dump_tree(tree, rec.ev_of)
                except NodeUnreadable as e:
                    res.error = "unreadable tree: %s" % (e,)
                    res.unreadable = {"path": list(e.path), "parent": e.parent_pos, "move": e.move, "exc": type(e.exc).__name__}
                    break
            except NonFinite as e:
                res.error = "NonFinite statistic in tree: %s" % (e,)
                break
            prev_sims = 0 if tree is None else int(tree.simulations)
            faulted = False
            try:
                if tree is None and case.get("fault_at") is not None:
                    # the evaluator fails once in the middle of the search; the caller keeps the tree
                    # and asks again: the search carries on from consistent statistics
                    held = mcts.Node(position=pos, move=None)
                    rec.fault_at = len(rec.answers) + int(case["fault_at"])
                    try:
                        tree = engine.analyze_tree(held)
                    except HarnessFault:
                        faulted = True
                        tree = engine.analyze_tree(held)
                    rec.fault_at = None
                elif tree is None and hold_root:
                    held = mcts.Node(position=pos, move=None)
                    tree = engine.analyze_tree(held)
                elif tree is None:
                    tree = engine.analyze(pos)
                else:
                    held = tree
                    engine.config.simulation_limit = n
                    tree = engine.analyze_tree(tree)
            except Exception as e:  # the search did not return
                res.error = "%s: %s" % (type(e).__name__, str(e)[:200])
                last = rec.solver_calls[-1] if rec.solver_calls else None
                if last is not None and "w" in last and not bool(torch.isfinite(last["w"]).all()):
                    res.nonfinite = True
                if held is not None:
                    try:
                        res.partial = {"budget": n, "dump": dump_tree(held, rec.ev_of), "visits": int(held.simulations)}
                    except Exception:
                        res.partial = None
                break
            if res.root_tree is None:
                res.root_tree = tree
            if case.get("dump") and tree.children and tree.simulations > 0:
                # the caller looks at the tree (MCTS.print_tree) before going on with it: looking changes nothing
                import contextlib
                import io

                try:
                    with contextlib.redirect_stdout(io.StringIO()):
                        engine.print_tree(tree)
                except Exception as e:
                    res.error = "print_tree raised %s: %s" % (type(e).__name__, str(e)[:160])
                    break
            try:
                dump = dump_tree(tree, rec.ev_of)
            except NonFinite as e:
                res.error = "NonFinite statistic in tree: %s" % (e,)
                break
            except NodeUnreadable as e:
                res.error = "unreadable tree: %s" % (e,)
                res.unreadable = {"path": list(e.path), "parent": e.parent_pos, "move": e.move, "exc": type(e.exc).__name__}
                break
            res.phases.append(
                {
                    "how": how,
                    "child": root_path,
                    "budget": n,
                    "prev_sims": prev_sims,
                    "start": start,
                    "choices": rec.choices[c0:],
                    "answers": rec.answers[a0:],
                    "dump": dump,
                    # the descent choices of the aborted simulation were recorded but never played
                    # out: such a phase is judged by TreeInv and the formula only, not replayed
                    "no_replay": faulted,
                }
            )
            if faulted:
                res.faulted = True
    # what tree_probs hands out is the caller's: writing into it (temperature, masking) must not
    # reach back into the tree
    res.scribble = None
    if tree is not None and res.error is None and res.phases:
        try:
            before = dump_tree(tree, rec.ev_of)
            nodes, stack = [], [tree]
            while stack and len(nodes) < 12:
                nd = stack.pop()
                if nd.children:
                    nodes.append(nd)
                    stack.extend(nd.children[:4])
            cap, rec.capture_solver = rec.capture_solver, False  # these calls are the harness's own
            try:
                with rec:
                    for nd in nodes:
                        try:
                            w = engine.tree_probs(nd)
                            if hasattr(w, "zero_"):
                                w.zero_()
                        except Exception:
                            pass
            finally:
                rec.capture_solver = cap
            after = dump_tree(tree, rec.ev_of)
            if after != before:
                res.scribble = {"before": before, "after": after}
        except (NonFinite, NodeUnreadable):
            pass
    res.tree = tree
    res.pos_after = ser.pos_str(pos)
    res.solver_calls = rec.solver_calls
    if res.error is not None and res.partial is None and not hold_root and res.unreadable is None:
        again = run_case(case, hold_root=True)
        if again.error is not None:
            res.partial = again.partial
    return res


def replay_line(cfgt, ph):
    return "tree replay %s %d %s %d%s %d%s" % (
        cfgt,
        ph["budget"],
        ph["start"],
        len(ph["choices"]),
        "".join(" %d" % c for c in ph["choices"]),
        len(ph["answers"]),
        "".join(" " + answer_text(a) for a in ph["answers"]),
    )


def inv_line(cfgt, ph):
    return "tree inv %s %d %s" % (cfgt, max(ph["budget"], ph["prev_sims"]), ph["dump"])


def is_exact(case):
    return case["evaluator"] != "network"


def tolerances(case):
    """(ptol, vtol): priors come out of a float32 division (2e-6 relative); accumulated values are
    exact for dyadic evaluators and float64 sums of network outputs otherwise"""
    if is_exact(case):
        return Fraction(2, 10**6), Fraction(0)
    return Fraction(1, 10**5), Fraction(1, 10**9)

"""Python side of the driver serialisation (see lean/TakVerif/Driver/Ser.lean)."""

_LETTER = {(0, 0): "a", (0, 1): "b", (0, 2): "c", (1, 0): "d", (1, 1): "e", (1, 2): "f"}


def piece_letter(pc):
    return _LETTER[(pc.color.value, pc.kind.value)]


def stack_str(sq):
    if len(sq) == 0:
        return "_"
    return "".join(piece_letter(pc) for pc in sq)


def board_str(board):
    if len(board) == 0:
        return "."
    return ",".join(stack_str(sq) for sq in board)


def pos_str(p):
    return "%d %d %d %d %d %d %s" % (
        p.size,
        p.stones[0].stones,
        p.stones[0].caps,
        p.stones[1].stones,
        p.stones[1].caps,
        p.ply,
        board_str(p.board),
    )


def slides_str(s):
    if s is None:
        return "none"
    if len(s) == 0:
        return "-"
    return ",".join(str(d) for d in s)


def move_str(m):
    return "%d %d %d %s" % (m.x, m.y, m.type.value, slides_str(m.slides))


def parse_pos(tokens):
    """inverse of pos_str, building a real tak.Position"""
    import tak
    from tak import pieces

    n, ws, wc, bs, bc, ply, b = tokens
    inv = {v: k for k, v in _LETTER.items()}
    board = []
    if b != ".":
        for s in b.split(","):
            if s == "_":
                board.append([])
            else:
                board.append([pieces.Piece.cached(pieces.Color(inv[c][0]), pieces.Kind(inv[c][1])) for c in s])
    return tak.Position(
        size=int(n),
        stones=(tak.StoneCounts(int(ws), int(wc)), tak.StoneCounts(int(bs), int(bc))),
        ply=int(ply),
        board=board,
    )


def parse_move(tokens):
    import tak

    x, y, t, s = tokens
    if s == "none":
        sl = None
    elif s == "-":
        sl = ()
    else:
        sl = tuple(int(d) for d in s.split(","))
    return tak.Move(int(x), int(y), tak.MoveType(int(t)), sl)

"""./check <Cxx> [--tier quick|thorough] [--replay <path>]

One run = build -> audit -> corpus -> tie -> decide (DESIGN.md 1.2 / 1.3).
Exit 0: property held on everything explored (evidence written).
Exit 1: `VIOLATION property=<id> replay=<path>` printed.
Exit 2: the machinery itself failed (never reported as a violation).
"""
import argparse
import hashlib
import importlib
import json
import os
import random
import sys
import time
import traceback

from .lib import audit, build, env, findings


class Divergence:
    """model and implementation answered differently on `input`"""

    def __init__(self, component, input, impl, model):
        self.component = component
        self.input = input
        self.impl = impl
        self.model = model
        self.explained = False

    def to_json(self):
        return {"component": self.component, "input": self.input, "impl": self.impl, "model": self.model}


class Violation:
    """the property itself fails on the implementation at `replay`"""

    def __init__(self, key, what, replay):
        self.key = key  # stable identifier of the finding class (matched against KNOWN_FINDINGS)
        self.what = what
        self.replay = replay


class Ctx:
    def __init__(self, prop, tier, seed):
        self.prop = prop
        self.tier = tier
        self.seed = seed
        self.rng = random.Random(seed * 1000003 + sum(map(ord, prop)))
        self.t0 = time.time()
        self.hist = {}
        self._distinct = set()
        self.evaluations = 0
        self.samples = []
        self.notes = []
        self.exhaustive = None
        self.ext_dir = None
        self.stage = "build"
        self.extra = {}

    @property
    def thorough(self):
        return self.tier == "thorough"

    def count(self, key, n=1):
        self.hist[key] = self.hist.get(key, 0) + n

    def evaluated(self, n=1):
        self.evaluations += n

    def nontrivial(self, canonical):
        """register one case that exercised a non-trivial branch (deduplicated by content)"""
        self._distinct.add(hashlib.blake2b(canonical.encode(), digest_size=10).digest())

    def sample(self, obj, limit=6):
        if len(self.samples) < limit:
            self.samples.append(obj)

    def note(self, s):
        self.notes.append(s)
        print("[%s] %s" % (self.prop, s), flush=True)

    def elapsed(self):
        return time.time() - self.t0


def write_replay(prop, payload):
    d = os.path.join(env.VERIF, "replays")
    os.makedirs(d, exist_ok=True)
    blob = json.dumps(payload, sort_keys=True, indent=1, default=str)
    h = hashlib.sha256(blob.encode()).hexdigest()[:12]
    path = os.path.join(d, "%s-%s.json" % (prop, h))
    with open(path, "w") as f:
        f.write(blob + "\n")
    return os.path.relpath(path, env.VERIF)


def write_evidence(ctx, mod, obligations, discharged, theorems, violations, extra_assumptions=()):
    cov = {
        "obligations": obligations,
        "discharged": discharged,
        "checker_cmd": "cd lean && lake build %s && lake env lean <audit: collectAxioms on every theorem of the module>"
        % " ".join(mod.LEAN_MODULES),
        "trusted_base": list(getattr(mod, "TRUSTED", []))
        + [
            "Lean 4.33.0 kernel; axioms per theorem listed under coverage.theorems (allowed: propext, Classical.choice, Quot.sound)",
            "correspondence harness /verif/harness (Python) and the Lean line-protocol driver's parser/printer",
        ],
        "theorems": theorems,
        "evaluations": ctx.evaluations,
        "distinct_nontrivial": len(ctx._distinct),
        "rule": getattr(mod, "RULE", ""),
        "samples": ctx.samples if ctx.samples else ["(no sample recorded)"],
        "histogram": dict(sorted(ctx.hist.items())),
        "notes": ctx.notes[-40:],
    }
    if ctx.exhaustive is not None:
        cov["exhaustive"] = bool(ctx.exhaustive)
    cov.update(ctx.extra)
    ev = {
        "property_id": ctx.prop,
        "tier": ctx.tier,
        "seed": ctx.seed,
        "level": "proof",
        "coverage": cov,
        "assumptions": list(getattr(mod, "ASSUMPTIONS", [])) + list(extra_assumptions),
        "wall_s": round(ctx.elapsed(), 2),
        "violations": violations,
    }
    # runs against a deliberately modified tree (tools/seed_verify.py) keep their evidence apart
    d = os.environ.get("VERIF_EVIDENCE_DIR") or os.path.join(env.VERIF, "evidence")
    os.makedirs(d, exist_ok=True)
    tmp = os.path.join(d, ctx.prop + ".json.tmp%d" % os.getpid())
    with open(tmp, "w") as f:
        json.dump(ev, f, indent=1, default=str)
        f.write("\n")
    os.replace(tmp, os.path.join(d, ctx.prop + ".json"))


def lean_stage(ctx, mod):
    """build + audit.  Returns (broken: list[str], obligations, discharged, theorems)."""
    broken = []
    targets = list(mod.LEAN_MODULES) + ["takdriver"]
    ok, out, dt = build.lake_build(targets)
    ctx.note("lake build %s: %s in %.1fs" % (" ".join(targets), "ok" if ok else "FAILED", dt))
    if not ok:
        broken.append("lake build failed: " + out[-1500:])
    hits = audit.grep_forbidden()
    if hits:
        broken.append("forbidden tokens in lean/: " + "; ".join(hits[:10]))
    theorems = {}
    obligations = discharged = 0
    if ok:
        for m in mod.LEAN_MODULES:
            aok, thms, raw = audit.theorem_axioms(m)
            if not aok or not thms:
                broken.append("axiom audit of %s failed: %s" % (m, raw[-800:]))
            for name, axs in thms.items():
                obligations += 1
                bad = [a for a in axs if a not in audit.ALLOWED_AXIOMS]
                theorems[name] = axs
                if bad:
                    broken.append("theorem %s depends on axioms %s" % (name, bad))
                else:
                    discharged += 1
        ctx.note("audit: %d theorems, %d with allowed axioms only" % (obligations, discharged))
        if ctx.thorough and getattr(mod, "LEANCHECKER", True):
            lok, lout = build.leanchecker(mod.LEAN_MODULES)
            ctx.note("leanchecker %s: %s" % (" ".join(mod.LEAN_MODULES), "ok" if lok else "FAILED"))
            if not lok:
                broken.append("leanchecker failed: " + lout[-800:])
    return broken, obligations, discharged, theorems


def _rss_tree_kb():
    """resident memory of this process and its descendants (kB), from /proc"""
    me = os.getpid()
    kids = {}
    rss = {}
    for d in os.listdir("/proc"):
        if not d.isdigit():
            continue
        try:
            with open("/proc/%s/stat" % d) as f:
                st = f.read()
            ppid = int(st.rsplit(")", 1)[1].split()[1])
            with open("/proc/%s/statm" % d) as f:
                rss[int(d)] = int(f.read().split()[1]) * 4
            kids.setdefault(ppid, []).append(int(d))
        except (OSError, ValueError, IndexError):
            continue
    total, todo = 0, [me]
    while todo:
        p = todo.pop()
        total += rss.get(p, 0)
        todo += kids.get(p, [])
    return total


def start_watchdog(ctx):
    """A check must end.  An implementation that no longer returns, or allocates without bound,
    while the harness drives it would otherwise hang the check (or the machine): past a generous
    bound - ten to twenty times what the check takes on the unchanged tree - that is reported per the
    protocol of DESIGN 1.3 (the property is no longer shown to hold; no failing input isolated)."""
    limit_s = float(os.environ.get("VERIF_WATCHDOG_S", "7200" if ctx.thorough else "1500"))
    limit_kb = float(os.environ.get("VERIF_WATCHDOG_GB", "40")) * 1024 * 1024
    try:
        os.setpgrp()  # so that the watchdog can end every helper process the check started
    except OSError:
        pass

    import threading

    def loop():
        while True:
            time.sleep(5)
            why = None
            if ctx.elapsed() > limit_s:
                why = "the check did not finish within %d s (it takes one to two minutes on the unchanged tree): an operation of the implementation no longer returns" % limit_s
            else:
                try:
                    kb = _rss_tree_kb()
                except Exception:
                    kb = 0
                if kb > limit_kb:
                    why = "the check's processes hold %.0f GB of memory (under 3 GB on the unchanged tree): an operation of the implementation allocates without bound" % (kb / 1048576.0)
            if why:
                try:
                    # where every thread of the check stands (which call of the implementation does not return)
                    where = []
                    try:
                        import traceback

                        for tid, fr in sys._current_frames().items():
                            if tid != threading.get_ident():
                                where.append(["%s:%d %s" % (os.path.basename(f.filename), f.lineno, f.name) for f in traceback.extract_stack(fr)[-12:]])
                    except Exception:
                        pass
                    path = write_replay(ctx.prop, {"property": ctx.prop, "no_failing_input_found": True, "what": why, "seed": ctx.seed, "tier": ctx.tier, "notes": ctx.notes[-10:], "threads_at_timeout": where})
                    print("VIOLATION property=%s replay=%s no-failing-input-found" % (ctx.prop, path), flush=True)
                    print("  " + why, flush=True)
                finally:
                    import signal

                    try:
                        signal.signal(signal.SIGTERM, signal.SIG_IGN)
                        os.killpg(os.getpgrp(), signal.SIGTERM)
                    except Exception:
                        pass
                    os._exit(1)

    import threading

    threading.Thread(target=loop, daemon=True).start()


def main(argv=None):
    ap = argparse.ArgumentParser()
    ap.add_argument("prop")
    ap.add_argument("--tier", default=os.environ.get("VERIF_TIER", "quick"), choices=["quick", "thorough"])
    ap.add_argument("--replay", default=None)
    args = ap.parse_args(argv)
    prop = args.prop.upper()
    ctx = Ctx(prop, args.tier, env.seed())
    start_watchdog(ctx)
    try:
        mod = importlib.import_module("harness.props." + prop.lower())
        return run(ctx, mod, args)
    except SystemExit:
        raise
    except BaseException as e:
        traceback.print_exc()
        tb = traceback.extract_tb(e.__traceback__)
        repo_py = os.path.realpath(env.REPO_PY) + os.sep
        inner = os.path.realpath(tb[-1].filename) if tb else ""
        remote = getattr(getattr(e, "__cause__", None), "tb", None)
        if not isinstance(remote, str) and 'File "' in str(e) and ", line " in str(e):
            remote = str(e)  # a helper subprocess of the harness died and its traceback was passed on
        if isinstance(remote, str):  # the exception crossed a process boundary: innermost REMOTE frame
            import re as _re

            files = _re.findall(r'File "([^"]+)", line (\d+), in (\S+)', remote)
            if files:
                inner = os.path.realpath(files[-1][0])
                tb = [type("F", (), {"filename": f, "lineno": int(l), "name": n}) for f, l, n in files]
        from .lib import driver as _driver

        in_impl = inner.startswith(repo_py)
        # Past the build and audit stages, with the Lean driver answering, an exception that escapes
        # the harness while it handles the implementation's data is - on a tree where the check passes
        # for every seed tried - a consequence of what the implementation returned (a damaged object, a
        # value of another type or shape).  It is reported per the protocol, not as exit 2.
        late = getattr(ctx, "stage", "build") == "impl" and not isinstance(e, (_driver.DriverError,))
        if (in_impl or late) and not isinstance(e, (KeyboardInterrupt, MemoryError, ImportError, SyntaxError)):
            # The exception was raised INSIDE the implementation while the harness was driving it through
            # an operation it performs on the unchanged tree without trouble: the correspondence is broken
            # and no failing input of the property itself was isolated (DESIGN 1.3).
            frames = ["%s:%d %s" % (os.path.relpath(os.path.realpath(f.filename), os.path.realpath(env.REPO)) if os.path.realpath(f.filename).startswith(os.path.realpath(env.REPO)) else os.path.basename(f.filename), f.lineno, f.name) for f in tb[-6:]]
            payload = {
                "property": prop,
                "no_failing_input_found": True,
                "what": ("the implementation raised %s: %s at %s while the correspondence harness was driving it (an operation that completes on the unchanged tree)" % (type(e).__name__, str(e)[:300], frames[-1]) if in_impl else
                         "the harness could not process what the implementation returned (%s: %s at %s; the same run completes on the unchanged tree)" % (type(e).__name__, str(e)[:300], frames[-1] if frames else "?")) + "; the property is no longer SHOWN to hold",
                "traceback": frames,
                "seed": ctx.seed,
                "tier": ctx.tier,
            }
            path = write_replay(prop, payload)
            print("VIOLATION property=%s replay=%s no-failing-input-found" % (prop, path))
            print("  " + payload["what"])
            return 1
        print("[%s] INTERNAL ERROR of the checking machinery (exit 2, not a violation)" % prop)
        return 2


def run(ctx, mod, args):
    prop = ctx.prop
    known = findings.load().get(prop, {})

    broken, obligations, discharged, theorems = lean_stage(ctx, mod)

    if getattr(mod, "NEEDS_EXT", False):
        import torch  # noqa  (version is part of the cache key)

        d, log = build.build_ext()
        if d is None:
            # tak.cpp no longer compiles: outside "still compiles"; the machinery cannot run
            print(log)
            raise RuntimeError("tak_ext does not build from the current tak.cpp")
        ctx.ext_dir = d
        ctx.note("tak_ext: " + d)
    env.setup_impl_path(ctx.ext_dir)
    ctx.stage = "impl"
    if os.environ.get("COVERAGE_PROCESS_START"):
        import coverage  # tools/tie_coverage.py: which lines of /repo/python does this check execute?

        coverage.process_startup()
    if getattr(mod, "NEEDS_STUBS", False):
        import takverif_stubs  # noqa  (harness/bootstrap)

        takverif_stubs.install()

    violations = []
    if args.replay:
        data = json.load(open(args.replay))
        if isinstance(data.get("replay"), dict) and data["replay"].get("kind") == "session":
            from .lib import session

            vs = session.replay(ctx, Violation, data)
        else:
            vs = mod.replay(ctx, data)
        for v in vs:
            print("REPLAY: property=%s still fails: %s" % (prop, v.what))
        if not vs:
            print("REPLAY: property=%s holds on this input now" % prop)
        return 1 if vs else 0

    # corpus of minimised past failures first
    cdir = os.path.join(env.VERIF, "corpus", prop)
    if os.path.isdir(cdir):
        for f in sorted(os.listdir(cdir)):
            if f.endswith(".json"):
                data = json.load(open(os.path.join(cdir, f)))
                if isinstance(data.get("replay"), dict) and data["replay"].get("kind") == "session":
                    from .lib import session

                    vs = session.replay(ctx, Violation, data)
                else:
                    vs = mod.replay(ctx, data)
                ctx.count("corpus_replayed")
                for v in vs:
                    v.what = "[corpus %s] %s" % (f, v.what)
                violations += vs

    # cross-operation sessions (lib/session.py) run in their own fresh interpreters while the tie does
    sess = getattr(mod, "SESSION", None)
    sess_handle = None
    if sess:
        from .lib import session

        sess_handle = session.start(ctx, **sess)

    divergences = mod.tie(ctx)
    ctx.note("tie: %d evaluations, %d divergences" % (ctx.evaluations, len(divergences)))

    if broken or divergences or violations:
        violations += mod.search(ctx, divergences, broken)

    # cross-operation sessions (lib/session.py): the property's own operations interleaved with all
    # the others on objects derived from one another, in one long-lived interpreter
    if sess_handle is not None:
        vs = session.finish(ctx, Violation, sess_handle)
        ctx.note("sessions: %d operations, %d failures" % (ctx.hist.get("session:ops", 0), len(vs)))
        violations += vs

    unlisted = []
    for v in violations:
        if v.key in known:
            print("KNOWN-FINDING: property=%s %s" % (prop, known[v.key]))
        else:
            unlisted.append(v)

    reported = 0
    seen_keys = set()
    for v in unlisted:
        if v.key in seen_keys:
            continue
        seen_keys.add(v.key)
        path = write_replay(prop, {"property": prop, "key": v.key, "what": v.what, "replay": v.replay})
        print("VIOLATION property=%s replay=%s" % (prop, path))
        print("  " + v.what)
        reported += 1
        if reported >= 10:
            break

    unexplained = [d for d in divergences if not d.explained]
    if not unlisted and (broken or unexplained):
        payload = {
            "property": prop,
            "no_failing_input_found": True,
            "broken_obligations": broken,
            "unexplained_divergences": [d.to_json() for d in unexplained[:20]],
            "what": "the property is no longer SHOWN to hold: "
            + ("; ".join(b[:300] for b in broken) if broken else "")
            + (
                " correspondence component(s) %s diverge from the model" % sorted({d.component for d in unexplained})
                if unexplained
                else ""
            ),
        }
        path = write_replay(prop, payload)
        print("VIOLATION property=%s replay=%s no-failing-input-found" % (prop, path))
        reported += 1

    write_evidence(ctx, mod, obligations, discharged, theorems, reported)
    ctx.note(
        "done in %.1fs: evaluations=%d distinct_nontrivial=%d violations=%d"
        % (ctx.elapsed(), ctx.evaluations, len(ctx._distinct), reported)
    )
    return 1 if reported else 0


if __name__ == "__main__":
    sys.exit(main())

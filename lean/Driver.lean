/-
  Line-protocol driver: one operation per input line, one output line per input line.
  `<component> <op> <args…>`; unknown or unparsable input answers `bad-op` (never a default).
-/
import TakVerif.Driver.Move
import TakVerif.Driver.Winner
import TakVerif.Driver.Gen
import TakVerif.Driver.Tokens
import TakVerif.Driver.TPS
import TakVerif.Driver.PTN
import TakVerif.Driver.Symmetry
import TakVerif.Driver.Heap
import TakVerif.Driver.Tree
import TakVerif.Driver.Solver
import TakVerif.Driver.SelfPlay
import TakVerif.Driver.Batch
import TakVerif.Driver.Xformer
import TakVerif.Driver.Server
import TakVerif.Driver.Pool
import TakVerif.Driver.Snapshot
import TakVerif.Driver.Dataset

open Tak

def dispatch (line : String) : String :=
  let toks := (line.splitOn " ").filter (· ≠ "")
  let r : Option String :=
    match toks with
    | "move" :: rest => Driver.Move.handle rest
    | "winner" :: rest => Driver.Winner.handle rest
    | "gen" :: rest => Driver.Gen.handle rest
    | "tokens" :: rest => Driver.Tokens.handle rest
    | "tps" :: rest => Driver.TPS.handle rest
    | "ptn" :: rest => Driver.PTN.handle rest
    | "symmetry" :: rest => Driver.Symmetry.handle rest
    | "heap" :: rest => Driver.Heap.handle rest
    | "tree" :: rest => Driver.Tree.handle rest
    | "solver" :: rest => Driver.Solver.handle rest
    | "selfplay" :: rest => Driver.SelfPlay.handle rest
    | "batch" :: rest => Driver.Batch.handle rest
    | "xformer" :: rest => Driver.Xformer.handle rest
    | "server" :: rest => Driver.Server.handle rest
    | "pool" :: rest => Driver.Pool.handle rest
    | "snapshot" :: rest => Driver.Snapshot.handle rest
    | "dataset" :: rest => Driver.Dataset.handle rest
    | _ => none
  r.getD "bad-op"

partial def loop (hin hout : IO.FS.Stream) : IO Unit := do
  let line ← hin.getLine
  if line.isEmpty then return ()
  let line := (line.dropEndWhile (· == '\n')).toString
  hout.putStrLn (dispatch line)
  loop hin hout

def main : IO Unit := do
  let hin ← IO.getStdin
  let hout ← IO.getStdout
  loop hin hout
  hout.flush

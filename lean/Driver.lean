/-
  Line-protocol driver: one operation per input line, one output line per input line.
  `<component> <op> <args…>`; unknown or unparsable input answers `bad-op` (never a default).
-/
import TakVerif.Driver.Move

open Tak

def dispatch (line : String) : String :=
  let toks := (line.splitOn " ").filter (· ≠ "")
  let r : Option String :=
    match toks with
    | "move" :: rest => Driver.Move.handle rest
    | _ => none
  r.getD "bad-op"

partial def loop (hin hout : IO.FS.Stream) : IO Unit := do
  let line ← hin.getLine
  if line.isEmpty then return ()
  let line := (line.dropEndWhile (· == '\n')).toString
  hout.putStrLn (dispatch line)
  loop hin hout

def main : IO Unit := do
  let hin ← IO.getStdin
  let hout ← IO.getStdout
  loop hin hout
  hout.flush

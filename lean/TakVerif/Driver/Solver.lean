/- driver component `solver`: the exact bisection models and the C10 contract predicate,
   evaluated on implementation data given as exact numbers.

   Numbers: `n/d` (a rational), 8 hex digits (IEEE binary32 bit pattern), 16 hex digits
   (binary64 bit pattern).  Vectors are separated by a `|` token.

   ops (`<in>` = `<lambda> <pi…> | <q…>`):
     contract <kind> <in> | <w…>      kind = native | python | strict
                                        → `ok <alpha-lo> <alpha-hi>` | `fail:<clause>` (`fail:domain` = input outside the property)
     tol <kind> <in> | <w…>           → the tolerance used by `contract`, as a rational
     model-cpp <in>                   → `ok <alpha> <rounds> <exit>` | `noconverge` | `empty`
     model-py <in>                    → same
     weights <alpha> <in>             → the vector λπ_i/(α − q_i) as rationals
     corr <kind> <in> | <w…>          kind = native | python;  `<w…>` may be the single token `raised`
                                        → `ok <round>` | `ok32 <round>` (native only: matched at float32
                                          resolution, not at double) | `skip <round>` | `diverge:<why>`
     agree <in> | <w1…> | <w2…>       both outputs finite: `ok <maxdiff>` if max_i |w1_i − w2_i| ≤ 1/100,
                                        `skip` if the stated tolerances of the two contracts add up to more
                                        than 1/100 − (nothing to compare: badly conditioned), else `fail <maxdiff>`
     ulp32 <x>                        → spacing of binary32 at x
-/
import TakVerif.Driver.Ser
import TakVerif.Model.Solver

namespace Tak.Driver.Solver
open Tak.Solver

def hexVal (c : Char) : Option Nat :=
  if '0' ≤ c ∧ c ≤ '9' then some (c.toNat - '0'.toNat)
  else if 'a' ≤ c ∧ c ≤ 'f' then some (c.toNat - 'a'.toNat + 10)
  else if 'A' ≤ c ∧ c ≤ 'F' then some (c.toNat - 'A'.toNat + 10)
  else none

def parseHex (s : String) : Option Nat :=
  s.toList.foldlM (fun acc c => do let v ← hexVal c; pure (acc * 16 + v)) 0

/-- `some none` = a non-finite float -/
def parseNum (s : String) : Option (Option Rat) :=
  match s.splitOn "/" with
  | [n, d] => do
    let n ← n.toInt?
    let d ← d.toNat?
    if d = 0 then none else pure (some (mkRat n d))
  | [h] =>
    if h.length = 8 then (parseHex h).map ofBits32
    else if h.length = 16 then (parseHex h).map ofBits64
    else none
  | _ => none

def parseFinite (s : String) : Option Rat := (parseNum s).join

def showRat (r : Rat) : String := s!"{r.num}/{r.den}"

/-- split a token list at the `|` tokens -/
def splitBar : List String → List (List String)
  | [] => [[]]
  | t :: ts =>
    match splitBar ts with
    | [] => [[t]]
    | g :: gs => if t = "|" then [] :: g :: gs else (t :: g) :: gs

def parseKind : String → Option SolverKind
  | "native" => some .native
  | "python" => some .python
  | "strict" => some .strict
  | _ => none

def showExit : Exit → String
  | .sigma => "sigma" | .same => "same" | .width => "width"

def showOut : Except SolveErr (Out Rat) → String
  | .ok o => s!"ok {showRat o.alpha} {o.rounds} {showExit o.exit}"
  | .error .noConverge => "noconverge"
  | .error .empty => "empty"

/-- `<lambda> <pi…>` and `<q…>` -/
def parseIn (first q : List String) : Option (Rat × List Rat × List Rat) :=
  match first with
  | [] => none
  | l :: pis => do
    let lam ← parseFinite l
    let pi ← pis.mapM parseFinite
    let q ← q.mapM parseFinite
    pure (lam, pi, q)

def maxAbsDiff (a b : List Rat) : Rat :=
  (List.zipWith (fun x y => absv (x - y)) a b).foldl max 0

def handle : List String → Option String
  | "contract" :: k :: rest => do
    let k ← parseKind k
    match splitBar rest with
    | [a, b, c] =>
      let (lam, pi, q) ← parseIn a b
      let w ← c.mapM parseNum
      match check k pi q lam w with
      | .ok (l, h) => pure s!"ok {showRat l} {showRat h}"
      | .error cl => pure s!"fail:{cl.name}"
    | _ => none
  | "tol" :: k :: rest => do
    let k ← parseKind k
    match splitBar rest with
    | [a, b, c] =>
      let (lam, pi, q) ← parseIn a b
      let w ← c.mapM parseNum
      pure (showRat (tolFor k pi q lam w))
    | _ => none
  | "model-cpp" :: rest =>
    match splitBar rest with
    | [a, b] => do
      let (lam, pi, q) ← parseIn a b
      if pi.length ≠ q.length then none else pure (showOut (solveCppRat lam (pi.zip q)))
    | _ => none
  | "model-py" :: rest =>
    match splitBar rest with
    | [a, b] => do
      let (lam, pi, q) ← parseIn a b
      if pi.length ≠ q.length then none else pure (showOut (solvePyRat lam (pi.zip q)))
    | _ => none
  | "weights" :: al :: rest =>
    match splitBar rest with
    | [a, b] => do
      let al ← parseFinite al
      let (lam, pi, q) ← parseIn a b
      if pi.length ≠ q.length then none
      else pure (" ".intercalate ((weights lam (pi.zip q) al).map showRat))
    | _ => none
  | "corr" :: k :: rest => do
    let k ← parseKind k
    let py ← (match k with | .native => some false | .python => some true | .strict => none)
    match splitBar rest with
    | [a, b, c] =>
      let (lam, pi, q) ← parseIn a b
      if pi.length ≠ q.length then none
      else
        let obs : Option (Option (Rat × Rat)) :=
          if c = ["raised"] then some none
          else match c.mapM parseNum with
            | none => none
            | some w => (recoverAlpha pi q lam w).map some
        match obs with
        | none => pure "diverge:output-not-of-the-form"
        | some o =>
          let fine : Option Nat :=
            if py then none
            else match corr false (1 / 16777216) lam (pi.zip q) o with
              | .ok r => some r
              | _ => none
          match fine with
          | some r => pure s!"ok {r + 1}"
          | none =>
            match corr py 4 lam (pi.zip q) o with
            | .ok r => pure (if py then s!"ok {r + 1}" else s!"ok32 {r + 1}")
            | .skip r => pure s!"skip {r + 1}"
            | .diverge why => pure s!"diverge:{why}"
    | _ => none
  | "agree" :: rest =>
    match splitBar rest with
    | [a, b, c, d] => do
      let (lam, pi, q) ← parseIn a b
      let w1 ← c.mapM parseNum
      let w2 ← d.mapM parseNum
      match allFinite w1, allFinite w2 with
      | some f1, some f2 =>
        if f1.length ≠ f2.length then none
        else
          let t := tolFor .native pi q lam w1 + tolFor .python pi q lam w2
          let dmax := maxAbsDiff f1 f2
          if dmax ≤ 1 / 100 then pure s!"ok {showRat dmax}"
          else if 1 / 100 < t then pure "skip"
          else pure s!"fail {showRat dmax}"
      | _, _ => pure "nonfinite"
    | _ => none
  | ["ulp32", x] => do
    let x ← parseFinite x
    pure (showRat (ulp32 x))
  | _ => none

end Tak.Driver.Solver
